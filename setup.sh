#!/bin/bash
# Builds the fact extractor and pre-warms the dependency part of the cached target dir. Offline.
set -e
cd "$(dirname "$0")"
export CARGO_NET_OFFLINE=true
mkdir -p .build/facts
python3 - <<'PY'
import sys
sys.path.insert(0, '.')
from lib import extract as X
X.build_driver()
d, info = X.extract()
print("glasfacts ready; facts at", d, info)
PY
