"""Engine U: units of text measures. A position or length in a text is counted in bytes everywhere in this code base (text_size,
str slicing, the logos lexer, String editing); the two other units a Rust program can measure text in - characters
(`chars().count()`, the index of `chars().enumerate()`, `position` over characters) and UTF-16 code units (`char::len_utf16`,
`encode_utf16().count()`) - agree with bytes on ASCII text and on nothing else. The analysis is a backward dependence closure
(flow.depends' idea, specialised): from every argument of a *byte sink* back through assignments, arithmetic, casts, aggregates
(ranges) and calls, stopping at calls that produce a byte measure whatever they are given (`char::len_utf8`, `str::len`,
`TextSize::of`, ..): if a *non-byte measure* is reached, the sink is fed by it. Functions of the workspace whose integer result
depends on a non-byte measure are non-byte measures themselves (fixpoint), so a helper in between does not hide the source.
No part of this depends on where in a function the calls stand."""
import re
from .facts import callee, callee_def, op_place
from . import flow as FL

WORKSPACE = ("syntax::", "<syntax::", "ide::", "<ide::", "glas::", "<glas::", "gleam_interop::", "<gleam_interop::")

_INT_RET = re.compile(r"^(usize|u32|u64|u16|u8|i32|i64|isize|text_size::size::TextSize|TextSize)$")


def _full(t):
    f = t.get("fn") or {}
    return f.get("res") or f.get("full") or callee(t) or callee_def(t) or ""


def _types(t):
    f = t.get("fn") or {}
    return " ".join(str(x) for x in (f.get("targs") or [])) + " " + str(f.get("full") or "")


def nonbyte_measure(full, types=""):
    """'chars' / 'utf16' when the callee measures a text in characters or UTF-16 units, else None"""
    if not full:
        return None
    last = full.rsplit("::", 1)[-1]
    both = full + " " + types
    if last == "len_utf16" or "EncodeUtf16" in both or last == "encode_utf16":
        return "utf16"
    over_chars = "str::iter::Chars" in both or "str::iter::CharIndices" in both
    if over_chars and last in ("count", "position", "rposition"):
        return "chars"
    if over_chars and "Enumerate<" in both and last in ("next", "next_back", "nth", "last", "find", "find_map", "fold", "try_fold"):
        return "chars"
    return None


def byte_measure(full, types=""):
    """calls whose integer answer is a byte quantity whatever they were given: the closure stops here"""
    last = full.rsplit("::", 1)[-1]
    both = full + " " + types
    # an item of char_indices() carries the byte offset of its character, whichever item was asked for (`nth(k)` with k a character
    # count is the legitimate conversion from characters to bytes); not so under enumerate(), whose index counts
    if "str::iter::CharIndices" in both and "Enumerate<" not in both and last in ("next", "nth", "last", "find", "rfind", "next_back", "peek", "nth_back", "find_map"):
        return True
    if last in ("len_utf8",):
        return True
    if last == "len" and ("str::" in full or "String" in full or "[u8]" in full or "<u8>" in full):
        return True
    if last == "of" and "TextSize" in full:
        return True
    if last in ("text_range", "range", "start", "end", "len") and ("TextRange" in full or "rowan" in full or "Syntax" in full):
        return True
    if last in ("find", "rfind", "match_indices", "char_indices") and "str" in full:
        return True
    return False


def byte_sink_args(t):
    """the arguments of call terminator t that must be byte offsets / byte lengths of a UTF-8 text (indices into t['args'])"""
    full = _full(t)
    last = full.rsplit("::", 1)[-1]
    n = len(t.get("args") or [])
    strish = " for str>" in full or "<str as " in full or "str::<impl str>" in full or "core::str::" in full and "impl str" in full
    if last in ("index", "index_mut", "get", "get_mut", "get_unchecked") and ("for str>" in full or "<str>" in full or "SliceIndex<str>" in full):
        return list(range(n))
    if last in ("split_at", "split_at_checked", "is_char_boundary", "floor_char_boundary", "ceil_char_boundary") and ("str" in full):
        return list(range(1, n))
    if "alloc::string::String" in full and last in ("drain", "truncate", "replace_range", "insert", "insert_str", "split_off", "remove"):
        return [1] if n > 1 else []
    if last == "bump" and "Lexer" in full:
        return list(range(1, n))
    if "TextSize" in full and last in ("from", "new", "try_from", "from_u32") and "for u32" not in full and "for usize" not in full:
        return list(range(n))
    if "TextRange" in full and last in ("at", "new", "up_to", "empty"):
        return list(range(n))
    return []


class Units:
    def __init__(self, F):
        self.F = F
        self.measures = {}      # path of a workspace function -> unit its integer result is counted in ('chars' / 'utf16')
        self._defs = {}
        self._fix()

    def defs(self, f):
        d = self._defs.get(f.path)
        if d is None:
            d = self._defs[f.path] = FL.Defs(f)
        return d

    def unit_of_call(self, t):
        full = _full(t)
        u = nonbyte_measure(full, _types(t))
        if u:
            return u, full
        c = callee(t) or ""
        if c in self.measures:
            return self.measures[c], c
        return None, full

    def feeds(self, f, op, seen_fns=()):
        """non-byte measures the operand depends on: list of (unit, callee, line)"""
        d = self.defs(f)
        out = []
        seen, st = set(), [op]
        while st and len(seen) < 600:
            o = st.pop()
            pl = op_place(o) if isinstance(o, dict) else None
            if pl is None or pl["l"] in seen:
                continue
            l = pl["l"]
            seen.add(l)
            for dd in d.defs.get(l, []):
                if dd[2] == "call":
                    t = dd[3]
                    u, full = self.unit_of_call(t)
                    if u:
                        out.append((u, FL.short(full), t.get("ln")))
                        continue
                    if byte_measure(full, _types(t)):
                        continue
                    st.extend(t["args"])
                else:
                    rv = dd[3]["rv"]
                    for key in ("op", "a", "b"):
                        if isinstance(rv.get(key), dict):
                            st.append(rv[key])
                    if "place" in rv:
                        st.append({"cp": rv["place"]})
                    st.extend(rv.get("ops", []) or [])
        # a captured variable: what the enclosing function put into it
        if f.kind == "Closure" and 1 in seen:
            for o2 in self._captures(f):
                parent, pop = o2
                if parent.path not in seen_fns:
                    out.extend(self.feeds(parent, pop, seen_fns + (f.path,)))
        return out

    def _captures(self, cf):
        """(enclosing function, operand) for every value captured by closure cf"""
        F = self.F
        parent_path = cf.path.rsplit("::{closure", 1)[0]
        pf = F.fns.get(parent_path)
        if pf is None or not pf.blocks:
            return []
        out = []
        for b, i, s in pf.stmts():
            rv = s.get("rv") or {}
            if rv.get("k") == "agg" and rv.get("agg") == "closure" and rv.get("closure") == cf.path:
                for o in rv.get("ops", []) or []:
                    out.append((pf, o))
        return out

    def _fix(self):
        F = self.F
        cands = []
        for p, f in F.fns.items():
            if not p.startswith(WORKSPACE) or not f.blocks or f.kind == "Closure":
                continue
            rt = str(f.local_ty(0) or "")
            if _INT_RET.match(rt.replace("std::", "").strip()) or "TextSize" in rt or rt in ("usize", "u32"):
                cands.append(f)
        changed = True
        rounds = 0
        while changed and rounds < 6:
            changed = False
            rounds += 1
            for f in cands:
                if f.path in self.measures:
                    continue
                got = self.feeds(f, {"cp": {"l": 0, "p": []}})
                if got:
                    self.measures[f.path] = got[0][0]
                    changed = True

    def count_sinks(self, crate):
        return sum(1 for p, f in self.F.fns.items() if p.startswith((crate + "::", "<" + crate + "::")) and f.blocks
                   for _b, t in f.calls() if byte_sink_args(t))

    def positive_controls(self):
        """byte sinks whose closure reaches a call that answers in bytes (the traversal works: it gets from a sink to a measure)"""
        n = 0
        for p, f in self.F.fns.items():
            if not p.startswith(WORKSPACE) or not f.blocks:
                continue
            for _b, t in f.calls():
                idx = byte_sink_args(t)
                if idx and any(self.reaches_byte_measure(f, t["args"][i]) for i in idx if i < len(t["args"])):
                    n += 1
        return n

    def reaches_byte_measure(self, f, op):
        d = self.defs(f)
        seen, st = set(), [op]
        while st and len(seen) < 600:
            o = st.pop()
            pl = op_place(o) if isinstance(o, dict) else None
            if pl is None or pl["l"] in seen:
                continue
            seen.add(pl["l"])
            for dd in d.defs.get(pl["l"], []):
                if dd[2] == "call":
                    if byte_measure(_full(dd[3]), _types(dd[3])):
                        return True
                    st.extend(dd[3]["args"])
                else:
                    rv = dd[3]["rv"]
                    for key in ("op", "a", "b"):
                        if isinstance(rv.get(key), dict):
                            st.append(rv[key])
                    if "place" in rv:
                        st.append({"cp": rv["place"]})
                    st.extend(rv.get("ops", []) or [])
        return False

    def sinks_fed_by_nonbyte_measures(self):
        """(function, line, sink callee, [(unit, source callee, line)]) over the workspace; n_sinks = byte sinks looked at"""
        F = self.F
        bad, n = [], 0
        for p, f in sorted(F.fns.items()):
            if not p.startswith(WORKSPACE) or not f.blocks:
                continue
            for b, t in f.calls():
                idx = byte_sink_args(t)
                if not idx:
                    continue
                n += 1
                got = []
                for i in idx:
                    if i < len(t["args"]):
                        got.extend(self.feeds(f, t["args"][i]))
                if got:
                    bad.append((f, t.get("ln"), FL.short(_full(t)), sorted(set(got), key=str)))
        return bad, n
