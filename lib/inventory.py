"""Lookup of reviewed entries for the verifier-style inventories (C02/P6, C10/Q1, C15/M1), tolerant to code motion.

A reviewed entry is keyed by <function path>/<kind>/<detail>/<ordinal>. Extracting a helper moves a reviewed site into a
new function: its key changes although nothing about the site did. `moved()` recognises that case: the new site has
no entry, a direct caller (or lexical parent) of its function has an ORPHANED entry of the same kind/detail (an entry
whose site no longer exists there), and every condition recorded for that entry still holds at the new place — either
inside the helper or at each call of the helper in the old function. A weakened guard is therefore still reported."""
import re

from . import flow as FL
from . import panics as PN

_CLOS = re.compile(r"(::\{closure#\d+\})+$")
_ALLCLOS = re.compile(r"(::\{closure#\d+\})+$")


_PASS = ("Deref::deref", "DerefMut::deref_mut", "Index::index", "IndexMut::index_mut", "Borrow::borrow", "AsRef::as_ref",
         "Clone::clone", "Into::into", "From::from", "size::from")


def skeleton(guard):
    """a recorded condition reduced to (the function whose outcome is tested, the functions applied inside its arguments, the
    outcome required): argument names differ between a function and a helper its code was moved into (`del_range.0` vs the
    parameter `del_range`), and a local is spelled as its definition when it has exactly one"""
    cond, _, allowed = guard.rpartition(" in ")
    if not cond:
        cond, _, allowed = guard.rpartition("==")
    names = re.findall(r"[A-Za-z_][\w:<>]*(?=\()", cond)
    names = [n for n in names if not any(n.endswith(p_) for p_ in _PASS)]
    # `x?` continues exactly when x is Some / Ok: the outcome of a `?` and of an `if let Some(..)` / `match` on the same call agree
    allowed = allowed.strip().replace("['Continue']", "['+']").replace("['Some']", "['+']").replace("['Ok']", "['+']") \
        .replace("['Break']", "['-']").replace("['None']", "['-']").replace("['Err']", "['-']")
    if not names:
        # a bare variable (a bool parameter such as `is_pipe`): two different ones must not stand for each other
        bare = re.findall(r"[A-Za-z_]\w*", cond)
        return ("var:" + (bare[0] if bare else ""), frozenset(), allowed)
    return (names[0], frozenset(names[1:]), allowed)


def _sk_subsumed(need, have):
    """every needed condition has a current one with the same tested function and outcome whose arguments apply at least
    the functions recorded (a current spelling may expand a local into its definition, never the other way round)"""
    # literal matches first; what is left is matched by skeleton, one current condition per needed one (two recorded bounds
    # `Lt(from,len)` and `Lt(to,len)` are not both satisfied by one current `Lt(from,len)`)
    need, have = set(need), set(have)
    left_have = [skeleton(g) for g in sorted(have - need)] + [skeleton(g) for g in sorted(have & need)]
    used = [False] * len(left_have)
    lit = len(have - need)
    for i in range(lit, len(left_have)):
        used[i] = True                      # consumed by their literal partners
    for g in sorted(need - have):
        h0, inner, al = skeleton(g)
        hit = None
        for i, x in enumerate(left_have):
            if not used[i] and h0 == x[0] and al == x[2] and inner <= x[1]:
                hit = i
                break
        if hit is None:
            return False
        used[hit] = True
    return True


_NEG = {"Ge": "Lt", "Gt": "Le", "Le": "Gt", "Lt": "Ge", "Eq": "Ne", "Ne": "Eq"}


def _canon(g):
    """one spelling per comparison: `Ge(a,b)==[False]` is `Lt(a,b)==[True]` (an if / else with the branches swapped)"""
    m = re.match(r"^(Ge|Gt|Le|Lt|Eq|Ne)\((.*)\)==\[False\]$", g)
    if m:
        return "%s(%s)==[True]" % (_NEG[m.group(1)], m.group(2))
    return g


def _fn_names(f):
    return {v.get("name") for v in (f.d.get("debug") or []) if v.get("name")}


def guards_hold(recorded, current, names=None):
    """every recorded condition is still among the current ones — literally, or after dropping the spelling of
    arguments (a renamed loop variable changes `Lt(i,len)` into `Lt(idx,len)`)"""
    need, have = {_canon(g) for g in recorded}, {_canon(g) for g in current}
    # "an iteration before this point has run to its end" (`next()` answered None) constrains no value the site uses: a loop
    # turned into an iterator adaptor (`for_each`, `collect`) has no such edge any more
    need = {g for g in need if not re.match(r"^Iterator::next\(.*\) in \['None'\]$", g)}
    if need <= have or _sk_subsumed(need, have):
        return True
    if names is not None:
        # a renamed local: a recorded bare-variable condition whose variable the function no longer has is matched by a current
        # bare-variable condition with the same outcome on a variable the recorded conditions do not know
        bare = re.compile(r"^([A-Za-z_]\w*) in (\[.*\])$")
        rec_vars = {m.group(1) for m in (bare.match(g) for g in need) if m}
        gone = [g for g in need - have if bare.match(g) and bare.match(g).group(1) not in names]
        if gone and len(gone) == len([g for g in need - have if bare.match(g)]):
            new_ = [g for g in have - need if bare.match(g) and bare.match(g).group(1) not in rec_vars]
            n2, h2 = set(need), set(have)
            for g in gone:
                out_ = bare.match(g).group(2)
                cand = [x for x in new_ if bare.match(x).group(2) == out_]
                if len(cand) != 1:
                    return False
                n2.discard(g)
                h2.discard(cand[0])
                new_.remove(cand[0])
            return n2 <= h2 or _sk_subsumed(n2, h2)
    return False


class Inventory:
    def __init__(self, F, table, prefix, discharged=None):
        self.F, self.table, self.prefix = F, table, prefix
        # discharged(f, bb, kind, detail, defs) -> truthy for a site a mechanical rule settles: such a site needs no entry and
        # must not keep one from the reviewed site that was renumbered when it appeared
        self.discharged = discharged
        self._cur = {}
        self._callers = None
        self.used = set()

    def current_keys(self, path):
        if path not in self._cur:
            f = self.F.fns.get(path)
            self._cur[path] = {k for _b, _kind, _det, _ln, k, _e in PN.sites_in(f)} if f is not None and f.blocks else set()
        return self._cur[path]

    def callers(self, path):
        if self._callers is None:
            cs = {}
            for p, f in self.F.fns.items():
                if not f.blocks:
                    continue
                for b, t in f.calls():
                    for tg in self.F.call_targets(f, t):
                        cs.setdefault(tg, set()).add((p, b))
            self._callers = cs
        out = set(self._callers.get(path, ()))
        parent = _CLOS.sub("", path)
        if parent != path:
            out.add((parent, None))
        # nested fn items: a::b::c where a::b is a function
        up = path.rsplit("::", 1)[0]
        if up in self.F.fns and self.F.fns[up].blocks:
            out.add((up, None))
        return out

    def _claimed(self, f):
        """entries of f that some current site of f matches exactly (key and conditions)"""
        key = ("claimed", f.path)
        if key not in self._cur:
            out = set()
            d = FL.Defs(f)
            for b, _kind, _det, _ln, k, _e in PN.sites_in(f):
                if self.discharged is not None and self.discharged(f, b, _kind, _det, d):
                    continue
                full = self.prefix + f.path + "/" + k
                ent = self.table.get(full)
                if isinstance(ent, dict) and guards_hold(ent.get("guards", []), FL.guard_signature(self.F, f, b, d), _fn_names(f)):
                    out.add(full)
            self._cur[key] = out
        return self._cur[key]

    def renumbered(self, f, kind_detail, guards):
        """an entry of the same function and kind whose ordinal no longer fits (a site was added or removed before it):
        one that no current site claims exactly and whose recorded conditions hold here"""
        base = self.prefix + f.path + "/" + kind_detail + "/"
        claimed = self._claimed(f)
        for k in sorted(self.table):
            if k.startswith(base) and k not in claimed and k not in self.used and isinstance(self.table[k], dict):
                if guards_hold(self.table[k].get("guards", []), guards, _fn_names(f)) and self.table[k].get("guards"):
                    self.used.add(k)
                    return self.table[k]
        return None

    def moved(self, f, b, kind_detail, guards):
        """(entry, where it was reviewed) for a site that moved here from a caller, or (None, None)"""
        by_caller = {}
        for cp, cb in self.callers(f.path):
            by_caller.setdefault(cp, []).append(cb)
        # code may also move between a function and its own closures (an iterator chain rewritten as a loop)
        by_caller.setdefault(_ALLCLOS.sub("", f.path), []).append(None)
        # one more level: the helper's own closures / a helper called from a helper
        for cp in list(by_caller):
            for cp2, cb2 in self.callers(cp):
                if cp2 not in by_caller and cp2 != f.path:
                    by_caller.setdefault(cp2, []).append(None)
        # several sites of one caller (the two arms that pushed an entry) moved into one helper that is called from each of the
        # old places: every call site has to satisfy the conditions of one of the orphaned entries
        for cp, sites in sorted(by_caller.items()):
            root = _ALLCLOS.sub("", cp)
            cf = self.F.fns.get(cp)
            real = [cb for cb in sites if cb is not None]
            if cf is None or len(real) < 2:
                continue
            orphans = []
            for k in sorted(self.table):
                if not isinstance(self.table[k], dict) or k in self.used or not k.startswith(self.prefix + root):
                    continue
                m = re.match(re.escape(self.prefix) + r"(" + re.escape(root) + r"(?:::\{closure#\d+\})*)/" + re.escape(kind_detail) + r"/\d+$", k)
                if m and k[len(self.prefix) + len(m.group(1)) + 1:] not in self.current_keys(m.group(1)):
                    orphans.append(k)
            if len(orphans) < 2:
                continue
            matched = []
            for cb in real:
                have = set(guards) | set(FL.guard_signature(self.F, cf, cb))
                hit = [k for k in orphans if set(self.table[k].get("guards", [])) <= have or _sk_subsumed(set(self.table[k].get("guards", [])), have)]
                if not hit:
                    matched = None
                    break
                matched.append(hit[0])
            if matched:
                for k in set(matched):
                    self.used.add(k)
                return self.table[matched[0]], cp
        for cp, sites in sorted(by_caller.items()):
            root = _ALLCLOS.sub("", cp)
            for k in sorted(self.table):
                if not isinstance(self.table[k], dict) or k in self.used or not k.startswith(self.prefix + root):
                    continue
                # the entry's function: the caller itself or one of its closures
                m = re.match(re.escape(self.prefix) + r"(" + re.escape(root) + r"(?:::\{closure#\d+\})*)/" + re.escape(kind_detail) + r"/\d+$", k)
                if not m:
                    continue
                owner = m.group(1)
                if k[len(self.prefix) + len(owner) + 1:] in self.current_keys(owner):
                    continue          # that site still exists where it was reviewed: not an orphan
                ent = self.table[k]
                need = set(ent.get("guards", []))
                have = set(guards)
                cf = self.F.fns.get(cp)
                call_sets = []
                for cb in sites:
                    if cb is not None and cf is not None:
                        call_sets.append(set(FL.guard_signature(self.F, cf, cb)))
                if call_sets:
                    have |= set.intersection(*call_sets)
                if need <= have or _sk_subsumed(need, have):
                    self.used.add(k)
                    return ent, cp
        # the other direction: a helper was inlined into this function. Entries of a function that no longer exists and
        # that this function used to call (per the fingerprints of the reviewed tree)
        import json as _json, os as _os
        if not hasattr(self, "_fp"):
            fpp = _os.path.join(_os.path.dirname(_os.path.dirname(_os.path.abspath(__file__))), "rules", "fingerprints.json")
            try:
                with open(fpp) as fh:
                    self._fp = _json.load(fh)
            except Exception:  # noqa
                self._fp = {}
        root = _ALLCLOS.sub("", f.path)
        old_callees = set((self._fp.get(root) or {}).get("callees", []))
        for k in sorted(self.table):
            if not isinstance(self.table[k], dict) or k in self.used or not k.startswith(self.prefix):
                continue
            m = re.match(re.escape(self.prefix) + r"(.+?)/" + re.escape(kind_detail) + r"/\d+$", k)
            if not m:
                continue
            owner = _ALLCLOS.sub("", m.group(1))
            if owner in self.F.fns or owner == root:
                continue
            if "::".join(owner.split("::")[-2:]) not in old_callees:
                continue
            need = set(self.table[k].get("guards", []))
            if need <= set(guards) or _sk_subsumed(need, set(guards)):
                self.used.add(k)
                return self.table[k], owner
        return None, None
