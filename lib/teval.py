"""Engine T: exact evaluation of small pure MIR functions on concrete values.

Value domain (hashable):
  int                         integers and bools (0/1)
  ('e', adt, variant)         value of a field-less enum
  ('a', tag, variant, fields) aggregate: tag = adt path | 'tuple' | 'array'
  ('rv', value)               shared reference to an (immutable snapshot of a) value
  ('u',)                      unknown
This is constant folding of total helper functions over a finite enum domain (the static reading
of "which arm does kind k take"), not execution of the system under test on inputs.
"""
from .facts import callee, callee_def, op_place

U = ("u",)
INT_BITS = {"u8": 8, "u16": 16, "u32": 32, "u64": 64, "u128": 128, "usize": 64,
            "i8": 8, "i16": 16, "i32": 32, "i64": 64, "i128": 128, "isize": 64, "bool": 1}


class Unsupported(Exception):
    pass


class EvalPanic(Exception):
    pass


def mask(ty, v):
    b = INT_BITS.get(ty)
    if b is None or not isinstance(v, int):
        return v
    return v & ((1 << b) - 1)


class Pure:
    def __init__(self, F):
        self.F = F
        self.memo = {}
        self.steps = 0

    # ---- constants
    def const(self, c):
        ty = c["ty"]
        if "variant" in c:
            return ("e", ty, c["variant"])
        if "bits" in c:
            bits = int(c["bits"])
            if ty in INT_BITS or ty == "char":
                return bits
            a = self.F.adts.get(ty)
            if a and a["kind"] == "struct" and len(a["variants"][0]["fields"]) == 1:
                return ("a", ty, a["variants"][0]["name"], (bits,))
            return bits
        if "zst" in c:
            return ("a", "tuple", None, ())
        if "str" in c:
            return ("s", c["str"])
        return U

    def discr(self, v):
        if isinstance(v, tuple) and v[0] == "e":
            a = self.F.adts.get(v[1])
            if a:
                for x in a["variants"]:
                    if x["name"] == v[2]:
                        return int(x["discr"])
        if isinstance(v, tuple) and v[0] == "a":
            base = v[1].split("<")[0]
            short = base.rsplit("::", 1)[-1]
            std = {"Option": {"None": 0, "Some": 1}, "Result": {"Ok": 0, "Err": 1},
                   "Ordering": {"Less": 255, "Equal": 0, "Greater": 1}}     # i8 discriminants as the switch prints them
            if short in std and v[2] in std[short]:
                return std[short][v[2]]
            a = self.F.adts.get(base)
            if a and a["kind"] == "enum":
                for x in a["variants"]:
                    if x["name"] == v[2]:
                        return int(x["discr"])
        return U

    # ---- places
    def proj(self, v, projs, env):
        for e in projs:
            if v == U:
                return U
            if e == "*":
                if isinstance(v, tuple) and v[0] == "rv":
                    v = v[1]
                else:
                    return U
            elif "f" in e:
                if isinstance(v, tuple) and v[0] == "a" and e["f"] < len(v[3]):
                    v = v[3][e["f"]]
                else:
                    return U
            elif "dc" in e:
                pass
            elif "i" in e:
                idx = env.get(e["i"], U)
                if isinstance(v, tuple) and v[0] == "a" and isinstance(idx, int) and idx < len(v[3]):
                    v = v[3][idx]
                else:
                    return U
            else:
                return U
        return v

    def read(self, place, env):
        return self.proj(env.get(place["l"], U), place["p"], env)

    def operand(self, op, env, fn):
        if "k" in op:
            c = op["k"]
            if "promoted" in c:
                return self.promoted(fn, c["promoted"])
            return self.const(c)
        return self.read(op_place(op), env)

    def promoted(self, fn, n):
        key = ("prom", fn.path, n)
        if key not in self.memo:
            self.memo[key] = self.run_body(fn, fn.d["promoted"][n]["blocks"],
                                           fn.d["promoted"][n]["locals"], {})
        return self.memo[key]

    # ---- rvalues
    def binop(self, op, a, b, ty):
        if not isinstance(a, int) or not isinstance(b, int):
            if op in ("Eq", "Ne") and a != U and b != U:
                return int((a == b) == (op == "Eq"))
            return U
        if op in ("Add", "AddUnchecked"):
            return mask(ty, a + b)
        if op in ("Sub", "SubUnchecked"):
            return mask(ty, a - b)
        if op in ("Mul", "MulUnchecked"):
            return mask(ty, a * b)
        if op == "BitAnd":
            return a & b
        if op == "BitOr":
            return a | b
        if op == "BitXor":
            return a ^ b
        if op in ("Shl", "ShlUnchecked"):
            return mask(ty, a << b)
        if op in ("Shr", "ShrUnchecked"):
            return a >> b
        if op == "Eq":
            return int(a == b)
        if op == "Ne":
            return int(a != b)
        if op == "Lt":
            return int(a < b)
        if op == "Le":
            return int(a <= b)
        if op == "Gt":
            return int(a > b)
        if op == "Ge":
            return int(a >= b)
        if op in ("AddWithOverflow", "SubWithOverflow", "MulWithOverflow"):
            # ty is the tuple type "(T, bool)"
            t = ty.strip("()").split(",")[0].strip()
            r = {"A": a + b, "S": a - b, "M": a * b}[op[0]]
            m = mask(t, r)
            return ("a", "tuple", None, (m, int(m != r or r < 0)))
        raise Unsupported("binop " + op)

    def rvalue(self, rv, env, fn, dest_ty):
        k = rv["k"]
        if k == "use":
            return self.operand(rv["op"], env, fn)
        if k == "ref" or k == "rawptr":
            p = rv["place"]
            # reborrow `&(*x)` keeps the reference; `&x` snapshots the value
            if p["p"] and p["p"][0] == "*" and len(p["p"]) == 1:
                return env.get(p["l"], U)
            return ("rv", self.read(p, env))
        if k == "cast":
            v = self.operand(rv["op"], env, fn)
            if isinstance(v, tuple) and v[0] == "e":
                v = self.discr(v)
            if isinstance(v, int):
                return mask(rv["ty"], v)
            if rv["ck"].startswith("PointerCoercion") or rv["ck"] == "Transmute":
                return v
            return U
        if k == "bin":
            return self.binop(rv["op"], self.operand(rv["a"], env, fn), self.operand(rv["b"], env, fn), dest_ty)
        if k == "un":
            v = self.operand(rv["a"], env, fn)
            if rv["op"] == "Not":
                if not isinstance(v, int):
                    return U
                return (1 - v) if dest_ty == "bool" else mask(dest_ty, ~v)
            if rv["op"] == "PtrMetadata":
                if isinstance(v, tuple) and v[0] == "rv" and isinstance(v[1], tuple) and v[1][0] == "a":
                    return len(v[1][3])
                return U
            if rv["op"] == "Neg" and isinstance(v, int):
                return mask(dest_ty, -v)
            return U
        if k == "discr":
            return self.discr(self.read(rv["place"], env))
        if k == "agg":
            ops = tuple(self.operand(o, env, fn) for o in rv["ops"])
            if rv["agg"] == "adt":
                a = self.F.adts.get(rv["adt"])
                if a and a["kind"] == "enum" and not ops and all(not v["fields"] for v in a["variants"]):
                    return ("e", rv["adt"], rv["variant"])
                return ("a", rv["adt"], rv["variant"], ops)
            if rv["agg"] in ("tuple", "array"):
                return ("a", rv["agg"], None, ops)
            return U
        if k == "repeat":
            return U
        return U

    # ---- builtin models of library functions
    def builtin(self, name, args):
        if name.endswith("]>::len") or name.endswith("[T]::len"):
            v = args[0]
            if isinstance(v, tuple) and v[0] == "rv" and isinstance(v[1], tuple) and v[1][0] == "a":
                return len(v[1][3])
            return U
        if "RangeInclusive" in name and name.endswith("::new"):
            return ("a", "RangeInclusive", None, (args[0], args[1]))
        if "RangeInclusive" in name and name.endswith("::contains"):
            r, x = args[0], args[1]
            if r[0] == "rv":
                r = r[1]
            if x[0:1] == ("rv",):
                x = x[1]
            if r[0] == "a" and all(isinstance(q, int) for q in (r[3][0], r[3][1], x)):
                return int(r[3][0] <= x <= r[3][1])
            return U
        if "ops::range::Range::<" in name and name.endswith("::contains"):
            # a half-open range built as an aggregate `a..b`
            r, x = args[0], args[1]
            while isinstance(r, tuple) and r[0] == "rv":
                r = r[1]
            while isinstance(x, tuple) and x[0] == "rv":
                x = x[1]
            if isinstance(r, tuple) and r[0] == "a" and len(r[3]) == 2 and all(isinstance(q, int) for q in (r[3][0], r[3][1], x)):
                return int(r[3][0] <= x < r[3][1])
            return U
        if name.endswith("PartialEq>::eq") or name.endswith("PartialEq::eq") or \
                name.endswith("PartialEq>::ne") or name.endswith("PartialEq::ne"):
            a, b = args[0], args[1]
            while isinstance(a, tuple) and a[0] == "rv":
                a = a[1]
            while isinstance(b, tuple) and b[0] == "rv":
                b = b[1]
            if a == U or b == U or has_unknown(a) or has_unknown(b):
                return U
            return int((a == b) == name.endswith("eq"))
        if name.endswith("::cmp") and ("core::cmp::Ord" in name or "impl core::cmp::Ord for" in name):
            a, b = args[0], args[1]
            while isinstance(a, tuple) and a[0] == "rv":
                a = a[1]
            while isinstance(b, tuple) and b[0] == "rv":
                b = b[1]
            if isinstance(a, int) and isinstance(b, int) and not isinstance(a, bool):
                return ("a", "core::cmp::Ordering", "Less" if a < b else ("Equal" if a == b else "Greater"), ())
            return U
        if name.endswith("Option::<T>::is_some") or name.endswith("Option::<T>::is_none"):
            a = args[0]
            while isinstance(a, tuple) and a[0] == "rv":
                a = a[1]
            if isinstance(a, tuple) and a[0] == "a":
                return int((a[2] == "Some") == name.endswith("is_some"))
            return U
        return None

    # ---- function evaluation
    def call(self, path, args):
        key = (path, tuple(args))
        if key in self.memo:
            return self.memo[key]
        fn = self.F.fns.get(path)
        if fn is None or not fn.blocks:
            raise Unsupported("no MIR for " + path)
        env = {i + 1: a for i, a in enumerate(args)}
        r = self.run_body(fn, fn.blocks, fn.d["locals"], env)
        self.memo[key] = r
        return r

    def run_body(self, fn, blocks, locals_, env):
        bb = 0
        while True:
            self.steps += 1
            if self.steps > 5_000_000:
                raise Unsupported("step limit")
            blk = blocks[bb]
            for s in blk["stmts"]:
                if s["k"] == "assign":
                    pl = s["place"]
                    v = self.rvalue(s["rv"], env, fn, locals_[pl["l"]]["ty"] if not pl["p"] else "")
                    if pl["p"]:
                        raise Unsupported("projected write")
                    env[pl["l"]] = v
            t = blk["term"]
            k = t["k"]
            if k == "goto":
                bb = t["target"]
            elif k == "return":
                return env.get(0, ("a", "tuple", None, ()))
            elif k == "switch":
                v = self.operand(t["op"], env, fn)
                if not isinstance(v, int):
                    raise Unsupported("switch on unknown")
                nxt = t["otherwise"]
                for val, tgt in t["targets"]:
                    if val == v:
                        nxt = tgt
                bb = nxt
            elif k == "assert":
                v = self.operand(t["cond"], env, fn)
                if not isinstance(v, int):
                    raise Unsupported("assert on unknown")
                if bool(v) != t["expected"]:
                    raise EvalPanic("%s at %s" % (t["msg"], fn.loc(t["ln"])))
                bb = t["target"]
            elif k == "drop":
                bb = t["target"]
            elif k == "call":
                args = [self.operand(a, env, fn) for a in t["args"]]
                name = callee(t) or ""
                d = callee_def(t) or ""
                r = self.builtin(name, args)
                if r is None and d != name:
                    r = self.builtin(d, args)
                if r is None:
                    if name in self.F.fns and self.F.fns[name].blocks:
                        r = self.call(name, args)
                    else:
                        raise Unsupported("call " + (name or d))
                if t["target"] is None:
                    raise EvalPanic("diverging call %s at %s" % (name, fn.loc(t["ln"])))
                if t["dest"]["p"]:
                    raise Unsupported("projected call dest")
                env[t["dest"]["l"]] = r
                bb = t["target"]
            elif k == "unreachable":
                raise EvalPanic("unreachable reached in " + fn.path)
            else:
                raise Unsupported("terminator " + k)


def has_unknown(v):
    if v == U:
        return True
    if isinstance(v, tuple):
        return any(has_unknown(x) for x in v[1:] if isinstance(x, tuple))
    return False
