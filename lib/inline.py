"""A view of a function with calls to helper functions of the same crate inlined (MIR-level, on the extracted JSON).

Used as a FALLBACK by rules that look for a call or a data flow "in function f": a maintainer may move that code into a
helper that f calls. The inlined view keeps the original call terminator (as a marker whose destination is a scratch
local) and continues into a renamed copy of the callee's body; every `return` of the copy assigns the real destination
and jumps to the call's real target. So both the call to the helper and what the helper does are visible in one CFG."""
import copy

from .facts import Fn, callee


def _remap_place(pl, off_l):
    pl = dict(pl)
    pl["l"] = pl["l"] + off_l
    pr = []
    for e in pl.get("p", []):
        if isinstance(e, dict) and "i" in e and isinstance(e["i"], int):
            e = dict(e, i=e["i"] + off_l)        # Index(local)
        pr.append(e)
    pl["p"] = pr
    return pl


def _remap_op(op, off_l, off_p):
    if not isinstance(op, dict):
        return op
    if "cp" in op:
        return {"cp": _remap_place(op["cp"], off_l)}
    if "mv" in op:
        return {"mv": _remap_place(op["mv"], off_l)}
    if "k" in op and isinstance(op["k"], dict) and "promoted" in op["k"]:
        k = dict(op["k"])
        k["promoted"] = k["promoted"] + off_p
        return {"k": k}
    return op


def _remap_rv(rv, off_l, off_p):
    rv = dict(rv)
    for key in ("op", "a", "b"):
        if isinstance(rv.get(key), dict):
            rv[key] = _remap_op(rv[key], off_l, off_p)
    if "ops" in rv and rv["ops"] is not None:
        rv["ops"] = [_remap_op(o, off_l, off_p) for o in rv["ops"]]
    if isinstance(rv.get("place"), dict):
        rv["place"] = _remap_place(rv["place"], off_l)
    return rv


def inlined(F, fn, want=None, depth=2, max_blocks=4000):
    """Fn view of `fn` with calls to same-crate, non-recursive functions (for which want(path) holds; default: every
    function of the same crate that has a body and is not fn itself) inlined up to `depth` levels."""
    crate = fn.path.lstrip("<").split("::", 1)[0]

    def default_want(p):
        return p.lstrip("<").split("::", 1)[0] == crate
    want = want or default_want
    d = copy.deepcopy(fn.d)
    blocks, locs = d["blocks"], d["locals"]
    d.setdefault("promoted", [])
    d.setdefault("debug", [])
    todo = [(i, 0, (fn.path,)) for i in range(len(blocks))]
    while todo:
        bi, lvl, stack = todo.pop()
        blk = blocks[bi]
        t = blk["term"]
        if t["k"] != "call" or lvl >= depth or blk.get("cleanup") or len(blocks) > max_blocks:
            continue
        g = F.fns.get(callee(t) or "")
        if g is None or not g.blocks or g.path in stack or not want(g.path) or t.get("target") is None:
            continue
        off_l, off_b, off_p = len(locs), len(blocks), len(d["promoted"])
        locs.extend(copy.deepcopy(g.d["locals"]))
        d["promoted"].extend(copy.deepcopy(g.d.get("promoted", [])))
        for v in g.d.get("debug", []):
            if isinstance(v.get("place"), dict) and "l" in v["place"]:
                d["debug"].append({"name": v["name"], "place": _remap_place(v["place"], off_l)})
        real_dest, real_target = t["dest"], t["target"]
        for gb in g.d["blocks"]:
            nb = {"stmts": [], "cleanup": gb.get("cleanup", False)}
            for s in gb["stmts"]:
                s2 = dict(s)
                if "l" in s2 and isinstance(s2["l"], int):
                    s2["l"] = s2["l"] + off_l
                if isinstance(s2.get("place"), dict):
                    s2["place"] = _remap_place(s2["place"], off_l)
                if isinstance(s2.get("rv"), dict):
                    s2["rv"] = _remap_rv(s2["rv"], off_l, off_p)
                nb["stmts"].append(s2)
            gt = copy.deepcopy(gb["term"])
            k = gt["k"]
            if k == "return":
                nb["stmts"].append({"k": "assign", "place": real_dest, "rv": {"k": "use", "op": {"mv": {"l": off_l, "p": []}}},
                                    "ln": t.get("ln"), "exp": False})
                gt = {"k": "goto", "target": real_target, "ln": t.get("ln")}
            else:
                for key in ("target", "unwind", "otherwise"):
                    if isinstance(gt.get(key), int):
                        gt[key] = gt[key] + off_b
                if k == "switch":
                    gt["targets"] = [[v, tg + off_b] for v, tg in gt["targets"]]
                    gt["op"] = _remap_op(gt["op"], off_l, off_p)
                if k == "call":
                    gt["args"] = [_remap_op(a, off_l, off_p) for a in gt["args"]]
                    gt["dest"] = _remap_place(gt["dest"], off_l)
                if k == "assert":
                    gt["cond"] = _remap_op(gt["cond"], off_l, off_p)
                if k == "drop" and isinstance(gt.get("place"), dict):
                    gt["place"] = _remap_place(gt["place"], off_l)
            nb["term"] = gt
            blocks.append(nb)
        # parameters := arguments, at the entry of the copy
        entry = blocks[off_b]
        binds = []
        for i, a in enumerate(t["args"]):
            binds.append({"k": "assign", "place": {"l": off_l + 1 + i, "p": []}, "rv": {"k": "use", "op": a}, "ln": t.get("ln"), "exp": False})
        entry["stmts"] = binds + entry["stmts"]
        # the call stays as a marker: scratch destination, continues into the copy
        locs.append({"ty": "()"})
        t2 = dict(t)
        t2["dest"] = {"l": len(locs) - 1, "p": []}
        t2["target"] = off_b
        t2["inlined"] = g.path
        blk["term"] = t2
        for j in range(off_b, len(blocks)):
            todo.append((j, lvl + 1, stack + (g.path,)))
    d["inlined_view"] = True
    return Fn(d, fn.unit)
