"""Obligations, verdicts, evidence and known-findings plumbing."""
import json
import re
import os
import time

from . import extract as X

VERIF = X.VERIF
KNOWN_FILE = os.path.join(VERIF, "known_findings.json")
REVIEWED_FILE = os.path.join(VERIF, "rules", "reviewed.json")


class Ob:
    """One rule instance. status: discharged | reviewed | failed"""
    __slots__ = ("rule", "key", "desc", "status", "how", "where", "detail", "nontrivial")

    def __init__(self, rule, key, desc, ok, how="", where="", detail=None, nontrivial=True,
                 reviewed=False):
        self.rule = rule
        self.key = key
        self.desc = desc
        self.status = ("reviewed" if reviewed else "discharged") if ok else "failed"
        self.how = how
        self.where = where
        self.detail = detail or {}
        self.nontrivial = nontrivial

    def full_key(self):
        return "%s/%s" % (self.rule, self.key)

    def as_json(self):
        return {"rule": self.rule, "key": self.key, "obligation": self.desc,
                "verdict": self.status, "by": self.how, "at": self.where, "detail": self.detail}


class Result:
    def __init__(self, pid):
        self.pid = pid
        self.obs = []
        self.notes = []
        self.analysed = {}
        self.floors = []

    def ob(self, rule, key, desc, ok, **kw):
        o = Ob(rule, key, desc, bool(ok), **kw)
        self.obs.append(o)
        return o

    def floor(self, what, measured, minimum):
        """A rule that matches far fewer sites than were confirmed by hand fails closed. `minimum` is the number
        counted by reading; the alarm threshold is three quarters of it (rounded up): the floor guards against a
        rule going vacuous (renamed callee, changed MIR shape), not against the code getting simpler — merging two
        identical match arms or deleting a redundant assertion legitimately removes instances."""
        threshold = max(1, -(-minimum * 3 // 4))
        self.floors.append({"what": what, "measured": measured, "floor": minimum, "alarm_below": threshold})
        self.ob("floor", what, "instance count for '%s' has not collapsed (confirmed by reading: %d; alarm below %d)"
                % (what, minimum, threshold), measured >= threshold, how="counted %d" % measured,
                nontrivial=False)

    def anchor_missing(self, rule, name):
        self.ob(rule, "anchor-missing:" + name,
                "anchor %s exists (a rule without its anchor would pass vacuously)" % name,
                False, how="not found in the extracted facts")

    def note(self, s):
        self.notes.append(s)


def load_known():
    if not os.path.exists(KNOWN_FILE):
        return {"findings": [], "fixed": []}
    with open(KNOWN_FILE) as fh:
        return json.load(fh)


def load_reviewed():
    if not os.path.exists(REVIEWED_FILE):
        return {}
    with open(REVIEWED_FILE) as fh:
        d = json.load(fh)
    return d


def finish(res, meta, tier, seed, t0, facts_info, out=print):
    """Write evidence, print KNOWN-FINDING / VIOLATION lines, return exit code."""
    pid = res.pid
    known = {(k["property"], k["key"]): k for k in load_known()["findings"]}
    failed = [o for o in res.obs if o.status == "failed"]
    kf, viol = [], []
    for o in failed:
        k = known.get((pid, o.full_key()))
        if k:
            kf.append((o, k))
        else:
            viol.append(o)
    os.makedirs(os.path.join(VERIF, "evidence"), exist_ok=True)
    os.makedirs(os.path.join(VERIF, "replay"), exist_ok=True)
    for o, k in kf:
        out("KNOWN-FINDING: property=%s %s [%s] %s" % (pid, k["what"], o.full_key(),
                                                        ("input: " + k["input"]) if k.get("input") else ""))
    exit_code = 0
    for n, o in enumerate(viol):
        rp = os.path.join(VERIF, "replay", "%s-%d.json" % (pid, n))
        with open(rp, "w") as fh:
            json.dump({"property": pid, "tier": tier, "tree": facts_info.get("hash"),
                       **o.as_json()}, fh, indent=1)
        out("VIOLATION property=%s replay=%s" % (pid, rp))
        out("  rule %s key %s" % (o.rule, o.key))
        out("  obligation: %s" % o.desc)
        out("  at: %s" % o.where)
        out("  why: %s" % o.how)
        exit_code = 1
    n_ob = len(res.obs)
    n_dis = sum(1 for o in res.obs if o.status in ("discharged", "reviewed"))
    nontrivial_keys = {o.full_key() for o in res.obs if o.nontrivial}
    samples = []
    seen_rules = set()
    for o in res.obs:
        if o.rule not in seen_rules and o.rule != "floor":
            seen_rules.add(o.rule)
            samples.append(o.as_json())
    for o in failed[:10]:
        samples.append(o.as_json())
    cov = {
        "evaluations": n_ob,
        "distinct_nontrivial": len(nontrivial_keys),
        "rule": meta.get("rule", ""),
        "samples": samples[:40],
        "obligations": n_ob,
        "discharged": n_dis,
        "reviewed_instances": sum(1 for o in res.obs if o.status == "reviewed"),
        "explanation": meta.get("explanation", ""),
        "checker_cmd": "./check %s --tier %s" % (pid, tier),
        "trusted_base": meta.get("trusted_base", []),
        "analysed": res.analysed,
        "floors": res.floors,
        "rules": sorted({o.rule for o in res.obs}),
        "per_rule": {r: {"obligations": sum(1 for o in res.obs if o.rule == r),
                         "failed": sum(1 for o in res.obs if o.rule == r and o.status == "failed")}
                     for r in sorted({o.rule for o in res.obs})},
        "known_findings_matched": [o.full_key() for o, _ in kf],
        "notes": res.notes,
        "facts": facts_info,
        "not_decided": meta.get("not_decided", ""),
    }
    level = meta.get("level", "other")
    if level == "proof" and n_dis != n_ob:
        # a proof-level claim is only made when every obligation is discharged
        level = "other"
    ev = {
        "property_id": pid,
        "tier": tier,
        "seed": seed,
        "level": level,
        "coverage": cov,
        "assumptions": meta.get("assumptions", []),
        "wall_s": round(time.time() - t0, 2),
        "violations": len(viol),
    }
    with open(os.path.join(VERIF, "evidence", pid + ".json"), "w") as fh:
        json.dump(ev, fh, indent=1)
    out("%s: %d obligations, %d discharged/reviewed, %d known findings, %d violations (%.1fs)"
        % (pid, n_ob, n_dis, len(kf), len(viol), time.time() - t0))
    return exit_code


_CLOS = re.compile(r"\{closure#\d+\}")


def lookup_reviewed(table, key, guards=None):
    """reviewed entry for an obligation key. Closure ordinals inside the key ({closure#2}) are positional: if the exact
    key is absent, an entry whose key differs only in closure ordinals and whose recorded guard signature equals the
    current one is taken (adding an unrelated closure to a function renumbers the others)."""
    rv = table.get(key)
    if "{closure#" not in key:
        return rv
    if rv is not None:
        # the closures of a function are numbered in source order: when one of them becomes a named function the
        # others move up, and closure#0 is no longer the closure the entry was written for
        from .inventory import guards_hold as _gh
        if guards is None or _gh(rv.get("guards", []), guards):
            return rv
    idx = table.get("__norm__")
    if idx is None:
        idx = {}
        for k, v in table.items():
            if isinstance(v, dict) and "{closure#" in k:
                idx.setdefault(_CLOS.sub("{closure}", k), []).append(v)
        table["__norm__"] = idx
    cands = [c for c in idx.get(_CLOS.sub("{closure}", key), []) if c is not rv]
    if guards is not None:
        from .inventory import guards_hold
        cands = [c for c in cands if guards_hold(c.get("guards", []), guards)]
    return cands[0] if cands else rv
