"""Thorough tier: checker self-validation. Every seeded change kept under /verif/seeded that a property's check
is recorded to catch is applied to a scratch copy of /repo's CURRENT working tree (outside /repo and /verif, removed
afterwards), facts are extracted from the copy, and the rules must report the recorded obligations; behaviour-
preserving variants must stay silent."""
import glob
import importlib
import json
import os
import shutil
import subprocess
import tempfile

from . import extract as X
from . import facts as FA
from . import report as R


def scratch_copy(repo):
    d = tempfile.mkdtemp(prefix="glas-selfval-")
    files = subprocess.run(["git", "-C", repo, "ls-files", "-co", "--exclude-standard"], capture_output=True, text=True,
                           check=True).stdout.split("\n")
    for f in files:
        if not f or f.startswith("target/"):
            continue
        src = os.path.join(repo, f)
        if os.path.isfile(src):
            dst = os.path.join(d, f)
            os.makedirs(os.path.dirname(dst), exist_ok=True)
            shutil.copy2(src, dst)
    subprocess.run(["git", "init", "-q"], cwd=d, check=True)
    return d


def evaluate(pid, patch, repo=X.REPO):
    """returns (applied, failed obligation keys, total) for the property's rules on repo+patch"""
    d = scratch_copy(repo)
    try:
        r = subprocess.run(["git", "apply", "--whitespace=nowarn", patch], cwd=d, capture_output=True, text=True)
        if r.returncode != 0:
            return False, [], 0
        try:
            fdir, info = X.extract(repo=d, target_dir=os.path.join(X.BUILD, "target-scratch"))
        except SystemExit:
            return None, [], 0      # does not compile
        F = FA.Facts(fdir, info)
        mod = importlib.import_module("rules." + pid.lower())
        res = R.Result(pid)
        try:
            mod.run(F, res, "quick")
        except FA.AnchorMissing as e:
            res.anchor_missing("anchor", str(e))
        known = {k["key"] for k in R.load_known()["findings"] if k["property"] == pid}
        failed = [o.full_key() for o in res.obs if o.status == "failed" and o.full_key() not in known]
        return True, failed, len(res.obs)
    finally:
        shutil.rmtree(d, ignore_errors=True)


# crates whose functions a property's rules read (a behaviour-preserving patch elsewhere cannot change their verdict)
CRATES = {"C01": {"syntax"}, "C02": {"syntax"}, "C03": {"syntax"}, "C04": {"syntax"},
          "C13": {"glas"}, "C15": {"glas", "ide"}, "C16": {"glas", "ide"}, "C19": {"glas", "ide"}}


def touched_crates(patch):
    out = set()
    with open(patch) as fh:
        for line in fh:
            if line.startswith("+++ b/crates/") or line.startswith("--- a/crates/"):
                out.add(line.split("/")[2])
    return out


def run(pid, res):
    """Replays the seeded changes that concern `pid` on scratch copies of the tree under check. Bounded by a time budget
    (VERIF_SELFVAL_BUDGET seconds, default 2400; extraction of a patched tree costs ~40 s when it is not cached): breaking
    changes first, then reverted fixes, then the behaviour-preserving variants; what was not reached is said in the evidence."""
    import time as _time
    root = os.path.join(X.VERIF, "seeded")
    budget = float(os.environ.get("VERIF_SELFVAL_BUDGET", "2400"))
    t0 = _time.time()
    todo = []
    for meta_p in sorted(glob.glob(os.path.join(root, "*", "meta.json"))):
        with open(meta_p) as fh:
            meta = json.load(fh)
        patch = os.path.join(os.path.dirname(meta_p), "patch.diff")
        name = os.path.basename(os.path.dirname(meta_p))
        expect = meta.get("caught_by", {}).get(pid)
        benign = meta.get("benign") and pid in meta.get("silent_for", [])
        if not expect and not benign:
            continue
        if benign and pid in CRATES and not (touched_crates(patch) & CRATES[pid]):
            continue
        rank = 2 if benign else (1 if name.startswith("regress-") else 0)
        todo.append((rank, name, meta, patch, expect, benign))
    todo.sort(key=lambda x: (x[0], x[1]))
    n = 0
    for rank, name, meta, patch, expect, benign in todo:
        if _time.time() - t0 > budget:
            res.note("self-validation stopped after %d of %d seeded changes (time budget %ds; set VERIF_SELFVAL_BUDGET to go on)"
                     % (n, len(todo), int(budget)))
            break
        n += 1
        applied, failed, total = evaluate(pid, patch)
        if applied is False:
            res.note("seeded change %s does not apply to the current tree: skipped" % name)
            continue
        if applied is None:
            res.note("seeded change %s does not compile on the current tree: skipped" % name)
            continue
        if benign:
            res.ob("SV", "benign/" + name, "the behaviour-preserving variant '%s' raises no alarm" % name, not failed,
                   where="seeded/%s/patch.diff" % name, how="%d obligations, failed: %s" % (total, failed[:3]))
        else:
            hit = [e for e in expect if any(k.startswith(e) for k in failed)]
            res.ob("SV", "seeded/" + name, "the seeded change '%s' (%s) is reported" % (name, meta.get("summary", "")[:120]),
                   bool(hit), where="seeded/%s/patch.diff" % name, how="reported: %s" % failed[:4] if failed else "no obligation failed")
    res.analysed["self_validation_patches"] = n
