"""Who touches which struct field, and how (engine O: who-may-write-field / who-may-call)."""
from .facts import callee, callee_def, op_place


def field_of(place, adt):
    """(index in projection, field name) of the outermost projection through a field of `adt`"""
    for i, e in enumerate(place["p"]):
        if isinstance(e, dict) and "f" in e and e.get("adt") == adt:
            return i, e.get("n", str(e["f"]))
    return None


def field_effects(fn, adt):
    """Every access to a field of `adt` in fn:
    {'field','how','callee','bb','ln'}; how in
      assign      : the field (or something inside it) is assigned
      mutborrow   : &mut field passed to `callee` (or 'escapes')
      borrow      : &field passed to `callee`
      read        : copied / moved out / compared
    """
    out = []
    reach = fn.reachable()
    # locals that hold a reference to a field: local -> (field, mut)
    refs = {}
    for b in sorted(reach):
        for s in fn.blocks[b]["stmts"]:
            if s["k"] != "assign":
                continue
            rv = s["rv"]
            if rv["k"] in ("ref", "rawptr"):
                fo = field_of(rv["place"], adt)
                if fo and not s["place"]["p"]:
                    refs[s["place"]["l"]] = (fo[1], bool(rv.get("mut")) or rv["k"] == "rawptr", b, s["ln"])
    # reborrows / moves of those refs
    changed = True
    while changed:
        changed = False
        for b in sorted(reach):
            for s in fn.blocks[b]["stmts"]:
                if s["k"] != "assign" or s["place"]["p"]:
                    continue
                rv = s["rv"]
                src = None
                if rv["k"] == "use":
                    pl = op_place(rv["op"])
                    if pl is not None and not pl["p"]:
                        src = pl["l"]
                elif rv["k"] in ("ref", "rawptr"):
                    pl = rv["place"]
                    if pl["p"] == ["*"]:
                        src = pl["l"]
                elif rv["k"] == "cast":
                    pl = op_place(rv["op"])
                    if pl is not None and not pl["p"]:
                        src = pl["l"]
                if src in refs and s["place"]["l"] not in refs:
                    f, m, _, _ = refs[src]
                    m2 = m and (rv["k"] != "ref" or rv.get("mut", False) or rv["k"] == "use")
                    refs[s["place"]["l"]] = (f, m if rv["k"] != "ref" else bool(rv.get("mut")), b, s["ln"])
                    changed = True
    used_refs = set()
    for b in sorted(reach):
        blk = fn.blocks[b]
        for s in blk["stmts"]:
            if s["k"] == "assign":
                fo = field_of(s["place"], adt)
                if fo:
                    out.append({"field": fo[1], "how": "assign", "callee": None, "bb": b, "ln": s["ln"],
                                "rv": s["rv"]})
                # write through a reference to a field: (*_6) = ..
                pl = s["place"]
                if pl["p"] and pl["p"][0] == "*" and pl["l"] in refs:
                    out.append({"field": refs[pl["l"]][0], "how": "assign", "callee": None, "bb": b,
                                "ln": s["ln"], "rv": s["rv"], "via_ref": True})
                    used_refs.add(pl["l"])
                rv = s["rv"]
                if rv["k"] not in ("ref", "rawptr"):
                    for key in ("op", "a", "b"):
                        o = rv.get(key)
                        if isinstance(o, dict):
                            p = op_place(o)
                            if p is not None and field_of(p, adt):
                                out.append({"field": field_of(p, adt)[1], "how": "move" if "mv" in o else "read",
                                            "callee": None, "bb": b, "ln": s["ln"]})
                    for o in rv.get("ops", []):
                        p = op_place(o)
                        if p is not None and field_of(p, adt):
                            out.append({"field": field_of(p, adt)[1], "how": "move" if "mv" in o else "read",
                                        "callee": None, "bb": b, "ln": s["ln"]})
                    if "place" in rv and field_of(rv["place"], adt):
                        out.append({"field": field_of(rv["place"], adt)[1], "how": "read", "callee": None,
                                    "bb": b, "ln": s["ln"]})
        t = blk["term"]
        if t["k"] == "call":
            name = callee(t) or callee_def(t) or "?"
            for a in t["args"]:
                p = op_place(a)
                if p is None:
                    continue
                if not p["p"] and p["l"] in refs:
                    f, m, _, _ = refs[p["l"]]
                    used_refs.add(p["l"])
                    out.append({"field": f, "how": "mutborrow" if m else "borrow", "callee": name, "bb": b,
                                "ln": t["ln"], "term": t})
                elif field_of(p, adt):
                    out.append({"field": field_of(p, adt)[1], "how": "move" if "mv" in a else "read",
                                "callee": name, "bb": b, "ln": t["ln"], "term": t})
    # references that were created but never seen flowing into a call / store: report as escaping
    for l, (f, m, b, ln) in refs.items():
        if l not in used_refs and m:
            # a mutable reference whose use we could not attribute
            users = [x for x in out if x["field"] == f and x["bb"] >= 0 and x.get("term") is not None]
            out.append({"field": f, "how": "mutborrow", "callee": "escapes", "bb": b, "ln": ln})
    return out


def writers(F, adt, field, crate_prefix):
    """[(fn, effect)] for every function under crate_prefix that can modify adt.field"""
    res = []
    for p, f in F.fns.items():
        if not p.startswith(crate_prefix) and not p.startswith("<" + crate_prefix):
            continue
        if not f.blocks:
            continue
        for e in field_effects(f, adt):
            if e["field"] == field and e["how"] in ("assign", "mutborrow", "move"):
                res.append((f, e))
            elif e["field"] == field and e["how"] == "borrow" and e["callee"] and \
                    any(x in e["callee"] for x in ("Cell::<T>::set", "Cell::<T>::replace", "RefCell::<T>::borrow_mut",
                                                   "Cell::<T>::take", "Cell::<T>::swap")):
                res.append((f, e))
    return res


def constructions(F, adt, variant=None, crate_prefix=""):
    """[(fn, bb, stmt)] for every aggregate construction of adt(::variant)"""
    out = []
    for p, f in F.fns.items():
        if crate_prefix and not (p.startswith(crate_prefix) or p.startswith("<" + crate_prefix)):
            continue
        for b, i, s in f.stmts():
            rv = s.get("rv")
            if rv and rv["k"] == "agg" and rv.get("agg") == "adt" and rv["adt"] == adt and \
                    (variant is None or rv["variant"] == variant):
                out.append((f, b, s))
    return out
