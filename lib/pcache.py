"""Runs engine P once per tree state and caches the aggregated result next to the facts."""
import json
import os
import time

from . import pengine as PE


def verdict_view(R):
    """the part of a result that both engine modes must agree on"""
    return {
        "panic_sites": sorted(R["panic_sites"]),
        "loop_viol": sorted(R["loop_viol"]),
        "leak_sites": sorted(R["leak_sites"]),
        "finish": {k: (v["tok"], v["child"]) for k, v in sorted(R["finish_sites"].items())},
        "stolen": sorted(k for k, v in R["consume_sites"].items() if "R_BRACE" in v["stolen"]),
        "after_stray": {k: sorted(v["after_stray"]) for k, v in sorted(R["consume_sites"].items()) if v["after_stray"]},
        "stray_errors": {k: sorted(v["kinds"]) for k, v in sorted(R["stray_err_sites"].items())},
        "nonprogress": {k: sorted(v) for k, v in sorted(R["nonprogress_kinds"].items())},
        "ctx_calls": {f: {a: sorted(v) for a, v in sorted(d.items())} for f, d in sorted(R["ctx_calls"].items())},
        "la_abs": R["la_abs"],
        "tails": {k: v["la"] for k, v in sorted(R["tails"].items())},
        "noprog_cycles": len(R["noprog_cycles"]),
    }


def _ser(o):
    if isinstance(o, (set, frozenset)):
        return sorted(o)
    raise TypeError(type(o))


def _engine_version():
    import hashlib
    h = hashlib.sha256()
    here = os.path.dirname(os.path.abspath(__file__))
    for n in ("pengine.py", "teval.py", "pcache.py", "facts.py"):
        with open(os.path.join(here, n), "rb") as fh:
            h.update(fh.read())
    return h.hexdigest()[:10]


def results(F, singletons=False):
    path = os.path.join(F.dir, "pengine%s-%s.json" % ("_singletons" if singletons else "", _engine_version()))
    if os.path.exists(path):
        try:
            with open(path) as fh:
                return json.load(fh)
        except Exception:
            pass
    t0 = time.time()
    E = PE.PEngine(F, singletons=singletons).run()
    fns = sorted({c[0] for c in E.contexts})
    loops = {}
    for p in fns:
        fn = F.fn(p)
        hs = sorted(E.heads(fn))
        if hs:
            loops[p] = [{"ordinal": i, "line": fn.term(h)["ln"]} for i, h in enumerate(hs)]
    asserts = []      # every diverging call (assert!/panic!/unreachable!) in an analysed function
    bumps = []        # every direct call of Parser::bump
    marks = []        # every start_node / start_node_before call
    for p in fns:
        fn = F.fn(p)
        for b, t in fn.calls():
            name = PE.callee(t) or PE.callee_def(t) or ""
            if t["target"] is None:
                asserts.append({"fn": p, "line": t["ln"], "callee": name, "ordinal": E.site_ordinal(fn, b),
                                "mac": t.get("mac")})
            if name == PE.PARSER + "bump":
                bumps.append({"fn": p, "line": t["ln"], "ordinal": E.site_ordinal(fn, b)})
            if name in (PE.PARSER + "start_node", PE.PARSER + "start_node_before"):
                marks.append({"fn": p, "line": t["ln"], "callee": name.rsplit("::", 1)[-1],
                              "ordinal": E.site_ordinal(fn, b)})

    def key(k):
        return "|".join(str(x) for x in k)
    # per function: kinds of the current token with which some context returns WITHOUT having consumed anything
    nonprog = {}
    # per function and abstract argument tuple: the callees some context with those arguments calls
    ctx_calls = {}
    fn_callers = {}
    for c in E.contexts:
        for cc, _bo in E.table[c].facts.edges:
            fn_callers.setdefault(cc[0], set()).add(c[0])
    for c in E.contexts:
        summ = E.table[c]
        for (prog, _r, S_out, _s) in summ.outs:
            if not prog and S_out:
                nonprog.setdefault(c[0], set()).update(S_out)
        if c[0].startswith(PE.PARSER):
            continue
        d = ctx_calls.setdefault(c[0], {}).setdefault(repr(c[2]), set())
        # direct callees, and the callees of helpers that belong to this function (every call of the helper is made by it)
        seen_h, st_h = set(), [c]
        while st_h:
            cur = st_h.pop()
            for cc, _bo in E.table[cur].facts.edges:
                d.add(cc[0])
                if cc in E.table and cc not in seen_h and cc[0] != c[0] and not cc[0].startswith(PE.PARSER) and \
                        fn_callers.get(cc[0], set()) <= {c[0]} | {x[0] for x in seen_h}:
                    seen_h.add(cc)
                    st_h.append(cc)
    res = {
        "nonprogress_kinds": nonprog, "ctx_calls": ctx_calls,
        "universe": E.universe, "trivia": E.trivia, "lex_kinds": E.lex_kinds,
        "lex_attrs": dict(E.lex_attrs),
        "contexts": len(E.contexts), "analyses": E.analyses, "states": E.states_explored,
        "functions": fns, "loops": loops, "asserts": asserts, "bumps": bumps, "marks": marks,
        "panic_sites": {key(k): v for k, v in E.panic_sites.items()},
        "loop_viol": {key(k): v for k, v in E.loop_viol.items()},
        "leak_sites": {key(k): v for k, v in E.leak_sites.items()},
        "finish_sites": {key(k): v for k, v in E.finish_sites.items()},
        "consume_sites": {key(k): v for k, v in E.consume_sites.items()},
        "stray_err_sites": {key(k): v for k, v in E.stray_err_sites.items()},
        "unknown_calls": E.unknown_calls,
        "la_abs": E.la_abs[0], "la_abs_at": E.la_abs[1],
        "tails": {k: {"la": v[0], "ctx": "%s%s" % (v[1][0], E.sname(v[1][1]))} for k, v in E.tails.items()},
        "noprog_cycles": [["%s%s" % (c[0], E.sname(c[1])) for c in cyc] for cyc in E.noprog_cycles()],
        "recursive_sccs": E.recursive_functions(),
        "context_sets": sorted({"%s %s" % (c[0].rsplit("::", 1)[-1], E.sname(c[1])) for c in E.contexts})[:4000],
        "wall_s": round(time.time() - t0, 2),
    }
    tmp = path + ".tmp%d" % os.getpid()
    with open(tmp, "w") as fh:
        json.dump(res, fh, default=_ser)
    os.replace(tmp, path)
    with open(path) as fh:
        return json.load(fh)


def crosscheck(F, res):
    """thorough tier: the exhaustive per-kind enumeration must give the same verdicts as the partition refinement"""
    a = results(F)
    b = results(F, singletons=True)
    va, vb = verdict_view(a), verdict_view(b)
    diff = [k for k in va if va[k] != vb[k]]
    res.ob("XC", "engine-P/per-kind-enumeration-agrees",
           "interpreting the parser once per single current-token kind (%d contexts, %d abstract states) yields exactly the verdicts of the "
           "kind-set partition refinement (%d contexts, %d states)" % (b["contexts"], b["states"], a["contexts"], a["states"]),
           not diff, where="crates/syntax/src/parser.rs", how="all verdict tables equal" if not diff else "differ in %s" % diff)
    res.analysed["crosscheck"] = {"partition": {"contexts": a["contexts"], "states": a["states"], "wall_s": a["wall_s"]},
                                  "per_kind": {"contexts": b["contexts"], "states": b["states"], "wall_s": b["wall_s"]}}
