"""Constant folding along one path of a function's MIR: given values for some locals, follow the control flow as far as the
known values decide it. Used to tabulate small decision procedures over a finite input alphabet (a lexer callback's
transition function, a byte classification): the static reading of "which arm does this value take", not an execution of
the system on inputs."""
from .facts import op_local, op_place


def const_int(op):
    k = op.get("k") if isinstance(op, dict) else None
    if isinstance(k, dict) and "bits" in k:
        try:
            return int(k["bits"])
        except (TypeError, ValueError):
            return None
    return None


def eval_bin(op, a, b):
    try:
        return {"Lt": a < b, "Le": a <= b, "Gt": a > b, "Ge": a >= b, "Eq": a == b, "Ne": a != b,
                "BitAnd": a & b, "BitOr": a | b, "BitXor": a ^ b, "Shr": a >> b if 0 <= b < 64 else 0, "Shl": a << b if 0 <= b < 64 else 0,
                "Sub": a - b, "Add": a + b}.get(op)
    except TypeError:
        return None


def run(fn, start, env, stop=(), fixed=(), on_stmt=None, limit=2000):
    """follows the path from `start` with the local -> int values in env. Returns (why, block, env):
      'stop'      reached a block of `stop` (after at least one step)
      'return'    reached a return terminator
      'undecided' a switch on a value the environment does not determine
      'hit'       on_stmt(bb, stmt, env) returned a non-None value (returned as block)
    Locals in `fixed` keep their value whatever is assigned to them (the quantities being tabulated); the destination of a call
    becomes unknown."""
    env = dict(env)
    bb, steps = start, 0

    def val(o):
        c = const_int(o)
        if c is not None:
            return c
        pl = op_place(o)
        if pl is not None and not [e for e in pl["p"] if e != "*"]:
            return env.get(pl["l"])
        return None
    while steps < limit:
        steps += 1
        for s in fn.blocks[bb]["stmts"]:
            if on_stmt is not None:
                r = on_stmt(bb, s, env)
                if r is not None:
                    return "hit", r, env
            if s["k"] != "assign" or s["place"]["p"]:
                continue
            l, rv = s["place"]["l"], s["rv"]
            if l in fixed:
                continue
            v = None
            # which variant an enum value is: known when it was built here (`Some(len)` answered by an inlined helper, then matched on)
            env.pop(("d", l), None)
            if rv["k"] == "agg" and rv.get("vi") is not None:
                env[("d", l)] = int(rv["vi"])
            elif rv["k"] == "use":
                pl_ = op_place(rv["op"])
                if pl_ is not None and not pl_["p"] and ("d", pl_["l"]) in env:
                    env[("d", l)] = env[("d", pl_["l"])]
            elif rv["k"] == "discr":
                pl_ = rv.get("place") or {}
                if not [e for e in pl_.get("p", []) if e != "*"] and ("d", pl_.get("l")) in env:
                    v = env[("d", pl_["l"])]
            if rv["k"] in ("use", "cast"):
                v = val(rv["op"])
                if v is not None and rv["k"] == "cast" and rv.get("ty") == "u8":
                    v &= 0xFF
            elif rv["k"] == "bin":
                a, b = val(rv["a"]), val(rv["b"])
                if a is not None and b is not None:
                    r = eval_bin(rv["op"], a, b)
                    v = None if r is None else int(r)
            elif rv["k"] == "un" and rv.get("op") == "Not":
                a = val(rv["a"])
                if a is not None:
                    v = 1 - a if a in (0, 1) else None
            elif rv["k"] == "ref":
                # a reference to a known local stands for it (`&c` compared through PartialEq is not followed; plain derefs are)
                pl = rv["place"]
                if not [e for e in pl["p"] if e != "*"] and pl["l"] in env:
                    v = env[pl["l"]]
            if v is None:
                env.pop(l, None)
            else:
                env[l] = v
        t = fn.term(bb)
        if t["k"] == "switch":
            l = op_local(t["op"])
            cv = env.get(l) if l is not None else const_int(t["op"])
            if cv is None:
                return "undecided", bb, env
            hit = [tb for v, tb in t["targets"] if int(v) == int(cv)]
            nxt = hit[0] if hit else t["otherwise"]
        elif t["k"] == "goto":
            nxt = t["target"]
        elif t["k"] == "call":
            if not t["dest"]["p"] and t["dest"]["l"] not in fixed:
                env.pop(t["dest"]["l"], None)
                env.pop(("d", t["dest"]["l"]), None)
            nxt = t.get("target")
            if nxt is None:
                return "return", bb, env
        elif t["k"] == "return":
            return "return", bb, env
        elif t["k"] in ("drop", "assert"):
            nxt = t.get("target")
            if nxt is None:
                return "return", bb, env
        else:
            return "return", bb, env
        bb = nxt
        if bb in stop:
            return "stop", bb, env
    return "undecided", bb, env
