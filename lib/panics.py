"""Engine G: inventory of panic-capable constructs and their reachability from entry points."""
import re

from .facts import callee, callee_def
from .flow import short

# library APIs that panic on some inputs (confirmed by reading their sources in the cargo registry / std docs)
PANICKY_SUFFIX = {
    "Option::unwrap": "unwrap on None", "Option::expect": "expect on None",
    "Result::unwrap": "unwrap on Err", "Result::expect": "expect on Err",
    "Result::unwrap_err": "unwrap_err on Ok", "Result::expect_err": "expect_err on Ok",
    "Index::index": "index out of bounds / missing key / not a char boundary",
    "IndexMut::index_mut": "index out of bounds / missing key",
    "RefCell::borrow": "already mutably borrowed", "RefCell::borrow_mut": "already borrowed",
    "Vec::remove": "index out of bounds", "Vec::insert": "index out of bounds", "Vec::swap_remove": "index out of bounds",
    "Vec::drain": "range out of bounds", "Vec::split_off": "index out of bounds", "Vec::truncate": None,
    "String::truncate": "not a char boundary", "String::remove": "not a char boundary", "String::insert": "not a char boundary", "String::insert_str": "not a char boundary",
    "String::replace_range": "not a char boundary / out of range", "String::split_off": "not a char boundary",
    "String::drain": "not a char boundary", "str::split_at": "not a char boundary",
    "TextRange::new": "assert!(start <= end)", "TextRange::at": "offset overflow",
    "SyntaxNode::token_at_offset": "assert: offset within the node's range (\"Bad offset\")",
    "SyntaxNode::covering_element": "assert: range within the node's range",
    "SyntaxNodePtr::to_node": "panics if the pointer does not resolve in this tree",
    "AstPtr::to_node": "panics if the pointer does not resolve in this tree",
    "GreenNodeBuilder::finish_node": "unbalanced start/finish", "GreenNodeBuilder::finish": "unbalanced start/finish",
    "Slab::remove": "invalid key", "Slab::get_unchecked": None,
    "slice::copy_from_slice": "length mismatch", "Iterator::step_by": "step == 0",
    "Arena::alloc": None, "char::from_u32_unchecked": None,
    "Duration::from_secs_f64": "negative / overflow", "Instant::duration_since": None,
    "LocalKey::with": "TLS destroyed", "Once::call_once": "poisoned",
}
PANIC_ENTRY = ("core::panicking::", "std::rt::begin_panic", "core::option::unwrap_failed", "core::option::expect_failed",
               "core::result::unwrap_failed", "std::panicking::begin_panic", "core::slice::index::slice_", "core::str::slice_error_fail",
               "alloc::alloc::handle_alloc_error", "core::cell::panic_already")


def classify_call(t):
    """(class, detail) if this call terminator is a panic-capable construct, else None"""
    c = callee(t) or callee_def(t) or ""
    d = callee_def(t) or ""
    if t["target"] is None and (c.startswith(PANIC_ENTRY) or d.startswith(PANIC_ENTRY)):
        mac = (t.get("mac") or ["panic"])[-1]
        return "explicit", mac
    if t["target"] is None:
        return "diverges", short(c)
    for name in (c, d):
        s = short(name)
        why = PANICKY_SUFFIX.get(s)
        if why:
            return "api", s
    return None


def sites_in(fn):
    """[(bb, kind, detail, line, key-part)] panic-capable constructs in fn (reachable normal blocks)"""
    out = []
    counts = {}
    for b in sorted(fn.reachable()):
        t = fn.term(b)
        if t["k"] == "call":
            cl = classify_call(t)
            if cl:
                recv = ""
                f = t.get("fn") or {}
                if cl[1] in ("Index::index", "IndexMut::index_mut"):
                    recv = (f.get("targs") or ["?"])[0]
                    recv = re.sub(r"<.*", "", recv).rsplit("::", 1)[-1]
                k = (cl[0], cl[1], recv, bool(t.get("exp")))   # sites written in the source are numbered among themselves
                n = counts.get(k, 0)
                counts[k] = n + 1
                out.append((b, cl[0], cl[1] + ("[" + recv + "]" if recv else ""), t["ln"], "%s/%s%s/%d" % (cl[0], cl[1], ("[" + recv + "]") if recv else "", n),
                            bool(t.get("exp"))))
        elif t["k"] == "assert":
            k = ("assert", t["msg"], "")
            n = counts.get(k, 0)
            counts[k] = n + 1
            out.append((b, "assert", t["msg"], t["ln"], "assert/%s/%d" % (t["msg"], n), bool(t.get("exp"))))
    return out


def detached_closures(F, fn, spawn_pred):
    """closures created in fn whose value is handed to a spawn function (they run on another task,
    where a panic is caught by the runtime / catch_unwind, not on the caller's stack)"""
    from .flow import Defs
    from .facts import op_place
    out = set()
    d = Defs(fn)
    for b, t in fn.calls():
        c = callee(t) or callee_def(t) or ""
        if not spawn_pred(c):
            continue
        for a in t["args"]:
            o = d.origin_op(a)
            if o.get("k") == "agg" and "closure" in o["rv"]:
                out.add(o["rv"]["closure"])
                # closures captured by that closure are detached too
    return out
