"""Def-use, value-origin and dominating-condition helpers over extracted MIR."""
from collections import defaultdict, deque

from .facts import callee, callee_def, op_local, op_place


class Defs:
    """Definitions of locals in one function (reachable, non-cleanup blocks)."""

    def __init__(self, fn):
        self.fn = fn
        self.defs = defaultdict(list)  # local -> [(bb, idx|'term', kind, payload)]
        for b in sorted(fn.reachable()):
            blk = fn.blocks[b]
            for i, s in enumerate(blk["stmts"]):
                if s["k"] == "assign":
                    self.defs[s["place"]["l"]].append((b, i, "assign", s))
            t = blk["term"]
            if t["k"] == "call":
                self.defs[t["dest"]["l"]].append((b, "term", "call", t))

    def whole_defs(self, l):
        """definitions that assign the whole local (no projection on the lhs)"""
        out = []
        for d in self.defs.get(l, []):
            place = d[3]["place"] if d[2] == "assign" else d[3]["dest"]
            if not place["p"]:
                out.append(d)
        return out

    def origin(self, l, depth=0, through_calls=()):
        """Chase a local back through copies/moves/refs/casts/derefs to its source.
        Returns a dict: {'k':'call','t':term,'bb':bb} | {'k':'arg','n':n} | {'k':'const','c':const}
        | {'k':'agg','rv':rv} | {'k':'field','base':origin,'proj':[..]} | {'k':'promoted','n':i}
        | {'k':'multi','defs':[...]} | {'k':'unknown'}"""
        if depth > 40:
            return {"k": "unknown"}
        fn = self.fn
        if 1 <= l <= fn.d["arg_count"] and not self.whole_defs(l):
            return {"k": "arg", "n": l, "l": l}
        ds = self.whole_defs(l)
        if len(ds) == 0:
            return {"k": "unknown", "l": l}
        if len(ds) > 1:
            return {"k": "multi", "l": l, "defs": ds}
        b, i, kind, payload = ds[0]
        if kind == "call":
            c = callee(payload) or ""
            if any(c.endswith(x) or x in c for x in through_calls) and payload["args"]:
                a = op_place(payload["args"][0])
                if a is not None:
                    o = self.origin_place(a, depth + 1, through_calls)
                    o = dict(o)
                    o["via"] = list(o.get("via", [])) + [c]
                    o["via_t"] = list(o.get("via_t", [])) + [(b, payload)]
                    return o
            return {"k": "call", "t": payload, "bb": b, "l": l}
        rv = payload["rv"]
        return self.origin_rv(rv, l, b, depth, through_calls)

    def origin_rv(self, rv, l, b, depth, through_calls):
        k = rv["k"]
        if k in ("use", "cast"):
            op = rv["op"]
            if "k" in op:
                c = op["k"]
                if "promoted" in c:
                    return {"k": "promoted", "n": c["promoted"], "l": l}
                return {"k": "const", "c": c, "l": l}
            return self.origin_place(op_place(op), depth + 1, through_calls)
        if k == "ref" or k == "rawptr":
            return self.origin_place(rv["place"], depth + 1, through_calls)
        if k == "agg":
            return {"k": "agg", "rv": rv, "bb": b, "l": l}
        return {"k": "rv", "rv": rv, "bb": b, "l": l}

    def origin_place(self, place, depth=0, through_calls=()):
        base = self.origin(place["l"], depth + 1, through_calls)
        proj = [e for e in place["p"] if e != "*"]
        if not proj:
            return base
        return {"k": "field", "base": base, "proj": proj, "l": place["l"]}

    def origin_op(self, op, through_calls=()):
        if "k" in op:
            c = op["k"]
            if "promoted" in c:
                return {"k": "promoted", "n": c["promoted"]}
            return {"k": "const", "c": c}
        return self.origin_place(op_place(op), 0, through_calls)


def promoted_const(fn, n):
    """The value a promoted body evaluates to (aggregate / constant), or None."""
    pb = fn.d["promoted"][n]
    vals = {}
    for blk in pb["blocks"]:
        for s in blk["stmts"]:
            if s["k"] == "assign" and not s["place"]["p"]:
                vals[s["place"]["l"]] = s["rv"]
    rv = vals.get(0)
    hops = 0
    while rv is not None and hops < 10:
        hops += 1
        if rv["k"] == "ref":
            rv = vals.get(rv["place"]["l"])
            continue
        if rv["k"] in ("use", "cast") and op_place(rv["op"]) is not None:
            rv = vals.get(op_place(rv["op"])["l"])
            continue
        break
    return rv


def const_variant(c):
    """Variant name of an enum-typed constant / unit-variant aggregate rvalue, else None."""
    if c is None:
        return None
    if c.get("k") == "agg" and c.get("agg") == "adt":
        return c["variant"]
    if c.get("k") in ("use", "cast") and "k" in c.get("op", {}):
        return c["op"]["k"].get("variant")
    return c.get("variant")


def kind_of_operand(fn, defs, op):
    """SyntaxKind (or other fieldless enum) variant an operand denotes, or None."""
    o = defs.origin_op(op)
    if o["k"] == "const":
        return o["c"].get("variant")
    if o["k"] == "agg":
        return o["rv"].get("variant")
    if o["k"] == "promoted":
        return const_variant(promoted_const(fn, o["n"]))
    return None


def edge_conditions(fn, target_bbs):
    """Switch decisions every path from entry to `target_bbs` must take:
    [(switch_bb, value|'otherwise')] — for every switch block from which only one
    out-edge can still reach a target."""
    targets = set(target_bbs)
    # blocks that can reach a target
    can = set(targets)
    q = deque(targets)
    while q:
        b = q.popleft()
        for p in fn.pred(b):
            if p not in can and p in fn.reachable():
                can.add(p)
                q.append(p)
    out = []
    dom = fn.dominators()
    common = None
    for t in targets:
        if t in dom:
            common = set(dom[t]) if common is None else common & dom[t]
    for b in sorted(common or ()):
        t = fn.term(b)
        if t["k"] != "switch":
            continue
        live = []
        # an out-edge is live if a target can still be reached through it without coming back to b
        # (for a loop header this selects the exit decision, not the edge into the body)
        for v, s in t["targets"]:
            if s in can and (s in targets or fn.can_reach(s, targets, avoid=[b])):
                live.append((v, s))
        if t["otherwise"] in can and (t["otherwise"] in targets or fn.can_reach(t["otherwise"], targets, avoid=[b])):
            live.append(("otherwise", t["otherwise"]))
        # edges that lead somewhere (the `otherwise` of an exhaustive match goes to an `unreachable` block)
        n_edges = sum(1 for _v, s_ in t["targets"] if fn.term(s_)["k"] != "unreachable") + \
            (1 if fn.term(t["otherwise"])["k"] != "unreachable" else 0)
        if 1 <= len(live) < n_edges and len(set(fn.succ(b))) > 1:
            # some out-edge cannot lead to a target any more: the values of the live ones are a necessary condition
            # (the live edges may go to different successors: `A | B if g =>` tests the guard once per alternative)
            out.append((b, [v for v, _ in live]))
    return out


def blocks_assigning_return(fn, pred):
    """Blocks with a statement `_0 = <rv>` (or a call writing _0) for which pred(rv|term) holds."""
    out = []
    for b in sorted(fn.reachable()):
        for s in fn.blocks[b]["stmts"]:
            if s["k"] == "assign" and s["place"]["l"] == 0 and not s["place"]["p"] and pred(s["rv"]):
                out.append(b)
    return out


def is_variant_agg(rv, adt_suffix, variant):
    return (rv["k"] == "agg" and rv.get("agg") == "adt" and rv["adt"].endswith(adt_suffix)
            and rv["variant"] == variant)


def ok_blocks(fn):
    return blocks_assigning_return(fn, lambda rv: is_variant_agg(rv, "result::Result", "Ok"))


def err_blocks(fn):
    return blocks_assigning_return(fn, lambda rv: is_variant_agg(rv, "result::Result", "Err"))


def calls_to(fn, pred):
    return [(b, t) for b, t in fn.calls() if pred(callee(t) or "") or pred(callee_def(t) or "")]


def must_pass(fn, via_bbs, target_bbs):
    """Every path entry -> some target passes a block of via_bbs."""
    return not fn.can_reach(0, target_bbs, avoid=via_bbs) if 0 not in set(via_bbs) else True


# ---------------------------------------------------------------- gates ----

STD_DISCR = {
    "ControlFlow": {0: "Continue", 1: "Break"},
    "Option": {0: "None", 1: "Some"},
    "Result": {0: "Ok", 1: "Err"},
    "Either": {0: "Left", 1: "Right"},
}
PASS_THROUGH = ("Try>::branch", "::ok_or_else", "::ok_or", "::map_err", "::as_ref", "::as_deref",
                "Deref>::deref", "::clone", "::into", "::unwrap_or_default")


def enum_names(F, ty):
    """discriminant -> variant name for an enum type string"""
    base = ty.split("<", 1)[0]
    short = base.rsplit("::", 1)[-1]
    if short in STD_DISCR and base.split("::")[0] in ("std", "core", "itertools", "either"):
        return STD_DISCR[short]
    if base in F.adts and F.adts[base]["kind"] == "enum":
        return F.discr_map(base)
    return None


def gate_for(F, fn, defs, b, vals):
    """describe the decision `switch at block b takes one of vals`"""
    t = fn.term(b)
    l = op_local(t["op"])
    if l is None:
        # `match (a, b) { (true, false) => .. }`: the switch reads a field of a tuple that was built from locals right before - the
        # decision is a decision on that local
        pl = t["op"].get("cp") or t["op"].get("mv") if isinstance(t.get("op"), dict) else None
        if pl and len(pl["p"]) == 1 and isinstance(pl["p"][0], dict) and "f" in pl["p"][0] and "adt" not in pl["p"][0]:
            dd = defs.whole_defs(pl["l"])
            if len(dd) == 1 and dd[0][2] == "assign" and dd[0][3]["rv"].get("k") == "agg" and dd[0][3]["rv"].get("agg") == "tuple":
                ops_ = dd[0][3]["rv"].get("ops") or []
                i_ = pl["p"][0]["f"]
                if isinstance(i_, int) and i_ < len(ops_):
                    l = op_local(ops_[i_])
    if l is None:
        return None
    g = {"bb": b, "ln": t["ln"], "callee": None, "enum": None}
    o = defs.origin(l)
    if o["k"] == "rv" and o["rv"]["k"] == "discr":
        ety = o["rv"]["of"]
        names = enum_names(F, ety) or {}
        allowed = []
        for v in vals:
            if v == "otherwise":
                listed = {x[0] for x in t["targets"]}
                allowed.extend(n for d, n in names.items() if d not in listed)
            else:
                allowed.append(names.get(v, v))
        g["kind"] = "enum"
        g["enum"] = ety.split("<", 1)[0]
        g["allowed"] = sorted(map(str, allowed))
        src = defs.origin_place(o["rv"]["place"], 0, PASS_THROUGH)
        g["origin"] = src
    else:
        g["kind"] = "bool"
        if t["ty"] == "bool":
            al = []
            for v in vals:
                if v == "otherwise":
                    listed = {x[0] for x in t["targets"]}
                    al.extend(x for x in (False, True) if int(x) not in listed)
                else:
                    al.append(v != 0)
            g["allowed"] = sorted(set(al))
        else:
            g["allowed"] = vals
        src = defs.origin(l, 0, ())
        # `!x` : flip
        if src["k"] == "rv" and src["rv"]["k"] == "un" and src["rv"]["op"] == "Not":
            inner = op_local(src["rv"]["a"])
            if inner is not None:
                src = defs.origin(inner)
                g["allowed"] = sorted(not v for v in g["allowed"]) if all(isinstance(v, bool) for v in g["allowed"]) else g["allowed"]
        g["origin"] = src
    base = g["origin"]
    while base.get("k") == "field":
        base = base["base"]
    if base.get("k") == "call":
        g["callee"] = callee(base["t"]) or callee_def(base["t"])
        g["call_def"] = callee_def(base["t"])
        g["call_bb"] = base["bb"]
        g["call_t"] = base["t"]
    return g


def origin_key(o):
    """identity of a tested value (two switches on copies of one value get the same key)"""
    k = o.get("k")
    if k == "field":
        pr = tuple((e.get("f"), e.get("n")) if isinstance(e, dict) else e for e in o.get("proj", []))
        return ("field", pr, origin_key(o["base"]))
    if k == "call":
        return ("call", o.get("bb"))
    if k == "arg":
        return ("arg", o.get("n"))
    if k in ("rv", "agg"):
        return (k, o.get("bb"), o.get("l"))
    return (k, o.get("l"), repr(o.get("c"))[:40])


def _merged_path_gates(F, fn, target, defs, have, limit=96):
    """decisions that hold on every path to `target` although no single switch block dominates it: the value tested is
    the same on all paths (`A | B if guard =>` evaluates the guard once per alternative). The allowed values are united."""
    reach = fn.reachable()
    # climb the straight-line prefix: the join we are interested in is the first block with several predecessors
    for _ in range(64):
        preds = [p for p in fn.pred(target) if p in reach]
        if len(preds) != 1 or len(set(fn.succ(preds[0]))) > 1:
            break
        target = preds[0]
    dom = fn.dominators().get(target, set())
    paths, stack = [], [(target, (), frozenset([target]))]
    while stack:
        b, conds, seen = stack.pop()
        preds = [p for p in fn.pred(b) if p in reach]
        if not preds:
            paths.append(conds)
            continue
        for p in preds:
            if p in seen:
                continue
            c2 = conds
            t = fn.term(p)
            if t["k"] == "switch" and len(set(fn.succ(p))) > 1:
                vals = [v for v, s_ in t["targets"] if s_ == b] + (["otherwise"] if t["otherwise"] == b else [])
                c2 = conds + ((p, tuple(vals)),)
            if p in dom and p != target:
                paths.append(c2)
            else:
                stack.append((p, c2, seen | {p}))
        if len(paths) + len(stack) > limit:
            return []
    if len(paths) < 2:
        return []
    per_path = []
    for conds in paths:
        atoms = {}
        for b, vals in conds:
            g = gate_for(F, fn, defs, b, list(vals))
            if g is None:
                continue
            key = (g["kind"], g["enum"], origin_key(g["origin"]))
            al = set(map(str, g["allowed"])) if g["kind"] == "enum" else set(g["allowed"]) if all(isinstance(v, bool) for v in g["allowed"]) else None
            if al is None:
                continue
            if key in atoms:
                atoms[key] = (atoms[key][0] & al, atoms[key][1])
            else:
                atoms[key] = (al, g)
        per_path.append(atoms)
    out = []
    common = set(per_path[0])
    for a in per_path[1:]:
        common &= set(a)
    for key in sorted(common, key=repr):
        if key in have:
            continue
        al = set()
        for a in per_path:
            al |= a[key][0]
        g = dict(per_path[0][key][1])
        # a "condition" that admits every value is none
        if g["kind"] == "bool" and al >= {True, False}:
            continue
        if g["kind"] == "enum":
            names = enum_names(F, (g.get("enum") or "")) or {}
            if names and al >= set(map(str, names.values())):
                continue
        g["allowed"] = sorted(al)
        g["merged"] = True
        out.append(g)
    return out


def gates(F, fn, target_bbs, defs=None):
    """Conditions every path to target_bbs must satisfy, described by where the tested value
    comes from. Each gate: {'bb','kind':'bool'|'enum','allowed':[...], 'origin':origin-dict,
    'callee': name|None, 'enum': type|None}"""
    defs = defs or Defs(fn)
    out = []
    for b, vals in edge_conditions(fn, target_bbs):
        g = gate_for(F, fn, defs, b, vals)
        if g is not None:
            out.append(g)
    if len(target_bbs) == 1:
        have = {(g["kind"], g["enum"], origin_key(g["origin"])) for g in out}
        out.extend(_merged_path_gates(F, fn, list(target_bbs)[0], defs, have))
    return out


def gate_summary(g):
    return "%s %s in %s" % (g.get("callee") or g["origin"].get("k"), g.get("enum") or "bool", g["allowed"])


def explore(fn, start, facts0, on_switch, is_target, limit=200000):
    """Path-sensitive forward walk. States are (bb, frozenset facts). on_switch(bb, term, facts)
    returns [(succ, facts)] or None (= all successors, facts unchanged).
    Returns list of fact-sets with which a target block is reached."""
    seen = set()
    st = [(start, frozenset(facts0))]
    hits = []
    n = 0
    while st:
        b, facts = st.pop()
        if (b, facts) in seen:
            continue
        seen.add((b, facts))
        n += 1
        if n > limit:
            raise RuntimeError("explore: state limit")
        if is_target(b):
            hits.append((b, facts))
            continue
        t = fn.term(b)
        nxt = None
        if t["k"] == "switch":
            nxt = on_switch(b, t, facts)
        if nxt is None:
            nxt = [(s, facts) for s in fn.succ(b)]
        for s, f2 in nxt:
            st.append((s, frozenset(f2)))
    return hits


def switch_edges(t):
    """[(value|'otherwise', succ)]"""
    return [(v, s) for v, s in t["targets"]] + [("otherwise", t["otherwise"])]


def upvar_origin(F, closure_path, idx, depth=0):
    """Follow captured variable #idx of a closure up to the enclosing function:
    returns (fn, origin-dict) in the first non-closure ancestor (or where the chain stops)."""
    cf = F.fns[closure_path]
    parent_path = cf.d.get("direct_parent")
    if cf.unit.endswith("executable") and not parent_path.startswith("[bin]"):
        parent_path = "[bin]" + parent_path
    parent = F.fns.get(parent_path)
    if parent is None or depth > 6:
        return None, {"k": "unknown"}
    d = Defs(parent)
    for b, i, s in parent.stmts():
        rv = s.get("rv")
        if rv and rv["k"] == "agg" and rv.get("closure") == closure_path.replace("[bin]", ""):
            if idx >= len(rv["ops"]):
                return parent, {"k": "unknown"}
            o = d.origin_op(rv["ops"][idx])
            base = o
            while base.get("k") == "field":
                base = base["base"]
            # captured from the parent's own closure environment?
            if parent.kind == "Closure" and base.get("k") == "arg" and base["n"] == 1 and o.get("k") == "field":
                fidx = [e["f"] for e in o["proj"] if isinstance(e, dict) and "f" in e]
                if fidx:
                    return upvar_origin(F, parent_path, fidx[0], depth + 1)
            return parent, o
    return parent, {"k": "unknown"}


def closure_env_field(origin):
    """if an origin is a field of the closure environment (arg 1), return its index"""
    o = origin
    if o.get("k") != "field":
        return None
    base = o
    while base.get("k") == "field":
        base = base["base"]
    if base.get("k") == "arg" and base["n"] == 1:
        f = [e["f"] for e in o["proj"] if isinstance(e, dict) and "f" in e]
        return f[0] if f else None
    return None


def strip_generics(x):
    out, depth = [], 0
    for ch in x:
        if ch == "<":
            depth += 1
        elif ch == ">":
            depth -= 1
        elif depth == 0:
            out.append(ch)
    return "".join(out).replace("::::", "::")


def short(c):
    """`alloc::vec::Vec::<T, A>::push` -> `Vec::push`; `<X as a::Trait<I>>::m` -> `Trait::m`"""
    if c is None:
        return None
    if c.startswith("<") and " as " in c:
        depth, end = 0, None
        for i, ch in enumerate(c):
            if ch == "<":
                depth += 1
            elif ch == ">":
                depth -= 1
                if depth == 0:
                    end = i
                    break
        inner = c[1:end]
        # split at the top-level " as "
        depth, cut = 0, None
        for i, ch in enumerate(inner):
            if ch == "<":
                depth += 1
            elif ch == ">":
                depth -= 1
            elif depth == 0 and inner.startswith(" as ", i):
                cut = i
        trait = strip_generics(inner[cut + 4:]) if cut is not None else strip_generics(inner)
        return trait.rsplit("::", 1)[-1] + c[end + 1:]
    parts = [x for x in strip_generics(c).split("::") if x]
    return "::".join(parts[-2:]) if len(parts) >= 2 else c




# ------------------------------------------------------------ guard signatures ----

def _var_name(fn, l):
    for v in fn.d.get("debug", []):
        if v["place"]["l"] == l and not v["place"]["p"]:
            return v["name"]
    return None


def describe_operand(fn, defs, op, depth=0):
    """stable, position-free description of a value: variable name, constant, or the call it comes from"""
    if "k" in op:
        c = op["k"]
        if "variant" in c:
            return c["variant"]
        if "bits" in c:
            return str(c["bits"])
        if "str" in c:
            return repr(c["str"])[:30]
        return c.get("def") or c.get("ty", "const")
    pl = op_place(op)
    l = pl["l"]
    proj = "".join("." + str(e.get("n", e.get("f", "?"))) for e in pl["p"] if isinstance(e, dict) and "f" in e)
    for _ in range(8):
        nm = _var_name(fn, l)
        if 1 <= l <= fn.d["arg_count"]:
            return (nm or "arg%d" % l) + proj
        dd = defs.whole_defs(l)
        if len(dd) != 1:
            # a variable assigned in several places (loop state, `mut`): its name is the best description there is
            return (nm or "?") + proj
        # a `let` with a single definition is described by what it is bound to, so that introducing or renaming a
        # local does not change the description
        b, i, kind, payload = dd[0]
        if kind == "call":
            c = callee(payload) or callee_def(payload) or "?"
            args = ",".join(describe_operand(fn, defs, a, depth + 1) for a in payload["args"][:2]) if depth < 2 else ".."
            return "%s(%s)%s" % (short(c), args, proj)
        rv = payload["rv"]
        if rv["k"] in ("use", "cast") and op_place(rv["op"]) is not None:
            p2 = op_place(rv["op"])
            proj = "".join("." + str(e.get("n", e.get("f", "?"))) for e in p2["p"] if isinstance(e, dict) and "f" in e) + proj
            l = p2["l"]
            continue
        if rv["k"] in ("use", "cast"):
            return describe_operand(fn, defs, rv["op"], depth + 1) + proj
        if rv["k"] == "ref":
            p2 = rv["place"]
            proj = "".join("." + str(e.get("n", e.get("f", "?"))) for e in p2["p"] if isinstance(e, dict) and "f" in e) + proj
            l = p2["l"]
            continue
        if rv["k"] == "bin" and depth < 2:
            return "%s(%s,%s)%s" % (rv["op"].replace("WithOverflow", ""), describe_operand(fn, defs, rv["a"], depth + 1),
                                    describe_operand(fn, defs, rv["b"], depth + 1), proj)
        if rv["k"] == "discr":
            return "discr(%s)" % describe_operand(fn, defs, {"cp": rv["place"]}, depth + 1)
        return rv["k"] + proj
    return "?" + proj


def guard_signature(F, fn, bb, defs=None):
    """sorted descriptions of the decisions every path to block bb must have taken"""
    defs = defs or Defs(fn)
    out = []
    for g in gates(F, fn, [bb], defs):
        t = fn.term(g["bb"])
        o = g["origin"]
        if g["kind"] == "bool" and o.get("k") == "rv" and o["rv"]["k"] == "bin":
            rv = o["rv"]
            out.append("%s(%s,%s)==%s" % (rv["op"], describe_operand(fn, defs, rv["a"]), describe_operand(fn, defs, rv["b"]), g["allowed"]))
        elif g.get("callee"):
            args = ",".join(describe_operand(fn, defs, a, 1) for a in g["call_t"]["args"][:2])
            out.append("%s(%s) in %s" % (short(g["callee"]), args, g["allowed"]))
        else:
            out.append("%s in %s" % (describe_operand(fn, defs, t["op"]), g["allowed"]))
    return sorted(set(out))


def depends(F, fn, d, op, max_locals=400, use_bb=None):
    """Backward data-dependence closure of an operand inside one function (flow-insensitive over definitions):
    {'args': parameter locals reached, 'strs': string literals reached, 'calls': short callee names reached}.
    Closures handed to a reached call (Option::map(|p| ..) etc.) contribute their own literals and callees."""
    import re as _re
    from .facts import callee as _callee, callee_def as _cd, op_place as _opl
    out = {"args": set(), "strs": set(), "calls": set()}

    def scan_const(o):
        if isinstance(o, dict) and isinstance(o.get("k"), dict) and "str" in o["k"]:
            out["strs"].add(o["k"]["str"])
        # a function item handed to a combinator (`.and_then(read_source)`) is called by it
        if isinstance(o, dict) and isinstance(o.get("k"), dict) and isinstance(o["k"].get("fn"), dict):
            nm = o["k"]["fn"].get("res") or o["k"]["fn"].get("def")
            if nm:
                out["calls"].add(short(nm))

    def scan_closure(cf):
        for b, i, s in cf.stmts():
            rv = s.get("rv") or {}
            for key in ("op", "a", "b"):
                scan_const(rv.get(key))
            for o in rv.get("ops", []) or []:
                scan_const(o)
        for b, t in cf.calls():
            out["calls"].add(short(_callee(t) or _cd(t)))
            for a in t["args"]:
                scan_const(a)
    # control dependence: a definition made under a branch the use site is not itself under (`a && b`, `if c {x} else {y}`)
    use_gates = {b for b, _ in edge_conditions(fn, [use_bb])} if use_bb is not None else set()
    ctl_done = set()

    def control(bb):
        if use_bb is None or bb in ctl_done:
            return
        ctl_done.add(bb)
        for gb, _vals in edge_conditions(fn, [bb]):
            if gb not in use_gates:
                st.append(fn.term(gb)["op"])
    seen, st = set(), [op]
    while st and len(seen) < max_locals:
        o = st.pop()
        scan_const(o)
        pl = _opl(o) if isinstance(o, dict) else None
        if pl is None or pl["l"] in seen:
            continue
        l = pl["l"]
        seen.add(l)
        if 1 <= l <= fn.d.get("arg_count", 0):
            out["args"].add(l)
        for dd in d.defs.get(l, []):
            control(dd[0])
            if dd[2] == "call":
                t = dd[3]
                out["calls"].add(short(_callee(t) or _cd(t)))
                st.extend(t["args"])
                for ta in (t.get("fn") or {}).get("targs", []) or []:
                    m = _re.match(r"\{closure@([^:]+):(\d+):", ta)
                    if m:
                        cands = list(F.closures_of(fn.path))
                        # code inlined from a helper brings closures that belong to the helper: find them by their span
                        if not any((F.fns[cp].d.get("span") or {}).get("lo") == int(m.group(2)) for cp in cands):
                            cands = [cp for cp, cf_ in F.fns.items() if cf_.kind == "Closure" and (cf_.d.get("span") or {}).get("lo") == int(m.group(2))
                                     and (cf_.d.get("span") or {}).get("file", "").endswith(m.group(1).split("/")[-1])]
                        for cp in cands:
                            cf = F.fns[cp]
                            sp = cf.d.get("span") or {}
                            if sp.get("lo") == int(m.group(2)):
                                scan_closure(cf)
            else:
                rv = dd[3]["rv"]
                for key in ("op", "a", "b"):
                    if isinstance(rv.get(key), dict):
                        st.append(rv[key])
                if "place" in rv:
                    st.append({"cp": rv["place"]})
                st.extend(rv.get("ops", []) or [])
    return out


def origin_deep(d, op, through=()):
    """origin of a value, continued through struct and tuple literals: `x.f` where x = S { f: v, .. } (or `x.0` where x = (v, w)) resolves to the origin of v"""
    o = d.origin_op(op, through)
    for _ in range(6):
        base, prs = o, []
        while base.get("k") == "field":
            prs = [e.get("f") for e in base.get("proj", []) if isinstance(e, dict)] + prs
            base = base["base"]
        if base.get("k") == "agg" and base["rv"].get("agg") in ("adt", "tuple") and len(prs) == 1 and isinstance(prs[0], int) and \
                prs[0] < len(base["rv"].get("ops", []) or []):
            o = d.origin_op(base["rv"]["ops"][prs[0]], through)
            continue
        break
    return o


def op_local_(o):
    from .facts import op_local as _f
    return _f(o)


def const_step(fn, bb, env):
    env = dict(env)
    for s in fn.blocks[bb]["stmts"]:
        if s["k"] != "assign" or s["place"]["p"]:
            continue
        rv, l = s["rv"], s["place"]["l"]
        val = None
        if rv["k"] == "use":
            k = rv["op"].get("k") if isinstance(rv["op"], dict) else None
            if isinstance(k, dict) and "bits" in k:
                val = k["bits"]
            else:
                src = op_local_(rv["op"])
                pl = rv["op"].get("mv") or rv["op"].get("cp") or {}
                if src is not None and not pl.get("p") and src in env:
                    val = env[src]
        elif rv["k"] == "un" and rv.get("op") == "Not":
            a = env.get(op_local_(rv["a"]))
            if a is not None and not isinstance(a, tuple):
                val = 1 - int(a)
        elif rv["k"] == "agg" and rv.get("agg") == "adt" and rv.get("vi") is not None:
            val = ("variant", rv["vi"])
        elif rv["k"] == "discr":
            pl = rv.get("place") or {}
            a = env.get(pl.get("l")) if not pl.get("p") else None
            if isinstance(a, tuple):
                val = a[1]
        if val is None:
            env.pop(l, None)
        else:
            env[l] = val
    t = fn.term(bb)
    succs = list(fn.succ(bb))
    if t["k"] == "call" and not t["dest"]["p"]:
        env.pop(t["dest"]["l"], None)
    if t["k"] == "switch":
        cv = env.get(op_local_(t["op"]))
        if cv is not None:
            hit = [tb for v, tb in t["targets"] if v == cv]
            succs = hit[:1] if hit else [t["otherwise"]]
    return succs, env


def reachable_following_constants(fn, start, targets, env0=None, forbid=None, limit=20000):
    """is one of `targets` reachable from `start` when boolean / integer / enum-variant constants assigned on the way decide
    the switches they reach? forbid(bb, succ) -> True removes an edge."""
    tg = set(targets)
    st0 = (start, tuple(sorted((env0 or {}).items(), key=repr)))
    seen, st = {st0}, [st0]
    while st and len(seen) < limit:
        x, envt = st.pop()
        if x in tg:
            return True
        succs, env = const_step(fn, x, dict(envt))
        for y in succs:
            if forbid and forbid(x, y):
                continue
            key = (y, tuple(sorted(env.items(), key=repr)))
            if key not in seen:
                seen.add(key)
                st.append(key)
    return False


def every_iteration_passes(fn, via_bbs, must_visit=None):
    """for each loop (back edges grouped by head) containing one of via_bbs: can an iteration go round (reach a back-edge
    tail from the loop head, staying inside the loop) without passing any of them? Returns the (head, tail) pairs it can.
    Boolean / integer constants assigned on the way are followed through copies, so `ok = false; .. if !ok { break }` does
    not count as a way round; so are enum values built on the way (`x = Some(..); match x { None => .. }`).
    must_visit: only ways round that pass one of these blocks count (loops are then chosen by containing one of them)."""
    from .facts import op_local as _ol
    out = []
    via = set(via_bbs)
    heads = {}
    for tl, hd in fn.back_edges():
        heads.setdefault(hd, []).append(tl)

    def step(bb, env):
        return const_step(fn, bb, env)
    mv = set(must_visit or ())
    for hd, tails in sorted(heads.items()):
        body = set()
        for tl in tails:
            body |= fn.natural_loop(tl, hd)
        if hd in via or not ((mv & body) if mv else (via & body)):
            continue
        start = (hd, (), hd in mv)
        seen, st = {start}, [start]
        reached = set()
        while st and len(seen) < 20000:
            x, envt, vis = st.pop()
            succs, env = step(x, dict(envt))
            for y in succs:
                if y == hd and x in tails and (vis or not mv):
                    reached.add(x)
                if y in body and y not in via and y != hd:
                    key = (y, tuple(sorted(env.items(), key=repr)), vis or y in mv)
                    if key not in seen:
                        seen.add(key)
                        st.append(key)
        for tl in tails:
            if tl in reached and tl not in via:
                out.append((hd, tl))
    return out

def fields_feeding(F, fn, d, op, adt_suffix, max_locals=400, use_bb=None):
    """names of the fields of the struct `adt_suffix` that an operand is computed from (backward data dependence inside one
    function; a closure built on the way contributes every field of that struct its body reads)."""
    from .facts import op_place as _opl, callee as _callee
    out = set()

    def scan_place(pl):
        for e in pl.get("p", []) or []:
            if isinstance(e, dict) and (e.get("adt") or "").endswith(adt_suffix) and e.get("n"):
                out.add(e["n"])

    def scan_closure(path, depth=0):
        cf = F.fns.get(path)
        if cf is None or depth > 2:
            return
        for b, i, s in cf.stmts():
            rv = s.get("rv") or {}
            if "place" in rv:
                scan_place(rv["place"])
            for key in ("op", "a", "b"):
                o = rv.get(key)
                pl = _opl(o) if isinstance(o, dict) else None
                if pl:
                    scan_place(pl)
            for o in rv.get("ops", []) or []:
                pl = _opl(o) if isinstance(o, dict) else None
                if pl:
                    scan_place(pl)
            if rv.get("k") == "agg" and rv.get("agg") == "closure":
                scan_closure(rv["closure"], depth + 1)
        for b, t in cf.calls():
            for a in t["args"]:
                pl = _opl(a)
                if pl:
                    scan_place(pl)
    use_gates = {b for b, _ in edge_conditions(fn, [use_bb])} if use_bb is not None else set()
    ctl_done = set()

    def control(bb):
        # a value assigned under a branch the use is not itself under depends on what that branch tests
        if use_bb is None or bb in ctl_done:
            return
        ctl_done.add(bb)
        for gb, _vals in edge_conditions(fn, [bb]):
            if gb not in use_gates:
                st.append(fn.term(gb)["op"])
    seen, st = set(), [op]
    while st and len(seen) < max_locals:
        o = st.pop()
        pl = _opl(o) if isinstance(o, dict) else None
        if pl is None:
            continue
        scan_place(pl)
        if pl["l"] in seen:
            continue
        seen.add(pl["l"])
        for dd in d.defs.get(pl["l"], []):
            control(dd[0])
            if dd[2] == "call":
                st.extend(dd[3]["args"])
                c = _callee(dd[3])
                # an accessor method of the struct (`imp.local_name()`) reads the fields on the caller's behalf
                if c in F.fns and adt_suffix in c:
                    scan_closure(c)
            else:
                rv = dd[3]["rv"]
                for key in ("op", "a", "b"):
                    if isinstance(rv.get(key), dict):
                        st.append(rv[key])
                if "place" in rv:
                    st.append({"cp": rv["place"]})
                st.extend(rv.get("ops", []) or [])
                if rv.get("k") == "agg" and rv.get("agg") == "closure":
                    scan_closure(rv["closure"])
    return out
