"""Engine P: abstract interpretation of the hand-written parser (MIR of syntax::parser) over
the finite domain 'kind of the current token'.

Every decision the parser makes is a test of the current token's kind against constants, so the
interpreter runs the parser's MIR on a nondeterministic token oracle: the current token is a
single concrete kind (split lazily over the universe of kinds the lexer can emit, plus EOF),
becomes unknown again after each consumption, and look-ahead beyond the current token is unknown
(both branches are followed). Functions are summarised per context (function, current kind,
abstract arguments); recursion is solved by chaotic iteration to the least fixpoint. All token
sequences are covered at once; nothing of glas is executed.

Only seven leaf primitives are modelled (nth, eof, bump, error, start_node, start_node_before,
finish_node); their MIR is checked against the model by rules/c02.py. Everything else —
at, at_any, eat, expect, bump_with_error, TokenSet, prefix_bp/infix_bp, every grammar function —
is interpreted from its own MIR.
"""
import sys
from collections import defaultdict

from .facts import callee, callee_def, op_place, liveness, rvalue_uses
from .teval import Pure, U, Unsupported, EvalPanic, has_unknown

P = "P"            # the &mut Parser value


# A value that depends on the kind of the current token is a *table* ('t', ((kind, value), ...)):
# the tabulated function kind -> value over the kinds still possible. Operations on tables are
# evaluated pointwise; a branch on a table partitions the set of possible kinds.
def is_table(v):
    return isinstance(v, tuple) and len(v) == 2 and v[0] == "t"


def has_table(v):
    if not isinstance(v, tuple):
        return False
    if is_table(v):
        return True
    if v and v[0] in ("rv",):
        return has_table(v[1])
    if v and v[0] == "a":
        return any(has_table(x) for x in v[3])
    return False


def inst(v, k):
    """instantiate the tables inside v at kind k"""
    if not isinstance(v, tuple):
        return v
    if is_table(v):
        for kk, vv in v[1]:
            if kk == k:
                return vv
        return U
    if v and v[0] == "rv":
        return ("rv", inst(v[1], k)) if has_table(v[1]) else v
    if v and v[0] == "a" and any(has_table(x) for x in v[3]):
        return (v[0], v[1], v[2], tuple(inst(x, k) for x in v[3]))
    return v


def mktable(d):
    vals = list(d.values())
    if all(x == vals[0] for x in vals):
        return vals[0]
    return ("t", tuple(sorted(d.items())))


def restrict(v, S):
    if not has_table(v):
        return v
    if is_table(v):
        return mktable({k: x for k, x in v[1] if k in S})
    if v[0] == "rv":
        return ("rv", restrict(v[1], S))
    return (v[0], v[1], v[2], tuple(restrict(x, S) for x in v[3]))


class KEnv:
    """read-only view of an environment with all tables instantiated at one kind"""
    __slots__ = ("env", "k")

    def __init__(self, env, k):
        self.env = env
        self.k = k

    def get(self, l, default=None):
        v = self.env.get(l, default)
        return inst(v, self.k) if isinstance(v, tuple) else v
SK = "syntax::kind::SyntaxKind"
PARSER = "syntax::parser::Parser::"
LEAVES = ("nth", "eof", "bump", "error", "start_node", "start_node_before", "finish_node")
CONSUMERS = ("bump", "bump_with_error", "eat", "expect")
NAME_LIKE = ("NAME", "NAME_REF", "TYPE_NAME", "LABEL")
UNIT = ("a", "tuple", None, ())


class Summary:
    __slots__ = ("outs", "head_max", "first", "facts", "reads", "runs", "stray_err")

    def __init__(self):
        self.outs = {}        # (progressed, ret, S_out|None) -> (la_out, ntok, nodes)   (max-joined)
        self.head_max = 0     # look-aheads before the first consumption (relative to entry)
        self.first = frozenset()   # kinds that some path consumes as its first consumption
        self.stray_err = frozenset()   # kinds of the current token when error() runs right after a stray `}`
        self.facts = None
        self.reads = set()
        self.runs = 0


class CtxFacts:
    """what one context analysis observed (replaced when the context is re-analysed)"""
    __slots__ = ("panics", "loops", "noprog", "edges", "la_abs", "consume", "finish", "leaks", "unknown", "stray_errs")

    def __init__(self):
        self.panics = {}
        self.loops = {}
        self.noprog = set()
        self.edges = set()     # (callee ctx, caller's brace_open at the call)
        self.la_abs = (0, None)
        self.consume = {}
        self.finish = {}
        self.leaks = {}
        self.unknown = {}
        self.stray_errs = {}


class PEngine:
    state_limit = 400000

    def __init__(self, F, root="syntax::parser::module", singletons=False):
        self.F = F
        self.pure = Pure(F)
        self.root = root
        # exhaustive mode: split the kind set into single kinds at every first question about a new
        # token instead of refining it by partition (slow; used as a cross-check in the thorough tier)
        self.singletons = singletons
        a = F.adt(SK)
        self.all_kinds = [v["name"] for v in a["variants"]]
        va = F.units["syntax-rlib"].get("variant_attrs", [])
        self.lex_attrs = defaultdict(list)
        for e, v, txt in va:
            if e == "SyntaxKind":
                self.lex_attrs[v].append(txt)
        self.lex_kinds = [k for k in self.all_kinds if self.lex_attrs.get(k)]
        self.trivia = [k for k in self.all_kinds
                       if self.pure.call(SK + "::is_trivia", [("e", SK, k)]) == 1]
        self.universe = [k for k in self.lex_kinds if k not in self.trivia] + ["EOF"]
        self.ALL = frozenset(self.universe)
        # every Parser method that writes Parser.pos is a consuming leaf (modelled like bump: rules/parser_model.py
        # checks each of them for "+1 and one Advance"); a refactoring may add siblings of bump
        from . import effects as _EF
        self.movers = set()
        for p_, f_ in F.fns.items():
            if p_.startswith(PARSER) and f_.blocks and "{closure" not in p_:
                if any(e["field"] == "pos" and e["how"] == "assign" for e in _EF.field_effects(f_, PARSER[:-2])):
                    self.movers.add(p_)
        self.table = {}
        self.callers = defaultdict(set)
        self.queue = []
        self.queued = set()
        self.stack = []
        self.analyses = 0
        self.states_explored = 0
        self.loop_heads = {}
        self._live = {}
        self._uses = {}

    # ------------------------------------------------------------------ helpers
    def live_in(self, fn):
        r = self._live.get(fn.path)
        if r is None:
            r = liveness(fn)
            self._live[fn.path] = r
        return r

    def heads(self, fn):
        h = self.loop_heads.get(fn.path)
        if h is None:
            h = {s for _, s in fn.back_edges()}
            self.loop_heads[fn.path] = h
        return h

    def uses(self, fn, bb, i, rv):
        key = (fn.path, bb, i)
        r = self._uses.get(key)
        if r is None:
            r = set()
            rvalue_uses(rv, r)
            self._uses[key] = r
        return r

    # ------------------------------------------------------------------ driver
    def run(self):
        import threading
        sys.setrecursionlimit(100000)
        threading.stack_size(1024 * 1024 * 1024)
        err = []

        def body():
            try:
                self.get((self.root, self.ALL, (), "o0"), None)
                while self.queue:
                    ctx = self.queue.pop()
                    self.queued.discard(ctx)
                    self.update(ctx)
            except BaseException as e:  # noqa
                err.append(e)
        th = threading.Thread(target=body)
        th.start()
        th.join()
        if err:
            raise err[0]
        self.aggregate()
        return self

    def get(self, cctx, reader):
        if reader is not None:
            self.callers[cctx].add(reader)
        s = self.table.get(cctx)
        if s is None:
            s = Summary()
            s.facts = CtxFacts()
            self.table[cctx] = s
            self.update(cctx)
        return s

    def update(self, ctx):
        s = self.table[ctx]
        if ctx in self.stack:
            # being analysed further up: the running analysis will be repeated afterwards
            self.enqueue(ctx)
            return
        new = Summary()
        new.facts = CtxFacts()
        self.stack.append(ctx)
        try:
            self.analyse(ctx, new)
        finally:
            self.stack.pop()
        self.analyses += 1
        changed = (new.outs != s.outs) or (new.head_max != s.head_max) or (new.first != s.first) or \
            (new.stray_err != s.stray_err)
        s.outs, s.head_max, s.first, s.facts, s.reads = new.outs, new.head_max, new.first, new.facts, new.reads
        s.stray_err = new.stray_err
        s.runs += 1
        if changed:
            for c in self.callers.get(ctx, ()):
                self.enqueue(c)

    def enqueue(self, ctx):
        if ctx not in self.queued:
            self.queued.add(ctx)
            self.queue.append(ctx)

    # ------------------------------------------------------------------ one context
    def analyse(self, ctx, summ):
        fpath, S0, args, mode = ctx
        fn = self.F.fn(fpath)
        is_root = fpath == self.root
        env0 = {1: P}
        marks0 = ()
        for i, a in enumerate(args):
            if a == "MARK":
                env0[i + 2] = ("mo", "arg%d" % (i + 2))
                marks0 += ((("arg%d" % (i + 2)), 2, 1),)
            else:
                env0[i + 2] = a
        heads = self.heads(fn)
        # full state: (bb, S, env, prog, since, la, marks, ntok, nodes, brace_open, stray)
        # identity (key) = everything except the max-annotations (la, ntok, nodes, per-mark counts),
        # which are joined with max: they are only ever compared against upper bounds.
        start = (0, S0, tuple(sorted(env0.items())), False, frozenset(), 0, marks0, 0, 0, False,
                 1 if mode == "o1" else 0)
        table = {}
        work = []

        def push(st):
            bb, cur, envt, prog, since, la, marks, ntok, nodes, bo, sy = st
            key = (bb, cur, envt, prog, since, tuple(m[0] for m in marks), bo, sy)
            ann = (la, ntok, nodes, tuple((m[1], m[2]) for m in marks))
            old = table.get(key)
            if old is None:
                table[key] = ann
                work.append(key)
                return
            if old == ann:
                return
            j = (max(old[0], ann[0]), max(old[1], ann[1]), max(old[2], ann[2]),
                 tuple((max(a[0], b[0]), max(a[1], b[1])) for a, b in zip(old[3], ann[3])))
            if j != old:
                table[key] = j
                work.append(key)

        push(start)
        while work:
            key = work.pop()
            ann = table[key]
            bb, cur, envt, prog, since, mids, bo, sy = key
            st = (bb, cur, envt, prog, since, ann[0], tuple((i, a[0], a[1]) for i, a in zip(mids, ann[3])),
                  ann[1], ann[2], bo, sy)
            self.states_explored += 1
            if len(table) > self.state_limit:
                raise RuntimeError("state explosion in %s" % (ctx,))
            for nx in self.step(fn, ctx, st, summ, heads, is_root):
                push(nx)

    def counters(self, fn):
        """locals that are incremented / decremented from their own previous value (`l = l + c`, through the checked-add
        temporary and copies)"""
        c = self._counters.get(fn.path) if hasattr(self, "_counters") else None
        if c is not None:
            return c
        if not hasattr(self, "_counters"):
            self._counters = {}
        from .facts import op_local as _ol, op_place as _op
        copies = {}
        arith = {}
        for b, i, st in fn.stmts():
            if st["k"] != "assign" or st["place"]["p"]:
                continue
            rv, l = st["rv"], st["place"]["l"]
            if rv["k"] == "use":
                pl = _op(rv["op"])
                if pl is not None:
                    copies.setdefault(l, set()).add((pl["l"], bool(pl["p"])))
            elif rv["k"] == "bin" and rv["op"] in ("Add", "AddWithOverflow", "Sub", "SubWithOverflow"):
                arith[l] = {x for x in (_ol(rv["a"]), _ol(rv["b"])) if x is not None}
        out = set()
        for l, srcs in copies.items():
            for src, proj in srcs:
                if src in arith:
                    ops = set(arith[src])
                    # operands that are plain copies of l
                    for o in list(ops):
                        for s2, pr2 in copies.get(o, ()):
                            if not pr2:
                                ops.add(s2)
                    if l in ops:
                        out.add(l)
        for l, ops in arith.items():
            if l in ops:
                out.add(l)
        self._counters[fn.path] = out
        return out

    def split(self, st, groups):
        """re-enter the same block with the kind set partitioned into `groups` (iterable of sets)"""
        bb, S, envt, prog, since, la, marks, ntok, nodes, bo, sy = st
        out = []
        for g in groups:
            g = frozenset(g)
            if not g:
                continue
            envg = tuple((l, restrict(v, g)) for l, v in envt)
            out.append((bb, g, envg, prog, since, la, marks, ntok, nodes, bo, sy))
        return out

    def step(self, fn, ctx, st, summ, heads, is_root):
        bb, S, envt, prog, since0, la, marks, ntok, nodes, brace_open, stray = st
        facts = summ.facts
        since = since0
        if bb in heads:
            if bb in since:
                facts.loops.setdefault((fn.path, self.head_ordinal(fn, bb)),
                                       {"fn": fn.path, "line": fn.term(bb)["ln"], "kinds": sorted(S),
                                        "ctx": self.chain()})
                return []
            since = since | {bb}
        live_all = self.live_in(fn)
        live = live_all[bb]
        env = {l: v for l, v in envt if l in live}
        tabs = {l for l, v in env.items() if has_table(v)}
        blk = fn.blocks[bb]
        for i, s in enumerate(blk["stmts"]):
            k = s["k"]
            if k == "assign":
                pl = s["place"]
                ty = fn.local_ty(pl["l"]) if not pl["p"] else ""
                try:
                    if tabs and (self.uses(fn, bb, i, s["rv"]) & tabs):
                        v = mktable({kk: self.pure.rvalue(s["rv"], KEnv(env, kk), fn, ty) for kk in S})
                    else:
                        v = self.pure.rvalue(s["rv"], env, fn, ty)
                except Unsupported:
                    v = U
                if pl["p"]:
                    v = U
                if not pl["p"] and pl["l"] in self.counters(fn):
                    # a counter (`n = n + 1` in a loop) takes unboundedly many values: it is unknown, both sides of a test on
                    # it are explored
                    v = U
                env[pl["l"]] = v
                if has_table(v):
                    tabs.add(pl["l"])
                else:
                    tabs.discard(pl["l"])
            elif k == "dead":
                env.pop(s["l"], None)
                tabs.discard(s["l"])
        t = blk["term"]
        k = t["k"]

        def mk(nbb, S=S, env=env, prog=prog, since=since, la=la, marks=marks, ntok=ntok, nodes=nodes,
               brace_open=brace_open, stray=stray):
            lv = live_all[nbb]
            return (nbb, S, tuple(sorted((l, v) for l, v in env.items() if l in lv)), prog, since, la, marks,
                    ntok, nodes, brace_open, stray)

        def mk_group(nbb, g):
            g = frozenset(g)
            lv = live_all[nbb]
            return (nbb, g, tuple(sorted((l, restrict(v, g)) for l, v in env.items() if l in lv)), prog, since, la,
                    marks, ntok, nodes, brace_open, stray)

        if k == "goto" or k == "drop":
            return [mk(t["target"])]
        if k == "return":
            ret = env.get(0, UNIT)
            if has_table(ret):
                groups = defaultdict(set)
                for kk in S:
                    groups[inst(ret, kk)].add(kk)
                return self.split((bb, S, envt, prog, since0, la, marks, ntok, nodes, brace_open, stray), groups.values())
            for m in marks:
                facts.leaks.setdefault((fn.path, m[0]), {"fn": fn.path, "mark": m[0], "ctx": self.chain(),
                                                         "why": "still open at return", "line": t["ln"]})
            key = (prog, ret, None if prog else S, stray)
            old = summ.outs.get(key)
            new = (la, ntok, nodes) if old is None else (max(old[0], la), max(old[1], ntok), max(old[2], nodes))
            if new != old:
                summ.outs[key] = new
            return []
        if k == "switch":
            v = self.pure.operand(t["op"], env, fn)
            if is_table(v):
                groups = defaultdict(set)
                for kk, vv in v[1]:
                    if kk not in S:
                        continue
                    if isinstance(vv, int):
                        nxt = t["otherwise"]
                        for val, tgt in t["targets"]:
                            if val == vv:
                                nxt = tgt
                        groups[(nxt,)].add(kk)
                    else:
                        groups[tuple(fn.succ(bb))].add(kk)
                out = []
                for tg, g in groups.items():
                    for nb in tg:
                        out.append(mk_group(nb, g))
                return out
            if isinstance(v, int):
                nxt = t["otherwise"]
                for val, tgt in t["targets"]:
                    if val == v:
                        nxt = tgt
                return [mk(nxt)]
            return [mk(s) for s in fn.succ(bb)]
        if k == "assert":
            v = self.pure.operand(t["cond"], env, fn)
            if is_table(v):
                ok = {kk for kk, vv in v[1] if kk in S and not (isinstance(vv, int) and bool(vv) != t["expected"])}
                bad = S - ok
                if bad:
                    self.panic(facts, fn, bb, t, bad, "MIR assert %s fails" % t["msg"])
                return [mk_group(t["target"], ok)] if ok else []
            if isinstance(v, int) and bool(v) != t["expected"]:
                self.panic(facts, fn, bb, t, S, "MIR assert %s fails" % t["msg"])
                return []
            return [mk(t["target"])]
        if k == "unreachable":
            return []
        if k != "call":
            raise Unsupported("terminator %s in %s" % (k, fn.path))
        return self.call(fn, ctx, st, t, env, mk, mk_group, summ, is_root)

    def chain(self):
        return ["%s%s" % (c[0].rsplit("::", 1)[-1], self.sname(c[1])) for c in self.stack[-12:]]

    def sname(self, S):
        if len(S) <= 3:
            return "[%s]" % ",".join(sorted(S))
        if S == self.ALL:
            return "[*]"
        if len(S) >= len(self.ALL) - 3:
            return "[*-%s]" % ",".join(sorted(self.ALL - S))
        return "[%d kinds]" % len(S)

    def panic(self, facts, fn, bb, t, kinds, why):
        key = (fn.path, callee(t) or callee_def(t) or "assert", self.site_ordinal(fn, bb))
        info = facts.panics.setdefault(key, {"fn": fn.path, "line": t["ln"], "why": why, "kinds": set(),
                                             "ctx": self.chain(), "mac": t.get("mac")})
        info["kinds"] |= set(kinds)

    def site_ordinal(self, fn, bb):
        """ordinal of block bb among the call sites of fn with the same callee (position-free key)"""
        t = fn.term(bb)
        c = callee(t) or callee_def(t)
        n = 0
        for b, t2 in fn.calls():
            if b == bb:
                return n
            if (callee(t2) or callee_def(t2)) == c:
                n += 1
        return n

    def head_ordinal(self, fn, bb):
        return sorted(self.heads(fn)).index(bb)

    # ------------------------------------------------------------------ calls
    def pure_call(self, name, t, args):
        r = self.pure.builtin(name, args)
        if r is None and callee_def(t) and callee_def(t) != name:
            r = self.pure.builtin(callee_def(t), args)
        if r is None:
            if any(has_unknown(a) for a in args):
                return U
            if name in self.F.fns and self.F.fns[name].blocks:
                return self.pure.call(name, args)
            raise Unsupported("no model for " + name)
        return r

    def call(self, fn, ctx, st, t, env, mk, mk_group, summ, is_root):
        bb, S, envt, prog, since0, la, marks, ntok, nodes, brace_open, stray = st
        facts = summ.facts
        name = callee(t) or callee_def(t) or ""
        args = [self.pure.operand(a, env, fn) for a in t["args"]]
        dest = t["dest"]["l"]
        tgt = t["target"]

        def ret(v, **kw):
            e2 = dict(env)
            e2[dest] = v
            return mk(tgt, env=e2, **kw)

        if tgt is None:
            # diverging call: the failure branch of assert!/panic! is reachable in this context
            msg = ""
            for a in args:
                if isinstance(a, tuple) and a[0] == "s":
                    msg = a[1]
            self.panic(facts, fn, bb, t, S, "reaches %s(%r)" % (name.rsplit("::", 1)[-1], msg))
            return []

        tabargs = any(has_table(a) for a in args)
        if not any(a == P for a in args):
            try:
                if tabargs:
                    res, bad = {}, set()
                    for kk in S:
                        try:
                            res[kk] = self.pure_call(name, t, [inst(a, kk) for a in args])
                        except EvalPanic:
                            bad.add(kk)
                    if bad:
                        self.panic(facts, fn, bb, t, bad, "helper %s panics" % name)
                        if not res:
                            return []
                        g = frozenset(res)
                        e2 = {l: restrict(v, g) for l, v in env.items()}
                        e2[dest] = mktable(res)
                        return [mk(tgt, S=g, env=e2)]
                    r = mktable(res)
                else:
                    r = self.pure_call(name, t, args)
            except Unsupported:
                r = U
                facts.unknown[name] = fn.loc(t["ln"])
            except EvalPanic as e:
                self.panic(facts, fn, bb, t, S, "helper panics: %s" % e)
                return []
            return [ret(r)]

        if tabargs:
            # arguments of a parser call must not depend on the current kind: partition first
            groups = defaultdict(set)
            for kk in S:
                groups[tuple(inst(a, kk) for a in args)].add(kk)
            return self.split((bb, S, envt, prog, since0, la, marks, ntok, nodes, brace_open, stray), groups.values())

        leaf = name[len(PARSER):] if name.startswith(PARSER) and name[len(PARSER):] in LEAVES else None
        if leaf is None and name in self.movers:
            leaf = "bump"
        if self.singletons and len(S) > 1 and (leaf in ("nth", "eof", "bump") or leaf is None):
            return self.split((bb, S, envt, prog, since0, la, marks, ntok, nodes, brace_open, stray), [[k2] for k2 in sorted(S)])
        if leaf == "nth":
            la2 = la + 1
            if prog or is_root:
                if la2 > facts.la_abs[0]:
                    facts.la_abs = (la2, {"fn": fn.path, "line": t["ln"], "ctx": self.chain()})
            elif la2 > summ.head_max:
                summ.head_max = la2
            v = mktable({kk: ("e", SK, kk) for kk in S}) if args[1] == 0 else U
            return [ret(v, la=la2)]
        if leaf == "eof":
            return [ret(mktable({kk: int(kk == "EOF") for kk in S}))]
        if leaf == "error":
            if stray:
                summ.stray_err = summ.stray_err | S
                self.note_stray_err(facts, fn, bb, t, S, None)
            return [ret(UNIT)]
        if leaf == "bump":
            if "EOF" in S:
                self.panic(facts, fn, bb, t, {"EOF"}, "bump() at end of input: assert!(!self.eof()) fails")
                if S == {"EOF"}:
                    return []
                return self.split((bb, S, envt, prog, since0, la, marks, ntok, nodes, brace_open, stray), [S - {"EOF"}])
            # values that still depend on the token about to be consumed must be made concrete
            lv = self.live_in(fn)[tgt]
            dep = [v for l, v in env.items() if l in lv and has_table(v)]
            if dep:
                groups = defaultdict(set)
                for kk in S:
                    groups[tuple(inst(v, kk) for v in dep)].add(kk)
                if len(groups) > 1:
                    return self.split((bb, S, envt, prog, since0, la, marks, ntok, nodes, brace_open, stray), groups.values())
            # stray closer: a `}` consumed while no `{..}` region is open anywhere on the call stack
            oob = ctx[3] != "i" and not brace_open
            if oob and "R_BRACE" in S and len(S) > 1:
                return self.split((bb, S, envt, prog, since0, la, marks, ntok, nodes, brace_open, stray),
                                  [{"R_BRACE"}, S - {"R_BRACE"}])
            self.note_consume(facts, fn, bb, t, S, None, brace_open, stray)
            if not prog:
                summ.first = summ.first | S
            m2 = tuple((i, min(n_ + 1, 2), c) for i, n_, c in marks)
            e2 = {l: restrict(v, S) for l, v in env.items()}
            e2[dest] = UNIT
            return [mk(tgt, S=self.ALL, env=e2, prog=True, since=frozenset(), la=0, marks=m2,
                       ntok=min(ntok + 1, 2), stray=1 if (oob and S == {"R_BRACE"}) else 0)]
        if leaf in ("start_node", "start_node_before"):
            mid = "m%d" % self.site_ordinal(fn, bb) + ("b" if leaf.endswith("before") else "")
            if any(m[0] == mid for m in marks):
                facts.leaks.setdefault((fn.path, mid), {"fn": fn.path, "mark": mid, "ctx": self.chain(),
                                                        "why": "re-created while still open", "line": t["ln"]})
                return []
            init = (mid, 0, 0) if leaf == "start_node" else (mid, 2, 1)
            return [ret(("mo", mid), marks=tuple(sorted(marks + (init,))))]
        if leaf == "finish_node":
            m = args[1]
            kind = args[2][2] if isinstance(args[2], tuple) and args[2][0] == "e" else None
            mid = m[1] if isinstance(m, tuple) and m[0] == "mo" else None
            cur_m = [x for x in marks if x[0] == mid]
            if not cur_m:
                facts.leaks.setdefault((fn.path, "finish%d" % self.site_ordinal(fn, bb)),
                                       {"fn": fn.path, "mark": str(mid), "ctx": self.chain(), "line": t["ln"],
                                        "why": "finish_node on a mark that is not open"})
                return []
            _, mt, mc = cur_m[0]
            key = (fn.path, kind, self.site_ordinal(fn, bb))
            d = facts.finish.setdefault(key, {"fn": fn.path, "line": t["ln"], "kind": kind, "tok": 0, "child": 0})
            d["tok"] = max(d["tok"], mt)
            d["child"] = max(d["child"], mc)
            m2 = tuple((i, n_, 1) for i, n_, c in marks if i != mid)
            return [ret(("mc",), marks=m2, nodes=1)]

        # ---- summarised parser function
        if name not in self.F.fns or not self.F.fns[name].blocks:
            facts.unknown[name] = fn.loc(t["ln"])
            return [ret(U)]
        # values that depend on the current kind and survive the call must be concrete if the callee
        # may consume; cheap approximation: partition now whenever such values are live afterwards
        lv = self.live_in(fn)[tgt]
        dep = [v for l, v in env.items() if l in lv and has_table(v)]
        if dep:
            groups = defaultdict(set)
            for kk in S:
                groups[tuple(inst(v, kk) for v in dep)].add(kk)
            if len(groups) > 1:
                return self.split((bb, S, envt, prog, since0, la, marks, ntok, nodes, brace_open, stray), groups.values())
        cargs = []
        passed = []
        for a in args[1:] if args and args[0] == P else args:
            if isinstance(a, tuple) and a[0] == "mo":
                cargs.append("MARK")
                passed.append(a[1])
            else:
                cargs.append(a)
        marks_c = tuple(x for x in marks if x[0] not in passed)
        cmode = "i" if (ctx[3] == "i" or brace_open) else ("o1" if stray else "o0")
        cctx = (name, S, tuple(cargs), cmode)
        facts.edges.add((cctx, brace_open))
        if not prog:
            facts.noprog.add(cctx)
        summ.reads.add(cctx)
        s = self.get(cctx, ctx)
        if s.head_max:
            hm = la + s.head_max
            if prog or is_root:
                if hm > facts.la_abs[0]:
                    facts.la_abs = (hm, {"fn": fn.path, "line": t["ln"], "ctx": self.chain() + [name]})
            elif hm > summ.head_max:
                summ.head_max = hm
        short = name[len(PARSER):] if name.startswith(PARSER) else None
        karg = args[1][2] if len(args) > 1 and isinstance(args[1], tuple) and args[1][0] == "e" else None
        if s.stray_err and short is not None:
            # a Parser method (expect, bump_with_error, ..) reported an error while the last consumed token was a
            # stray `}`: attributed to the grammar function that asked for it
            summ.stray_err = summ.stray_err | s.stray_err
            self.note_stray_err(facts, fn, bb, t, s.stray_err, karg)
        if s.first:
            if short in CONSUMERS:
                self.note_consume(facts, fn, bb, t, s.first, karg, brace_open, stray)
            if not prog:
                summ.first = summ.first | s.first
        out = []
        for (cprog, cret, S_out, cstray), (cla, cntok, cnodes) in sorted(s.outs.items(), key=repr):
            bo = brace_open
            if is_root or cmode == "i":
                cstray = 0      # back at the top-level dispatcher loop / inside a brace region
            if short in ("eat", "expect") and karg == "R_BRACE":
                bo = False
            if cprog:
                if short in ("eat", "expect") and karg == "L_BRACE":
                    bo = True
                m2 = tuple((i, min(n_ + cntok, 2), 1 if cnodes else c) for i, n_, c in marks_c)
                # look-aheads the callee made after its last consumption are NOT carried over
                # (P4 measures one activation plus callee heads; return-path accumulation is P5b)
                e2 = {l: restrict(v, S) for l, v in env.items()}
                e2[dest] = cret
                out.append(mk(tgt, S=self.ALL, env=e2, prog=True, since=frozenset(), la=0, marks=m2,
                              ntok=min(ntok + cntok, 2), nodes=1 if (nodes or cnodes) else 0, brace_open=bo,
                              stray=cstray))
            else:
                m2 = tuple((i, n_, 1 if cnodes else c) for i, n_, c in marks_c)
                e2 = {l: restrict(v, S_out) for l, v in env.items()}
                e2[dest] = cret
                out.append(mk(tgt, S=S_out, env=e2, la=la + cla, marks=m2,
                              nodes=1 if (nodes or cnodes) else 0, brace_open=bo, stray=0 if is_root else stray))
        return out

    def note_stray_err(self, facts, fn, bb, t, kinds, karg):
        if fn.path.startswith(PARSER):
            return
        name = (callee(t) or "").rsplit("::", 1)[-1]
        key = (fn.path, name, karg, self.site_ordinal(fn, bb))
        d = facts.stray_errs.setdefault(key, {"fn": fn.path, "line": t["ln"], "callee": name, "karg": karg,
                                              "kinds": set(), "ctx": self.chain()})
        d["kinds"] |= set(kinds)

    def note_consume(self, facts, fn, bb, t, kinds, karg, brace_open, stray=0):
        if fn.path.startswith(PARSER):
            return   # attributed to the grammar function that asked for it
        name = (callee(t) or "").rsplit("::", 1)[-1]
        key = (fn.path, name, karg, self.site_ordinal(fn, bb))
        d = facts.consume.setdefault(key, {"fn": fn.path, "line": t["ln"], "callee": name, "karg": karg,
                                           "kinds": set(), "kinds_open": set(), "ctx": None,
                                           "after_stray": set(), "stray_ctx": None})
        d["kinds"] |= set(kinds)
        if stray:
            # the token consumed here directly follows a `}` that was consumed outside every brace
            # region, and the parser has not been back at the top-level dispatcher since
            d["after_stray"] |= set(kinds)
            if d["stray_ctx"] is None:
                d["stray_ctx"] = self.chain()
        if brace_open:
            d["kinds_open"] |= set(kinds)
        if "R_BRACE" in kinds and d["ctx"] is None:
            d["ctx"] = self.chain()

    # ------------------------------------------------------------------ results
    def aggregate(self):
        T = self.table
        # contexts reachable from the root through the final summaries
        reach = set()
        st = [(self.root, self.ALL, (), "o0")]
        while st:
            c = st.pop()
            if c in reach or c not in T:
                continue
            reach.add(c)
            for cc, _ in T[c].facts.edges:
                st.append(cc)
        self.contexts = reach
        # in_brace(ctx): some call path from the root passes a call made while a `{`..`}` region of a
        # brace owner was open
        inb = set()
        st = []
        for c in reach:
            for cc, bo in T[c].facts.edges:
                if bo:
                    st.append(cc)
        while st:
            c = st.pop()
            if c in inb or c not in T:
                continue
            inb.add(c)
            for cc, _ in T[c].facts.edges:
                st.append(cc)
        self.in_brace = inb
        self.panic_sites, self.loop_viol, self.leak_sites = {}, {}, {}
        self.finish_sites, self.consume_sites, self.unknown_calls = {}, {}, {}
        self.stray_err_sites = {}
        self.la_abs = (0, None)
        self.noprog_edges = {}
        for c in sorted(reach, key=repr):
            f = T[c].facts
            for k, v in f.panics.items():
                d = self.panic_sites.setdefault(k, dict(v, kinds=set()))
                d["kinds"] |= v["kinds"]
            for k, v in f.loops.items():
                self.loop_viol.setdefault(k, v)
            for k, v in f.leaks.items():
                self.leak_sites.setdefault(k, v)
            for k, v in f.finish.items():
                d = self.finish_sites.setdefault(k, dict(v))
                d["tok"] = max(d["tok"], v["tok"])
                d["child"] = max(d["child"], v["child"])
            for k, v in f.consume.items():
                d = self.consume_sites.setdefault(k, {"fn": v["fn"], "line": v["line"], "callee": v["callee"],
                                                      "karg": v["karg"], "kinds": set(), "brace_kinds": set(),
                                                      "ctx": None, "open_kinds": set(), "stolen": set(),
                                                      "after_stray": set(), "stray_ctx": None})
                d["kinds"] |= v["kinds"]
                d["after_stray"] |= v["after_stray"]
                if v["stray_ctx"] and d["stray_ctx"] is None:
                    d["stray_ctx"] = v["stray_ctx"]
                d["open_kinds"] |= v["kinds_open"]
                inside = set(v["kinds_open"]) | (set(v["kinds"]) if c in inb else set())
                d["brace_kinds"] |= inside
                # a brace owner closing its own region: expect/eat(`}`) while its `{` is open
                own = v["callee"] in ("eat", "expect") and v["karg"] == "R_BRACE"
                steal = (set(v["kinds"]) - set(v["kinds_open"]) if c in inb else set()) if own else inside
                if "R_BRACE" in steal:
                    d["stolen"].add("R_BRACE")
                    if d["ctx"] is None:
                        d["ctx"] = v["ctx"]
            for k, v in f.stray_errs.items():
                d = self.stray_err_sites.setdefault(k, dict(v, kinds=set()))
                d["kinds"] |= v["kinds"]
            self.unknown_calls.update(f.unknown)
            if f.la_abs[0] > self.la_abs[0]:
                self.la_abs = f.la_abs
            if f.noprog:
                self.noprog_edges[c] = set(f.noprog)
        # tails: look-aheads after the last consumption before returning, per function
        self.tails = {}
        for c in reach:
            for (prog, _, _, _), (la, _, _) in T[c].outs.items():
                if prog and la > self.tails.get(c[0], (0, None))[0]:
                    self.tails[c[0]] = (la, c)

    def noprog_cycles(self):
        """cycles among contexts through calls made before any consumption (unbounded recursion)"""
        g = self.noprog_edges
        color = {}
        cyc = []
        for root in sorted(g, key=repr):
            if color.get(root) is not None:
                continue
            path = [root]
            its = [iter(sorted(g.get(root, ()), key=repr))]
            color[root] = 1
            while its:
                try:
                    v = next(its[-1])
                except StopIteration:
                    color[path.pop()] = 2
                    its.pop()
                    continue
                if v not in self.contexts:
                    continue
                if color.get(v) == 1:
                    cyc.append(path[path.index(v):] + [v])
                elif color.get(v) is None:
                    color[v] = 1
                    path.append(v)
                    its.append(iter(sorted(g.get(v, ()), key=repr)))
        return cyc

    def recursive_functions(self):
        """SCCs (size>1 or self-loop) of the function-level call graph of the reachable contexts"""
        g = defaultdict(set)
        for c in self.contexts:
            for cc, _ in self.table[c].facts.edges:
                g[c[0]].add(cc[0])
        nodes = sorted(set(g) | {w for v in g.values() for w in v})
        # Kosaraju, iterative
        order, seen = [], set()
        for s0 in nodes:
            if s0 in seen:
                continue
            st = [(s0, iter(sorted(g.get(s0, ()))))]
            seen.add(s0)
            while st:
                v, it = st[-1]
                adv = False
                for w in it:
                    if w not in seen:
                        seen.add(w)
                        st.append((w, iter(sorted(g.get(w, ())))))
                        adv = True
                        break
                if not adv:
                    order.append(v)
                    st.pop()
        rg = defaultdict(set)
        for v, ws in g.items():
            for w in ws:
                rg[w].add(v)
        comp, out = {}, []
        for v in reversed(order):
            if v in comp:
                continue
            members = []
            st = [v]
            comp[v] = v
            while st:
                x = st.pop()
                members.append(x)
                for w in rg.get(x, ()):
                    if w not in comp:
                        comp[w] = v
                        st.append(w)
            if len(members) > 1 or v in g.get(v, ()):
                out.append(sorted(members))
        return out
