"""Loader for glasfacts JSON + CFG / call-graph utilities (stdlib only)."""
import json
import os
from collections import defaultdict, deque

from . import extract as X


class Fn:
    __slots__ = ("d", "path", "unit", "blocks", "kind", "_succ", "_pred", "_dom", "_reach")

    def __init__(self, d, unit):
        self.d = d
        self.path = d["path"]
        self.unit = unit
        self.blocks = d.get("blocks", [])
        self.kind = d["kind"]
        self._succ = None
        self._pred = None
        self._dom = None
        self._reach = None

    # ---- basic info
    @property
    def file(self):
        return self.d["span"]["file"]

    @property
    def line(self):
        return self.d["span"]["lo"]

    def loc(self, ln=None):
        return "%s:%d" % (self.file, ln if ln else self.line)

    @property
    def name(self):
        return self.d.get("name") or self.path.rsplit("::", 1)[-1]

    def local_ty(self, l):
        return self.d["locals"][l]["ty"]

    def debug_name(self, l):
        for v in self.d.get("debug", []):
            if v["place"]["l"] == l and not v["place"]["p"]:
                return v["name"]
        return None

    def local_by_name(self, name):
        return [v["place"]["l"] for v in self.d.get("debug", [])
                if v["name"] == name and not v["place"]["p"]]

    # ---- CFG (normal edges only; cleanup blocks are excluded)
    def term(self, bb):
        return self.blocks[bb]["term"]

    def succ(self, bb):
        if self._succ is None:
            self._build()
        return self._succ[bb]

    def pred(self, bb):
        if self._pred is None:
            self._build()
        return self._pred[bb]

    def _build(self):
        n = len(self.blocks)
        self._succ = [[] for _ in range(n)]
        self._pred = [[] for _ in range(n)]
        for i, b in enumerate(self.blocks):
            if b["cleanup"]:
                continue
            t = b["term"]
            k = t["k"]
            out = []
            if k in ("goto", "drop", "assert", "yield"):
                out = [t["target"]]
            elif k == "call":
                if t["target"] is not None:
                    out = [t["target"]]
            elif k == "switch":
                out = [x[1] for x in t["targets"]] + [t["otherwise"]]
            seen = []
            for s in out:
                if s not in seen:
                    seen.append(s)
            self._succ[i] = seen
            for s in seen:
                self._pred[s].append(i)

    def reachable(self):
        if self._reach is None:
            if not self.blocks:
                self._reach = set()
                return self._reach
            seen = {0}
            q = deque([0])
            while q:
                b = q.popleft()
                for s in self.succ(b):
                    if s not in seen:
                        seen.add(s)
                        q.append(s)
            self._reach = seen
        return self._reach

    def dominators(self):
        """dom[b] = set of blocks dominating b (including b)."""
        if self._dom is None:
            reach = sorted(self.reachable())
            allb = set(reach)
            dom = {b: set(allb) for b in reach}
            dom[0] = {0}
            changed = True
            while changed:
                changed = False
                for b in reach:
                    if b == 0:
                        continue
                    ps = [p for p in self.pred(b) if p in allb]
                    new = set(allb)
                    for p in ps:
                        new &= dom[p]
                    new.add(b)
                    if new != dom[b]:
                        dom[b] = new
                        changed = True
            self._dom = dom
        return self._dom

    def dominates(self, a, b):
        return a in self.dominators().get(b, ())

    def return_blocks(self):
        return [b for b in self.reachable() if self.term(b)["k"] == "return"]

    def can_reach(self, a, targets, avoid=()):
        """Is some block of `targets` reachable from a (through >=0 edges) avoiding `avoid`?"""
        targets = set(targets)
        avoid = set(avoid)
        seen = {a}
        q = deque([a])
        while q:
            b = q.popleft()
            if b in targets:
                return True
            for s in self.succ(b):
                if s not in seen and s not in avoid:
                    seen.add(s)
                    q.append(s)
        return False

    def back_edges(self):
        dom = self.dominators()
        out = []
        for b in self.reachable():
            for s in self.succ(b):
                if s in dom[b]:
                    out.append((b, s))
        return out

    def natural_loop(self, tail, head):
        body = {head, tail}
        st = [tail]
        while st:
            b = st.pop()
            if b == head:
                continue
            for p in self.pred(b):
                if p not in body and p in self.reachable():
                    body.add(p)
                    st.append(p)
        return body

    # ---- calls
    def calls(self, reachable_only=True):
        rs = self.reachable() if reachable_only else range(len(self.blocks))
        for b in sorted(rs):
            t = self.blocks[b]["term"]
            if t["k"] == "call":
                yield b, t

    def stmts(self, reachable_only=True):
        rs = self.reachable() if reachable_only else range(len(self.blocks))
        for b in sorted(rs):
            for i, s in enumerate(self.blocks[b]["stmts"]):
                yield b, i, s


def _place_uses(p, out):
    out.add(p["l"])
    for e in p["p"]:
        if isinstance(e, dict) and "i" in e:
            out.add(e["i"])


def _op_uses(op, out):
    for k in ("cp", "mv"):
        if k in op:
            _place_uses(op[k], out)


def rvalue_uses(rv, out):
    for key in ("op", "a", "b"):
        if key in rv and isinstance(rv[key], dict):
            _op_uses(rv[key], out)
    if "place" in rv:
        _place_uses(rv["place"], out)
    for o in rv.get("ops", []):
        _op_uses(o, out)


def liveness(fn):
    """live-in sets of locals per block (backward may-analysis on the normal CFG)."""
    n = len(fn.blocks)
    use = [set() for _ in range(n)]
    kill = [set() for _ in range(n)]
    for b in fn.reachable():
        blk = fn.blocks[b]
        u, d = set(), set()
        def use_(s_):
            for x in s_:
                if x not in d:
                    u.add(x)
        for s in blk["stmts"]:
            if s["k"] == "assign":
                tmp = set()
                rvalue_uses(s["rv"], tmp)
                pl = s["place"]
                if pl["p"]:
                    _place_uses(pl, tmp)
                use_(tmp)
                if not pl["p"]:
                    d.add(pl["l"])
            elif s["k"] == "setdiscr":
                tmp = set()
                _place_uses(s["place"], tmp)
                use_(tmp)
        t = blk["term"]
        tmp = set()
        if t["k"] == "call":
            for a in t["args"]:
                _op_uses(a, tmp)
            if "fnop" in t:
                _op_uses(t["fnop"], tmp)
            if t["dest"]["p"]:
                _place_uses(t["dest"], tmp)
            use_(tmp)
            if not t["dest"]["p"]:
                d.add(t["dest"]["l"])
        elif t["k"] == "switch":
            _op_uses(t["op"], tmp)
            use_(tmp)
        elif t["k"] == "assert":
            _op_uses(t["cond"], tmp)
            use_(tmp)
        elif t["k"] == "drop":
            _place_uses(t["place"], tmp)
            use_(tmp)
        elif t["k"] == "return":
            use_({0})
        use[b], kill[b] = u, d
    live_in = [set() for _ in range(n)]
    changed = True
    order = sorted(fn.reachable(), reverse=True)
    while changed:
        changed = False
        for b in order:
            out = set()
            for s in fn.succ(b):
                out |= live_in[s]
            new = use[b] | (out - kill[b])
            if new != live_in[b]:
                live_in[b] = new
                changed = True
    return live_in


def callee(t):
    """Best name for a call terminator's target: resolved instance, else declared item."""
    f = t.get("fn")
    if not f:
        return None
    return f.get("res") or f.get("def")


def callee_def(t):
    f = t.get("fn")
    return f.get("def") if f else None


def op_local(op):
    """Local of a plain copy/move operand (no projection), else None."""
    for k in ("cp", "mv"):
        if k in op:
            p = op[k]
            if not p["p"]:
                return p["l"]
    return None


def op_place(op):
    for k in ("cp", "mv"):
        if k in op:
            return op[k]
    return None


def op_const(op):
    return op.get("k")


def fingerprint(F, f):
    """what identifies a function apart from its name: parameter and result types, and the set of things it calls"""
    import re as _re
    cs = set()
    own = f.path.rsplit("::", 1)[-1]
    for q in F.with_closures(f.path):
        g = F.fns.get(q)
        if g is None:
            continue
        for b, t in g.calls():
            c = callee(t) or callee_def(t) or "?"
            c = _re.sub(r"<[^<>]*>", "", c)
            c = "::".join(c.split("::")[-2:])
            cs.add("<self>" if c.endswith("::" + own) or c == own else c)
    ks = set()
    for q in F.with_closures(f.path):
        g = F.fns.get(q)
        if g is None:
            continue
        for op in all_operands(g):
            k = op.get("k") if isinstance(op, dict) else None
            if isinstance(k, dict):
                if k.get("variant"):
                    ks.add(str(k["variant"]))
                elif "str" in k:
                    ks.add("s:" + str(k["str"])[:24])
        for b, i, s_ in g.stmts():
            rv = s_.get("rv") or {}
            if rv.get("k") == "agg" and rv.get("variant") and not rv.get("ops"):
                ks.add(str(rv["variant"]))
    return {"sig": [f.d.get("inputs", []), f.d.get("output")], "callees": sorted(cs), "consts": sorted(ks)}


class Facts:
    def __init__(self, directory, info=None, aliases=True):
        self.dir = directory
        self.info = info or {}
        self.renamed = {}          # reviewed name -> current name, for functions recognised as renamed/moved
        self._load(directory, {})
        if aliases:
            al = self._aliases()
            if al:
                self.renamed = al
                self._load(directory, {new: old for old, new in al.items()})

    def _aliases(self):
        """functions of the reviewed tree that are gone, matched to new functions with the same signature and callees"""
        here = os.path.dirname(os.path.dirname(os.path.abspath(__file__)))
        fpp = os.path.join(here, "rules", "fingerprints.json")
        if not os.path.exists(fpp):
            return {}
        with open(fpp) as fh:
            ref = json.load(fh)
        cur = {p: f for p, f in self.fns.items() if f.blocks and "{closure" not in p and not p.startswith("[bin]")}
        missing = [p for p in ref if p not in cur]
        fresh = [p for p in cur if p not in ref]
        if not missing or not fresh:
            return {}
        fps = {p: fingerprint(self, cur[p]) for p in fresh}
        scored = []
        for m in missing:
            crate = m.lstrip("<").split("::", 1)[0]
            a = set(ref[m]["callees"])
            for q in fresh:
                if q.lstrip("<").split("::", 1)[0] != crate or fps[q]["sig"] != ref[m]["sig"]:
                    continue
                b = set(fps[q]["callees"])
                j = len(a & b) / len(a | b) if (a | b) else 1.0
                ka, kb = set(ref[m].get("consts", [])), set(fps[q].get("consts", []))
                if ka or kb:
                    j = (j + len(ka & kb) / len(ka | kb)) / 2
                scored.append((j, m, q))
        scored.sort(reverse=True)
        out, used = {}, set()
        for j, m, q in scored:
            if j < 0.8 or m in out or q in used:
                continue
            # ambiguous: another unused candidate for m nearly as good
            rivals = [j2 for j2, m2, q2 in scored if m2 == m and q2 != q and q2 not in used and j2 > j - 0.2]
            if rivals:
                continue
            out[m] = q
            used.add(q)
        return out

    def _load(self, directory, subst):
        import re as _re
        self.units = {}
        self.fns = {}
        self.adts = {}
        self.consts = {}
        self.statics = {}
        self.impls = []
        self.traits = {}
        for u in X.UNITS:
            with open(os.path.join(directory, u + ".json")) as fh:
                txt = fh.read()
            # a renamed function is given back the name it was reviewed under, everywhere (definition, closures, call sites)
            for new, old in sorted(subst.items(), key=lambda kv: -len(kv[0])):
                txt = _re.sub(_re.escape(json.dumps(new)[1:-1]) + r"(?![A-Za-z0-9_])", lambda m_, old=old: json.dumps(old)[1:-1], txt)
            d = json.loads(txt)
            self.units[u] = d
            is_bin = u.endswith("executable")
            for f in d["fns"]:
                if is_bin:
                    f["path"] = "[bin]" + f["path"]
                self.fns[f["path"]] = Fn(f, u)
            for a in d["adts"]:
                self.adts[("[bin]" if is_bin else "") + a["path"]] = a
            for c in d["consts"]:
                self.consts[("[bin]" if is_bin else "") + c["path"]] = c
            for s in d["statics"]:
                self.statics[("[bin]" if is_bin else "") + s["path"]] = s
            for i in d["impls"]:
                i["unit"] = u
                self.impls.append(i)
            for t in d["traits"]:
                self.traits[t["path"]] = t
        self._cg = None
        self._rcg = None
        self._closures_of = None

    @classmethod
    def current(cls, aliases=True):
        d, info = X.extract()
        return cls(d, info, aliases)

    def fn(self, path):
        f = self.fns.get(path)
        if f is None:
            raise AnchorMissing(path)
        return f

    def has_fn(self, path):
        return path in self.fns

    def fns_in(self, prefix):
        return [f for p, f in self.fns.items() if p.startswith(prefix)]

    def adt(self, path):
        a = self.adts.get(path)
        if a is None:
            raise AnchorMissing(path)
        return a

    def variants(self, path):
        return [v["name"] for v in self.adt(path)["variants"]]

    def discr_map(self, path):
        return {int(v["discr"]): v["name"] for v in self.adt(path)["variants"] if v["discr"] is not None}

    def const_bits(self, path):
        c = self.consts.get(path)
        if c is None or "bits" not in c:
            raise AnchorMissing(path)
        return int(c["bits"])

    # ---- closures
    def closures_of(self, path):
        if self._closures_of is None:
            m = defaultdict(list)
            for p, f in self.fns.items():
                if f.kind == "Closure":
                    par = f.d.get("direct_parent")
                    if f.unit.endswith("executable"):
                        par = "[bin]" + par
                    m[par].append(p)
            self._closures_of = m
        return self._closures_of.get(path, [])

    def with_closures(self, path):
        """path plus all closures (transitively) defined inside it."""
        out = [path]
        st = [path]
        while st:
            p = st.pop()
            for c in self.closures_of(p):
                out.append(c)
                st.append(c)
        return out

    def with_helpers(self, path, depth=2, stop=()):
        """path, its closures, and the functions of the same crate it calls (their closures too), `depth` call levels
        deep. For rules of the form "f does X": a maintainer may move X into a helper that f calls. `stop`: paths
        (or prefixes) not to descend into (functions that are anchors of their own)."""
        crate = path.lstrip("<").split("::", 1)[0]
        out, seen = [], set()
        frontier = [(path, 0)]
        while frontier:
            p, lvl = frontier.pop(0)
            for q in self.with_closures(p):
                if q in seen:
                    continue
                seen.add(q)
                out.append(q)
                f = self.fns.get(q)
                if f is None or not f.blocks or lvl >= depth:
                    continue
                for b, t in f.calls():
                    for tg in self.call_targets(f, t):
                        g = self.fns.get(tg)
                        if g is None or not g.blocks or tg in seen:
                            continue
                        if tg.lstrip("<").split("::", 1)[0] != crate or any(tg == s_ or tg.startswith(s_) for s_ in stop):
                            continue
                        frontier.append((tg, lvl + 1))
        return out

    # ---- call graph
    def impl_methods(self, trait, name):
        out = []
        for p, f in self.fns.items():
            if f.d.get("impl_trait") == trait and f.name == name:
                out.append(p)
        return out

    def call_targets(self, fn, t):
        """Workspace-local functions a call terminator may enter (over-approximation)."""
        f = t.get("fn")
        if not f:
            return []
        pre = "[bin]" if fn.unit.endswith("executable") else ""
        res = f.get("res")
        out = []
        if res and f.get("resk") != "virtual":
            for cand in (pre + res, res):
                if cand in self.fns:
                    out.append(cand)
                    break
        else:
            tr = f.get("trait")
            if tr:
                name = f["def"].rsplit("::", 1)[-1]
                out.extend(self.impl_methods(tr, name))
                # default method body in the trait itself
                if f["def"] in self.fns:
                    out.append(f["def"])
        # salsa: QueryTable::<Q>::get etc. enter <Q as QueryFunction>::execute
        d = f.get("def", "")
        if d.startswith("salsa::"):
            for ta in f.get("targs", []):
                ex = "<%s as salsa::plumbing::QueryFunction>::execute" % ta
                if ex in self.fns:
                    out.append(ex)
        return out

    def callgraph(self):
        if self._cg is None:
            cg = {}
            for p, f in self.fns.items():
                outs = set()
                for _, t in f.calls():
                    outs.update(self.call_targets(f, t))
                # closures/coroutines created here may be run by whoever receives them
                for _, _, s in f.stmts():
                    rv = s.get("rv")
                    if rv and rv["k"] == "agg" and "closure" in rv:
                        c = rv["closure"]
                        if f.unit.endswith("executable"):
                            c = "[bin]" + c
                        if c in self.fns:
                            outs.add(c)
                # dropping a value of a workspace type that implements Drop runs that impl (a `drop` terminator, not a call;
                # a value nested inside another type is reached through the outer type's drop glue, which is not followed)
                for b_ in f.reachable() if f.blocks else ():
                    t_ = f.term(b_)
                    if t_["k"] == "drop" and t_.get("pty"):
                        dp = "<%s as core::ops::drop::Drop>::drop" % t_["pty"].split("<")[0]
                        if f.unit.endswith("executable"):
                            dp = "[bin]" + dp
                        if dp in self.fns:
                            outs.add(dp)
                # function items used as values (fn pointers / passed to combinators)
                for op in all_operands(f):
                    k = op.get("k")
                    if k and "fn" in k:
                        r = k["fn"].get("res") or k["fn"].get("def")
                        if r in self.fns:
                            outs.add(r)
                cg[p] = outs
            self._cg = cg
        return self._cg

    def reachable_from(self, roots, stop=()):
        cg = self.callgraph()
        seen = {}
        q = deque()
        for r in roots:
            if r in cg and r not in seen:
                seen[r] = None
                q.append(r)
        while q:
            p = q.popleft()
            if p in stop:
                continue
            for c in sorted(cg.get(p, ())):
                if c not in seen:
                    seen[c] = p
                    q.append(c)
        return seen

    def path_to(self, seen, target):
        out = [target]
        while seen.get(out[-1]) is not None:
            out.append(seen[out[-1]])
        return list(reversed(out))

    def callers_of(self, pred):
        """[(fn, bb, term)] for every reachable call whose callee name satisfies pred."""
        out = []
        for p, f in self.fns.items():
            for b, t in f.calls():
                c = callee(t)
                d = callee_def(t)
                if (c and pred(c)) or (d and pred(d)):
                    out.append((f, b, t))
        return out


def all_operands(f):
    for _, _, s in f.stmts():
        rv = s.get("rv")
        if not rv:
            continue
        for key in ("op", "a", "b"):
            if key in rv and isinstance(rv[key], dict):
                yield rv[key]
        for o in rv.get("ops", []):
            yield o
    for _, t in f.calls():
        for a in t["args"]:
            yield a


class AnchorMissing(Exception):
    pass
