"""Node-shape analysis of the parser: what can a node consist of?

An abstract interpretation of the parser functions over the *sequence of top-level items* (tokens and finished nodes) a function
has emitted since its entry.  It answers questions the token-kind engine (pengine) does not track: which children a
`finish_node(mark, K)` site can wrap.

Domain.  A state is (block, mark environment, item sequence); an item sequence is a tuple of positions, a position is
(set of kinds, multi) - "one item of one of these kinds", or with multi "two or more items of these kinds" ("T" is a token).
States that agree on block, environment, length and the multi flags are joined position-wise, so the analysis is path-sensitive in control flow
and in the marks, and a set abstraction in the kinds.  Every branch is taken except (a) a switch on a constant argument of a
function that is handed a mark (`function(p, m, is_lambda)`), analysed once per constant tuple, and (b) `expect(K)` / `eat(K)`
dominated by a successful test for K with nothing consumed in between, which always consume.  The result therefore
over-approximates the shapes that can occur.  Sequences longer than CAP positions are folded behind the innermost open mark.
Function summaries: OUT[f] subset of {(), (k,), MANY}; TOP[f] = kinds of the items f can leave behind; PK[f, ctx] = kinds with
which f finishes a mark it was handed.  All computed to a fixpoint.
"""
from .facts import callee, op_local

PARSER = "syntax::parser::Parser::"
MANY = ("*",)
CAP = 8
NO_OUTPUT = ("nth", "at", "at_any", "eof", "error", "peek", "current")
HAT = (frozenset(["^"]), False)


def _kind_const(op):
    k = op.get("k") if isinstance(op, dict) else None
    if isinstance(k, dict):
        v = k.get("variant") or k.get("enum_variant")
        if v:
            return v
    return None


def _kinds(items):
    out = set()
    for ks, _ in items:
        out |= ks
    out.discard("^")
    return out


class Shapes:
    def __init__(self, F, movers=()):
        self.F = F
        self.movers = set(movers)
        self.fns = {p: f for p, f in F.fns.items() if p.startswith("syntax::parser::") and f.blocks and "{closure" not in p
                    and not p.startswith("syntax::parser::tests")}
        self.out = {p: set() for p in self.fns}
        self.pk = {}          # (fn, ctx) -> kinds with which a function finishes a mark it was handed as a parameter
        self.ctxs = {}        # mark-taking fn -> constant-argument tuples it is called with
        self.top = {p: set() for p in self.fns}     # kinds of the top-level items a function can leave behind ("T" = token)
        self.children = {}    # node kind -> kinds of its direct children ("T" = token)
        self.single = {}      # (fn, ordinal, kind) -> kinds K' such that the node can consist of exactly one item of kind K'
        self.sites = set()    # (fn, ordinal, kind)
        self.gave_up = set()
        self._cert, self._defs = {}, {}
        self._fix()

    # -- classification of a call
    def _leaf(self, name):
        if name.startswith(PARSER):
            m = name[len(PARSER):]
            if m in ("start_node", "start_node_before", "finish_node"):
                return m
            if m == "bump" or name in self.movers and m not in ("eat", "expect", "bump_with_error"):
                return "bump"
            if m in NO_OUTPUT:
                return "none"
        return None

    def _certain(self, f, bb):
        """an expect(K)/eat(K) call that always consumes: dominated by a successful test for K with nothing consumed in between"""
        key = (f.path, bb)
        if key in self._cert:
            return self._cert[key]
        from . import flow as FL
        t = f.term(bb)
        ok = False
        d = self._defs.get(f.path)
        if d is None:
            d = self._defs[f.path] = FL.Defs(f)
        want = FL.kind_of_operand(f, d, t["args"][1]) if len(t["args"]) > 1 else None
        if want:
            for g in FL.gates(self.F, f, [bb], d):
                c = g.get("callee") or ""
                hit = False
                if c == PARSER + "at" and g["allowed"] == [True]:
                    hit = FL.kind_of_operand(f, d, g["call_t"]["args"][1]) == want
                elif c == PARSER + "nth" and g.get("kind") == "enum" and g["allowed"] == [want]:
                    a = g["call_t"]["args"][1]
                    hit = isinstance(a.get("k"), dict) and a["k"].get("bits") == 0
                if not hit:
                    continue
                gb = g.get("call_bb", g["bb"])
                between = [b2 for b2, t2 in f.calls() if b2 not in (bb, gb) and f.dominates(gb, b2) and f.dominates(b2, bb)
                           and (callee(t2) or "").startswith("syntax::parser::") and self._leaf(callee(t2) or "") not in ("none", "start_node", "start_node_before", "finish_node")]
                if not between:
                    ok = True
                    break
        self._cert[key] = ok
        return ok

    def _fix(self):
        for _ in range(60):
            changed = False
            self._pk_changed = False
            self.children, self.single, self.sites = {}, {}, set()
            for p, f in sorted(self.fns.items()):
                if self._leaf(p) is not None:
                    continue
                new, top = set(), set()
                for ctx in sorted(self.ctxs.get(p, {()})):
                    n2, t2 = self._run(f, ctx)
                    new |= n2
                    top |= t2
                if not new <= self.out[p]:
                    self.out[p] |= new
                    changed = True
                if not top <= self.top[p]:
                    self.top[p] |= top
                    changed = True
            if not changed and not self._pk_changed:
                break

    def _run(self, f, ctx=()):
        outs, tops = set(), set()
        marg = [i for i in range(1, f.d.get("arg_count", 0) + 1) if (f.local_ty(i) or "").endswith("parser::MarkOpened")]
        consts = [(i, ("const", -1, v)) for i, v in ctx]
        env0 = tuple(sorted([(i, ("open", 0, -1 - i)) for i in marg] + consts, key=repr))
        items0 = (HAT,) if marg else ()
        ordinal, n = {}, 0
        for b, t in f.calls():
            if (callee(t) or "") == PARSER + "finish_node":
                ordinal[b] = n
                n += 1
        table = {}     # (bb, envt, multi flags per position) -> items
        work = []
        inwork = set()

        def push(bb, items, env):
            envt = tuple(sorted(env.items(), key=repr)) if isinstance(env, dict) else env
            # the multi flag matters where a position can still end up as the only child of an open mark, or as the
            # function's whole output; elsewhere it is joined
            lo = min([v[1] for _, v in envt if v[0] == "open" and v[1] is not None] + [len(items)])
            key = (bb, envt, len(items), tuple(m for idx, (_, m) in enumerate(items) if idx == 0 or idx >= lo))
            old = table.get(key)
            if old is None:
                table[key] = items
                work.append(key)
                inwork.add(key)
                return
            if old == items:
                return
            new = tuple((a[0] | b[0], a[1] or b[1]) for a, b in zip(old, items))
            if new != old:
                table[key] = new
                if key not in inwork:
                    work.append(key)
                    inwork.add(key)
        push(0, items0, env0)
        steps = 0
        while work:
            steps += 1
            if steps > 200000 or len(table) > 60000:
                self.gave_up.add(f.path)
                break
            key = work.pop()
            inwork.discard(key)
            bb, envt = key[0], key[1]
            items = table[key]
            env = dict(envt)
            blk = f.blocks[bb]
            for s in blk["stmts"]:
                if s["k"] == "dead":
                    env.pop(s["l"], None)
                    continue
                if s["k"] == "assign" and not s["place"]["p"]:
                    rv = s["rv"]
                    src = None
                    if rv["k"] == "use":
                        l = op_local(rv["op"])
                        pl = rv["op"].get("mv") or rv["op"].get("cp") or {}
                        if l is not None and not pl.get("p") and l in env:
                            src = env[l]
                            if "mv" in rv["op"] and src[0] in ("open", "done"):
                                env.pop(l, None)     # moved out: the source is dead
                    if src is None:
                        from .flow import const_variant
                        v = const_variant(rv)
                        if v and ("SyntaxKind" in (rv.get("adt") or "") or "SyntaxKind" in str((rv.get("op") or {}).get("k", ""))):
                            src = ("kind", -1, v)
                    if src is None and rv["k"] == "un" and rv.get("op") == "Not":
                        a = env.get(op_local(rv["a"]))
                        if a and a[0] == "const":
                            src = ("const", -1, 1 - int(a[2]))
                    if src is not None:
                        env[s["place"]["l"]] = src
                    else:
                        env.pop(s["place"]["l"], None)
            t = blk["term"]
            k = t["k"]
            if k == "call":
                name = callee(t) or ""
                dest = t["dest"]["l"] if not t["dest"]["p"] else None
                tgt = t.get("target")
                leaf = self._leaf(name)
                results = []

                def closed(i, m):
                    # marks opened at the same position earlier stay open (they are outer); the finished one and everything
                    # that started inside it is gone
                    return {l: v for l, v in env.items() if v[0] in ("kind", "const") or
                            v[1] is not None and (v[1] < i or v[1] == i and v[0] == "open" and v[2:] != m[2:])}
                if leaf == "start_node":
                    results = [(items, ("open", len(items), bb), env)]
                elif leaf == "start_node_before":
                    m = env.get(op_local(t["args"][1]))
                    if m and m[0] == "done" and m[1] is not None and m[1] < len(items):
                        results = [(items, ("open", m[1], bb), env)]
                    else:
                        results = [(items, ("open", None, bb), env)]
                elif leaf == "finish_node":
                    m = env.get(op_local(t["args"][1]))
                    kv = env.get(op_local(t["args"][2]))
                    kind = kv[2] if kv and kv[0] == "kind" else (_kind_const(t["args"][2]) or "?")
                    if m and m[0] == "open" and m[1] is not None and m[1] <= len(items):
                        i = m[1]
                        kids = items[i:]
                        if kids and kids[0] == HAT:
                            if kind not in self.pk.setdefault((f.path, ctx), set()):
                                self.pk[(f.path, ctx)].add(kind)
                                self._pk_changed = True
                            kids = kids[1:]
                        else:
                            sk = (f.path, ordinal.get(bb, -1), kind)
                            self.sites.add(sk)
                            if len(kids) == 1 and not kids[0][1]:
                                self.single.setdefault(sk, set()).update(kids[0][0])
                        self.children.setdefault(kind, set()).update(_kinds(kids))
                        results = [(items[:i] + ((frozenset([kind]), False),), ("done", i, bb), closed(i, m))]
                    else:
                        # unknown start: everything so far may be inside
                        results = [(((frozenset(["?"]), False),), ("done", 0, bb), {l: v for l, v in env.items() if v[0] in ("kind", "const")})]
                elif leaf == "bump":
                    results = [(items + ((frozenset(["T"]), False),), None, env)]
                elif leaf == "none":
                    results = [(items, None, env)]
                elif name in self.fns and any((env.get(op_local(a)) or ("",))[0] == "open" for a in t["args"]):
                    m = [env[op_local(a)] for a in t["args"] if (env.get(op_local(a)) or ("",))[0] == "open"][0]
                    cctx = tuple((j, a["k"]["bits"]) for j, a in enumerate(t["args"], start=1)
                                 if isinstance(a.get("k"), dict) and a["k"].get("ty") in ("bool", "u8", "usize", "u32") and "bits" in a["k"])
                    if cctx not in self.ctxs.setdefault(name, set()):
                        self.ctxs[name].add(cctx)
                        self._pk_changed = True
                    if m[1] is not None and m[1] <= len(items):
                        i = m[1]
                        ks = self.pk.get((name, cctx), set())
                        if ks:
                            for K in ks:
                                self.children.setdefault(K, set()).update(_kinds(items[i:]))
                            results = [(items[:i] + ((frozenset(ks), False),), ("done", i, bb), closed(i, m))]
                    else:
                        results = [(((frozenset(["?"]), False),), None, {l: v for l, v in env.items() if v[0] in ("kind", "const")})]
                elif name in (PARSER + "expect", PARSER + "eat") and self._certain(f, bb):
                    results = [(items + ((frozenset(["T"]), False),), None, env)]
                elif name in self.out and t["args"]:
                    o = self.out[name]
                    if () in o:
                        results.append((items, None, env))
                    one = {x[0] for x in o if x and x != MANY}
                    if one:
                        results.append((items + ((frozenset(one), False),), None, env))
                    if MANY in o:
                        results.append((items + ((frozenset(self.top.get(name, set()) or {"?"}), True),), None, env))
                else:
                    results = [(items, None, env)]
                if tgt is not None:
                    for it2, val, e in results:
                        e2 = dict(e)
                        if dest is not None:
                            if val is not None:
                                e2[dest] = val
                            else:
                                e2.pop(dest, None)
                        while len(it2) > CAP:
                            # fold two adjacent positions that lie after the start of every open mark
                            lo = max([v[1] for v in e2.values() if v[0] == "open" and v[1] is not None] + [0])
                            if it2 and it2[0] == HAT:
                                lo = max(lo, 1)
                            j = lo
                            if j + 1 >= len(it2):
                                break
                            merged = (it2[j][0] | it2[j + 1][0], True)
                            it2 = it2[:j] + (merged,) + it2[j + 2:]
                            e3 = {}
                            for l, v in e2.items():
                                if v[0] in ("open", "done") and v[1] is not None and v[1] > j:
                                    if v[0] == "done" and v[1] == j + 1:
                                        continue
                                    e3[l] = (v[0], v[1] - 1) + tuple(v[2:])
                                elif v[0] == "done" and v[1] == j:
                                    continue
                                else:
                                    e3[l] = v
                            e2 = e3
                        if len(it2) > CAP:
                            self.gave_up.add(f.path)
                            continue
                        push(tgt, it2, e2)
            elif k == "return":
                if len(items) == 0:
                    outs.add(())
                elif len(items) == 1 and not items[0][1] and items[0] != HAT:
                    outs.update((x,) for x in items[0][0])
                else:
                    outs.add(MANY)
                tops.update(_kinds(items))
            elif k in ("unwind_resume", "unreachable", "abort"):
                pass
            else:
                succs = list(f.succ(bb))
                if k == "switch":
                    cv = env.get(op_local(t["op"]))
                    if cv and cv[0] == "const":
                        hit = [tb for v, tb in t["targets"] if v == cv[2]]
                        succs = hit[:1] if hit else [t["otherwise"]]
                for s2 in succs:
                    push(s2, items, env)
        return outs, tops

    def same_kind_wrappers(self):
        """finish_node sites that can wrap exactly one node of their own kind and nothing else"""
        return sorted((fn, n, kind) for (fn, n, kind), ks in self.single.items() if kind in ks and kind != "?")


def results(F):
    """cached (per fact directory and version of this file) summary of the shape analysis"""
    import hashlib, json, os
    here = os.path.dirname(os.path.abspath(__file__))
    h = hashlib.sha256()
    for n in ("shape.py", "flow.py", "facts.py"):
        with open(os.path.join(here, n), "rb") as fh:
            h.update(fh.read())
    # keyed by the facts of the syntax crate: trees that differ elsewhere share the result
    unit = os.path.join(F.dir, "syntax-rlib.json")
    if os.path.exists(unit):
        with open(unit, "rb") as fh:
            h.update(hashlib.sha256(fh.read()).digest())
        from .extract import BUILD
        os.makedirs(os.path.join(BUILD, "shape"), exist_ok=True)
        path = os.path.join(BUILD, "shape", "shape-%s.json" % h.hexdigest()[:16])
    else:
        path = os.path.join(F.dir, "shape-%s.json" % h.hexdigest()[:10])
    if os.path.exists(path):
        try:
            with open(path) as fh:
                return json.load(fh)
        except Exception:
            pass
    from rules import parser_model as PM
    S = Shapes(F, PM.movers(F))
    R = {"functions": len(S.fns), "gave_up": sorted(S.gave_up),
         "finish_sites": sorted("%s|%d|%s" % k for k in S.sites) + sorted("%s|param|%s" % (k[0], x) for k, v in S.pk.items() for x in v),
         "same_kind_wrappers": [list(x) for x in S.same_kind_wrappers()],
         "certain_consumes": sum(1 for v in S._cert.values() if v), "expect_or_eat_sites": len(S._cert),
         "children": {k: sorted(v) for k, v in S.children.items()},
         "top": {p: sorted(v) for p, v in S.top.items()},
         "out": {p: sorted("/".join(o) for o in v) for p, v in S.out.items()}}
    try:
        tmp = path + ".tmp%d" % os.getpid()
        with open(tmp, "w") as fh:
            json.dump(R, fh)
        os.replace(tmp, path)
    except OSError:
        pass
    return R


def crosscheck(F, res):
    """thorough tier: the verdict tables must not depend on the folding bound - the analysis is re-run with longer item
    sequences (CAP 12 instead of 8) and the children of every node kind and the same-kind wrappers must come out equal"""
    global CAP
    from rules import parser_model as PM
    base = results(F)
    old = CAP
    try:
        CAP = 12
        S = Shapes(F, PM.movers(F))
    finally:
        CAP = old
    ch = {k: sorted(v) for k, v in S.children.items()}
    diff = sorted(k for k in set(ch) | set(base["children"]) if ch.get(k) != base["children"].get(k))
    res.ob("SX", "shape/cap-independent", "engine S gives the same children per node kind and the same same-kind wrappers with item sequences "
           "folded at 12 positions as at 8", not diff and [list(x) for x in S.same_kind_wrappers()] == base["same_kind_wrappers"],
           where="crates/syntax/src/parser.rs", how="%d node kinds compared; differing: %s" % (len(ch), diff[:6]))
