"""Engine L: lock-guard liveness on MIR and the lock-order facts derived from it."""
import re
from collections import defaultdict, deque

from .facts import callee, callee_def, op_place

GUARD_RE = re.compile(r"^(?:std|parking_lot|tokio)::.*?(RwLockWriteGuard|RwLockReadGuard|MutexGuard)<(?:'_, |'\w+, )?(.*)>$")
ACQUIRE = {
    "std::sync::poison::rwlock::RwLock::<T>::write": "write",
    "std::sync::poison::rwlock::RwLock::<T>::read": "read",
    "std::sync::poison::mutex::Mutex::<T>::lock": "lock",
    "std::sync::poison::rwlock::RwLock::<T>::try_write": "try",
    "std::sync::poison::rwlock::RwLock::<T>::try_read": "try",
    "std::sync::poison::mutex::Mutex::<T>::try_lock": "try",
}


def guard_type(ty):
    """('write'|'read'|'lock', protected type) if ty is a lock guard (or a Result wrapping one)"""
    t = ty
    m = re.match(r"^core::result::Result<(.*), std::sync::poison::PoisonError<.*>>$", t)
    if m:
        t = m.group(1)
    m = GUARD_RE.match(t)
    if not m:
        return None
    kind = {"RwLockWriteGuard": "write", "RwLockReadGuard": "read", "MutexGuard": "lock"}[m.group(1)]
    return kind, m.group(2)


def acquisition(t):
    """(mode, protected type) if the call terminator acquires a std lock"""
    f = t.get("fn")
    if not f:
        return None
    mode = ACQUIRE.get(f.get("def"))
    if mode is None:
        return None
    ta = f.get("targs") or ["?"]
    return mode, ta[0]


def held_before_calls(fn):
    """{bb: {local: (mode, type, acquired_at_line)}} guards that are live right before bb's terminator"""
    guards = {}
    for i, l in enumerate(fn.d.get("locals", [])):
        g = guard_type(l["ty"])
        if g:
            guards[i] = g
    if not guards:
        return {}
    reach = sorted(fn.reachable())
    held_in = {b: {} for b in reach}
    held_at_term = {}
    work = deque([0])
    seen_out = {}
    while work:
        b = work.popleft()
        cur = dict(held_in[b])
        blk = fn.blocks[b]
        for s in blk["stmts"]:
            if s["k"] != "assign":
                continue
            rv = s["rv"]
            dst = s["place"]
            if rv["k"] == "use" and "mv" in rv["op"]:
                src = rv["op"]["mv"]
                if not src["p"] and src["l"] in cur:
                    info = cur.pop(src["l"])
                    if not dst["p"] and dst["l"] in guards:
                        cur[dst["l"]] = info
            elif rv["k"] == "agg":
                for o in rv.get("ops", []):
                    if "mv" in o and not o["mv"]["p"] and o["mv"]["l"] in cur:
                        cur.pop(o["mv"]["l"])     # moved into an aggregate (e.g. a closure / struct)
        t = blk["term"]
        held_at_term[b] = dict(cur)
        out = dict(cur)
        if t["k"] == "call":
            for a in t["args"]:
                if "mv" in a and not a["mv"]["p"] and a["mv"]["l"] in out:
                    out.pop(a["mv"]["l"])        # moved into the callee (mem::drop, unwrap, ...)
            d = t["dest"]
            if not d["p"] and d["l"] in guards:
                out[d["l"]] = (guards[d["l"]][0], guards[d["l"]][1], t["ln"])
        elif t["k"] == "drop":
            p = t["place"]
            if not p["p"]:
                out.pop(p["l"], None)
        for s in fn.succ(b):
            merged = dict(held_in[s])
            changed = False
            for l, info in out.items():
                if l not in merged:
                    merged[l] = info
                    changed = True
            if changed or s not in seen_out:
                seen_out[s] = True
                held_in[s] = merged
                work.append(s)
    return held_at_term


class LockFacts:
    def __init__(self, F, prefixes=("glas::", "[bin]glas::", "<glas::")):
        self.F = F
        self.prefixes = prefixes
        cg = F.callgraph()
        # direct acquirers per protected type
        self.direct = defaultdict(set)
        self.acq_sites = []
        for p, f in F.fns.items():
            for b, t in f.calls():
                a = acquisition(t)
                if a and a[0] != "try":
                    self.direct[a[1]].add(p)
                    self.acq_sites.append((f, b, t, a))
        rev = defaultdict(set)
        for p, outs in cg.items():
            for o in outs:
                rev[o].add(p)
        self.may_acquire = {}
        for ty, roots in self.direct.items():
            self.may_acquire[ty] = self._backward(rev, roots)
        self.rev = rev

    def _backward(self, rev, roots):
        seen = set(roots)
        q = deque(roots)
        while q:
            x = q.popleft()
            for p in rev.get(x, ()):
                if p not in seen:
                    seen.add(p)
                    q.append(p)
        return seen

    def reaches(self, targets):
        return self._backward(self.rev, set(targets))

    def why(self, start, targets, limit=8):
        """a call path from start to a function in targets"""
        cg = self.F.callgraph()
        prev = {start: None}
        q = deque([start])
        while q:
            x = q.popleft()
            if x in targets:
                out = [x]
                while prev[out[-1]] is not None:
                    out.append(prev[out[-1]])
                return list(reversed(out))[:limit]
            for o in sorted(cg.get(x, ())):
                if o not in prev:
                    prev[o] = x
                    q.append(o)
        return [start]
