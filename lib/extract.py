"""Fact extraction from /repo's current working tree (cached by tree hash)."""
import fcntl
import glob
import hashlib
import os
import shutil
import subprocess
import sys
import time

VERIF = os.path.dirname(os.path.dirname(os.path.abspath(__file__)))
REPO = os.environ.get("GLAS_REPO", "/repo")
BUILD = os.path.join(VERIF, ".build")
DRIVER = os.path.join(BUILD, "glasfacts-target", "release", "glasfacts")
UNITS = ["syntax-rlib", "ide-rlib", "gleam_interop-rlib", "glas-rlib", "glas-executable"]
MEMBERS = ["syntax", "ide", "glas", "gleam-interop"]


def tree_files(repo=REPO):
    out = subprocess.run(
        ["git", "-C", repo, "ls-files", "-co", "--exclude-standard"],
        check=True, capture_output=True, text=True).stdout.split("\n")
    keep = []
    for f in out:
        if not f or f.startswith("target/") or f.startswith("editor/"):
            continue
        if f.endswith(".rs") or f.endswith("Cargo.toml") or f == "Cargo.lock":
            if os.path.isfile(os.path.join(repo, f)):
                keep.append(f)
    return sorted(set(keep))


def tree_hash(repo=REPO):
    h = hashlib.sha256()
    for f in tree_files(repo):
        h.update(f.encode() + b"\0")
        with open(os.path.join(repo, f), "rb") as fh:
            h.update(hashlib.sha256(fh.read()).digest())
    with open(os.path.join(VERIF, "glasfacts", "src", "main.rs"), "rb") as fh:
        h.update(hashlib.sha256(fh.read()).digest())
    return h.hexdigest()[:24]


def write_manifests(repo, out):
    """the Cargo manifests of the tree, next to its facts (rules about build profiles read them)"""
    path = os.path.join(out, "manifests.json")
    if os.path.exists(path):
        return
    import json
    ms = {}
    for f in tree_files(repo):
        if f.endswith("Cargo.toml"):
            with open(os.path.join(repo, f)) as fh:
                ms[f] = fh.read()
    tmp = path + ".tmp%d" % os.getpid()
    with open(tmp, "w") as fh:
        json.dump(ms, fh)
    os.replace(tmp, path)


def nightly_sysroot():
    return subprocess.run(["rustc", "+nightly", "--print", "sysroot"], check=True,
                          capture_output=True, text=True).stdout.strip()


def build_driver():
    env = dict(os.environ, CARGO_NET_OFFLINE="true",
               CARGO_TARGET_DIR=os.path.join(BUILD, "glasfacts-target"))
    env.pop("RUSTFLAGS", None)
    env.pop("RUSTC_WORKSPACE_WRAPPER", None)
    subprocess.run(["cargo", "build", "--release", "--offline"], check=True,
                   cwd=os.path.join(VERIF, "glasfacts"), env=env,
                   stdout=subprocess.DEVNULL, stderr=subprocess.PIPE)


def driver_stale():
    if not os.path.exists(DRIVER):
        return True
    src = os.path.join(VERIF, "glasfacts", "src", "main.rs")
    return os.path.getmtime(src) > os.path.getmtime(DRIVER)


def extract(repo=REPO, target_dir=None, quiet=True):
    """Returns the directory with the five fact files for repo's current tree."""
    os.makedirs(os.path.join(BUILD, "facts"), exist_ok=True)
    h = tree_hash(repo)
    out = os.path.join(BUILD, "facts", h)
    if all(os.path.exists(os.path.join(out, u + ".json")) for u in UNITS):
        write_manifests(repo, out)
        return out, {"cached": True, "hash": h, "wall_s": 0.0}
    # one extraction at a time per cargo target directory (runs with different target directories may overlap)
    tname = os.path.basename(target_dir) if target_dir else "target"
    lock = open(os.path.join(BUILD, "extract.lock" if tname == "target" else "extract-%s.lock" % tname), "w")
    fcntl.flock(lock, fcntl.LOCK_EX)
    try:
        if all(os.path.exists(os.path.join(out, u + ".json")) for u in UNITS):
            write_manifests(repo, out)
            return out, {"cached": True, "hash": h, "wall_s": 0.0}
        if driver_stale():
            build_driver()
        t0 = time.time()
        tmp = out + ".tmp%d" % os.getpid()
        shutil.rmtree(tmp, ignore_errors=True)
        os.makedirs(tmp)
        target_dir = target_dir or os.path.join(BUILD, "target")
        # cargo's freshness cache would silently skip the wrapper: force the members
        for m in MEMBERS:
            for p in glob.glob(os.path.join(target_dir, "debug", ".fingerprint", m + "-*")):
                shutil.rmtree(p, ignore_errors=True)
        env = dict(os.environ)
        env.update({
            "LD_LIBRARY_PATH": nightly_sysroot() + "/lib",
            "RUSTFLAGS": "-Zallow-features= -Zmir-opt-level=0 -Awarnings",
            "RUSTC_WORKSPACE_WRAPPER": DRIVER,
            "CARGO_TARGET_DIR": target_dir,
            "GLASFACTS_OUT": tmp,
            "CARGO_NET_OFFLINE": "true",
        })
        r = subprocess.run(["cargo", "+nightly", "check", "--offline", "--workspace"],
                           cwd=repo, env=env, capture_output=True, text=True)
        if r.returncode != 0:
            shutil.rmtree(tmp, ignore_errors=True)
            sys.stderr.write(r.stderr[-4000:])
            raise SystemExit("glasfacts: /repo's working tree does not compile "
                             "(cargo +nightly check failed); no verdict")
        missing = [u for u in UNITS if not os.path.exists(os.path.join(tmp, u + ".json"))]
        if missing:
            shutil.rmtree(tmp, ignore_errors=True)
            raise SystemExit("glasfacts: fact files not rewritten in this run: %s" % missing)
        shutil.rmtree(out, ignore_errors=True)
        os.rename(tmp, out)
        write_manifests(repo, out)
        # keep the cache small: drop all but the 700 newest fact dirs (one per seeded change, ~19 MB each)
        # (another extraction, under another target dir's lock, may rename its temporary directory meanwhile)
        def _mtime(d):
            try:
                return os.path.getmtime(d)
            except OSError:
                return None
        dirs = [(m, d) for m, d in ((_mtime(d), d) for d in glob.glob(os.path.join(BUILD, "facts", "*"))) if m is not None and ".tmp" not in os.path.basename(d)]
        for _m, d in sorted(dirs)[:-700]:
            shutil.rmtree(d, ignore_errors=True)
        return out, {"cached": False, "hash": h, "wall_s": round(time.time() - t0, 2)}
    finally:
        fcntl.flock(lock, fcntl.LOCK_UN)
        lock.close()
