"""H4: iterations over hash collections and what consumes them (order-sensitivity signature)."""
import re

from .facts import callee, callee_def, op_place, op_local
from .flow import Defs, short

ITER_METHODS = ("iter", "iter_mut", "into_iter", "keys", "values", "values_mut", "drain", "into_keys", "into_values")


def hash_iteration_sites(F, prefix_ok):
    """[(fn, bb, term, hasher)] for calls iterating a std HashMap/HashSet"""
    out = []
    for p, f in sorted(F.fns.items()):
        if not prefix_ok(p) or not f.blocks:
            continue
        for b, t in f.calls():
            fn_ = t.get("fn") or {}
            d = fn_.get("def") or ""
            full = fn_.get("full") or ""
            m = d.rsplit("::", 1)[-1]
            if m not in ITER_METHODS:
                continue
            recv = None
            if d.startswith("std::collections::hash::"):
                recv = full
            elif d.endswith("IntoIterator::into_iter") and fn_.get("targs"):
                ta = fn_["targs"][0]
                if re.match(r"^&?(mut )?std::collections::hash::(map::HashMap|set::HashSet)<", ta):
                    recv = ta
            if recv is None:
                continue
            hasher = "RandomState" if ("RandomState" in recv or not re.search(r"BuildHasher|Hasher", recv)) else "deterministic"
            # default S parameter is elided in some printouts; be explicit
            if "BuildHasherDefault" in recv or "NoHash" in recv or "FxHasher" in recv or "nohash" in recv:
                hasher = "deterministic"
            out.append((f, b, t, hasher, recv))
    return out


def mut_sinks_in_closure(F, cpath, depth=0, skip_env=()):
    """callees inside a closure (and nested closures) that receive a mutably captured variable (captures whose environment
    index is in skip_env are left out: state that lives inside the iteration that created the closure)"""
    cf = F.fns.get(cpath)
    if cf is None or depth > 3:
        return ["?closure"]
    d = Defs(cf)
    sinks = []
    for b, t in cf.calls():
        for a in t["args"]:
            o = d.origin_op(a)
            base = o
            while base.get("k") == "field":
                base = base["base"]
            if base.get("k") == "arg" and base["n"] == 1 and o.get("k") == "field":
                # an upvar; mutable if the captured field type is &mut
                envi = [e.get("f") for e in o.get("proj", []) if isinstance(e, dict) and "f" in e]
                o2 = o
                while o2.get("k") == "field" and o2["base"].get("k") == "field":
                    o2 = o2["base"]
                envi = [e.get("f") for e in o2.get("proj", []) if isinstance(e, dict) and "f" in e] or envi
                if envi and envi[0] in skip_env:
                    continue
                pl = op_place(a)
                ty = cf.local_ty(pl["l"]) if pl else ""
                if ty.startswith("&mut "):
                    sinks.append(short(callee(t) or callee_def(t)))
    for b, i, s in cf.stmts():
        rv = s.get("rv")
        if rv and rv["k"] == "agg" and "closure" in rv:
            sinks += mut_sinks_in_closure(F, rv["closure"], depth + 1)
        if s["k"] == "assign" and s["place"]["p"] and s["place"]["p"][0] == "*":
            o = d.origin(s["place"]["l"])
            base = o
            while base.get("k") == "field":
                base = base["base"]
            if base.get("k") == "arg" and base["n"] == 1:
                sinks.append("store-through-capture")
    return sorted(set(sinks))


def signature(F, f, b, t):
    """(chain of consumer callees, loop/closure sinks) for an iteration site"""
    d = Defs(f)
    chain = []
    sinks = []
    cur = t["dest"]["l"]
    hops = 0
    seen_blocks = set()
    while hops < 10:
        hops += 1
        nxt = None
        for b2, t2 in f.calls():
            if (b2, id(t2)) in seen_blocks:
                continue
            for i, a in enumerate(t2["args"]):
                pl = op_place(a)
                if pl is None:
                    continue
                o = d.origin_place(pl) if pl["p"] else None
                direct = (not pl["p"] and pl["l"] == cur)
                via_ref = False
                if not direct and not pl["p"]:
                    oo = d.origin(pl["l"])
                    via_ref = oo.get("l") == cur and oo.get("k") not in ("call",) or (oo.get("k") in ("multi", "unknown", "arg") and oo.get("l") == cur)
                    # &mut iter
                    dd = d.whole_defs(pl["l"])
                    if len(dd) == 1 and dd[0][2] == "assign" and dd[0][3]["rv"]["k"] == "ref":
                        rp = dd[0][3]["rv"]["place"]
                        base_l = rp["l"]
                        if rp["p"] == ["*"]:
                            d2 = d.whole_defs(base_l)
                            if len(d2) == 1 and d2[0][2] == "assign" and d2[0][3]["rv"]["k"] == "ref":
                                base_l = d2[0][3]["rv"]["place"]["l"]
                        via_ref = base_l == cur
                if i == 0 and (direct or via_ref):
                    nxt = (b2, t2)
                    break
            if nxt:
                break
        if not nxt:
            # moved through a plain assignment?
            moved = None
            for bb_, i_, s in f.stmts():
                if s["k"] == "assign" and not s["place"]["p"] and s["rv"]["k"] == "use":
                    pl = op_place(s["rv"]["op"])
                    if pl is not None and not pl["p"] and pl["l"] == cur:
                        moved = s["place"]["l"]
            if moved is None:
                break
            cur = moved
            continue
        b2, t2 = nxt
        seen_blocks.add((b2, id(t2)))
        name = short(callee(t2) or callee_def(t2))
        chain.append(name)
        # closures among the arguments
        for a in t2["args"][1:]:
            o = d.origin_op(a)
            if o.get("k") == "agg" and "closure" in o["rv"]:
                sinks += mut_sinks_in_closure(F, o["rv"]["closure"])
        if name.endswith("::next") or name == "next":
            # a for loop: sinks = callees in the loop that get &mut to state defined outside of it
            loop = None
            for tail, head in f.back_edges():
                body = f.natural_loop(tail, head)
                if b2 in body:
                    if loop is None or len(body) < len(loop):
                        loop = body
            if loop:
                for b3 in sorted(loop):
                    t3 = f.term(b3)
                    if t3["k"] != "call":
                        continue
                    for a in t3["args"]:
                        pl = op_place(a)
                        if pl is None or pl["p"]:
                            continue
                        dd = d.whole_defs(pl["l"])
                        if len(dd) == 1 and dd[0][2] == "assign" and dd[0][3]["rv"]["k"] == "ref" and dd[0][3]["rv"].get("mut"):
                            base = dd[0][3]["rv"]["place"]
                            bl = base["l"]
                            if base["p"] == ["*"]:
                                d2 = d.whole_defs(bl)
                                if len(d2) == 1 and d2[0][2] == "assign" and d2[0][3]["rv"]["k"] == "ref":
                                    bl = d2[0][3]["rv"]["place"]["l"]
                            defs_out = [x for x in d.defs.get(bl, []) if x[0] not in loop]
                            is_param = 1 <= bl <= f.d["arg_count"]
                            if (defs_out or is_param) and bl != cur:
                                sinks.append(short(callee(t3) or callee_def(t3)))
                    # closures created in the loop capturing outside state mutably
                for b3, i3, s3 in f.stmts():
                    if b3 in loop and s3.get("rv", {}).get("k") == "agg" and "closure" in s3["rv"]:
                        # captures of state that is created anew in every iteration are not sinks of the iteration (same as for
                        # the calls of the loop body above)
                        skip = set()
                        for ci, cop in enumerate(s3["rv"].get("ops", [])):
                            cpl = op_place(cop)
                            if cpl is None or cpl["p"]:
                                continue
                            bl = cpl["l"]
                            dd = d.whole_defs(bl)
                            if len(dd) == 1 and dd[0][2] == "assign" and dd[0][3]["rv"]["k"] == "ref":
                                base = dd[0][3]["rv"]["place"]
                                bl = base["l"]
                                if base["p"] == ["*"]:
                                    d2 = d.whole_defs(bl)
                                    if len(d2) == 1 and d2[0][2] == "assign" and d2[0][3]["rv"]["k"] == "ref":
                                        bl = d2[0][3]["rv"]["place"]["l"]
                            defs_out = [x for x in d.defs.get(bl, []) if x[0] not in loop]
                            if not defs_out and not (1 <= bl <= f.d["arg_count"]) and d.defs.get(bl):
                                skip.add(ci)
                        sinks += mut_sinks_in_closure(F, s3["rv"]["closure"], skip_env=skip)
            break
        cur = t2["dest"]["l"]
        if name.split("::")[-1] in ("collect", "for_each", "count", "any", "all", "find", "sum", "max", "min", "fold",
                                    "last", "next", "position", "unzip", "partition", "join"):
            if name.split("::")[-1] == "collect":
                chain[-1] = "collect->" + re.sub(r"<.*", "", f.local_ty(t2["dest"]["l"])).rsplit("::", 1)[-1]
            break
    return chain, sorted(set(sinks))


ORDER_FREE_TERMINALS = ("count", "any", "all", "sum", "max", "min", "collect->HashMap", "collect->HashSet",
                        "collect->BTreeMap", "collect->BTreeSet", "collect->IndexSet")
ORDER_FREE_SINKS = ("HashMap::insert", "HashSet::insert", "BTreeMap::insert", "BTreeSet::insert", "HashMap::entry",
                    "HashMap::remove", "HashSet::remove", "IndexSet::insert")


def auto_order_free(chain, sinks):
    if not chain:
        return False
    last = chain[-1].split("::")[-1] if not chain[-1].startswith("collect->") else chain[-1]
    term_ok = last in ORDER_FREE_TERMINALS or (last in ("for_each", "next") )
    if not term_ok:
        return False
    if last in ("for_each", "next") and not sinks:
        return False if last == "next" and False else True if sinks == [] and last == "for_each" else (last == "next" and False)
    return all(s in ORDER_FREE_SINKS for s in sinks) and (last in ORDER_FREE_TERMINALS or bool(sinks))
