"""C05 — Go-to-definition follows Gleam's scoping rules (shape of the scope construction and of the lookup)."""
import re

from lib import flow as FL
from lib.facts import callee, callee_def, op_local, op_place

META = {
    "level": "other",
    "technique": "static analysis: enum coverage of the scope visitor against the HIR ADTs, provenance of the scope argument of every recursive visit, dominance (initialiser visited before the binder's scope is allocated), order of the lookup chain, namespace table of the module scope",
    "rule": "S1 the scope visitor has an arm for every Expr/Pattern variant that has child expressions, patterns, statements or clauses, "
            "and visits every such child; S2 every recursive visit passes the function's own scope, except clause bodies and lambda "
            "bodies, which get a fresh scope whose parent is the current one and to which that clause's/lambda's binders are added; S3 in "
            "a let/use statement the initialiser is visited in the old scope before the new scope is allocated, the binders go into the "
            "new scope, and later statements see it; S4 name lookup walks expression scopes innermost-first, then module values, then "
            "built-ins; the module scope puts functions/constants/variants into values, types/aliases into types, and imports only "
            "public declarations. One obligation per variant / call site. S6-S8 qualified values, import namespaces (see DESIGN). S9 no castable node consists of exactly one node of its own kind (lib/shape.py: children of every finish_node site), so AstPtr = (kind, range) identifies a binder; S10 a NameRef under MODULE_NAME_REF is resolved as a module before the value namespace is tried; S11 the pattern of a let / use statement is lowered whatever its right-hand side is. S12 lower_expr_stmt never hands its statement list to a nested call of itself; S13 a module resolution for the base of `base.label` is recorded only after the base's type was tested. S15 a qualified type name never falls back to the unqualified lookup. S14 module_name builds the ModuleMap keys positionally (no component is compared with a directory name). S20 once the base of `base.label` resolved as an imported module the module resolution is recorded on every path (not only when the member resolves).",
    "explanation": "Decides the construction shape that Gleam's scoping rules require (innermost binder wins, a let binder is not visible "
                   "in its own initialiser, clause/lambda/use bindings do not escape, values and types are separate namespaces). That "
                   "the classifier maps every syntactic position to the right lookup is behavioural and not decided. S25 = C18 X18 (resolve_import tests visibility declaration by declaration).",
    "not_decided": "correctness of classify_node for every position; resolution through imports for every program (generated programs needed).",
    "trusted_base": ["rustc MIR", "Gleam's scoping rules as stated in the property"],
    "assumptions": [],
}

SC = "ide::def::scope::ExprScopes::"
CHILD = re.compile(r"Idx<ide::def::module::(Expr|Pattern)>|IdxRange<ide::def::module::Pattern>|ide::def::module::(Statement|Clause)")
# children that are deliberately not visited
REVIEWED_SKIPS = {("Expr", "FieldAccess", "label"): "the label expression is a synthetic Missing node allocated by lowering (lower_expr_opt(None)); the label text is in label_name"}


def match_on(fn, d, adt):
    """(switch block, term) of the match on discriminant of `adt` in fn"""
    for b in sorted(fn.reachable()):
        t = fn.term(b)
        if t["k"] == "switch":
            l = op_local(t["op"])
            o = d.origin(l) if l is not None else {}
            if o.get("k") == "rv" and o["rv"]["k"] == "discr" and o["rv"]["of"] == adt:
                return b, t
    return None, None


def regions(fn, t, avoid=None):
    """per target block, the blocks reachable from it without passing the switch block again"""
    tg = {}
    for v, x in t["targets"]:
        tg[v] = x
    reach = {}
    for x in set(list(tg.values()) + [t["otherwise"]]):
        seen, st = {x}, [x]
        while st:
            y = st.pop()
            for z in fn.succ(y):
                if z not in seen and z != avoid:
                    seen.add(z)
                    st.append(z)
        reach[x] = seen
    return tg, reach


VISITS = (SC + "traverse_expr", SC + "traverse_expr_stmts", SC + "add_bindings")


SELECTOR = re.compile(r"Option::<T>::(unwrap_or|unwrap_or_else|or|or_else|xor|map_or|map_or_else|get_or_insert|get_or_insert_with)$|"
                      r"Result::<T, E>::(unwrap_or|unwrap_or_else|or|or_else)$|cmp::(min|max|Ord::min|Ord::max)")


def fields_read(fn, blocks, variant, F=None, VISITS=VISITS, selections=True, init_taint=None, stored=None):
    """names of the fields of `variant` whose value flows (through refs, iteration, projections) into a recursive
    visit call, or into an iterator adaptor whose closure makes such a call, inside the given blocks"""
    seeds = {}

    def seed_of(p):
        for i, e in enumerate(p["p"]):
            if isinstance(e, dict) and "dc" in e and e.get("n") == variant and i + 1 < len(p["p"]):
                nx = p["p"][i + 1]
                if isinstance(nx, dict) and "f" in nx:
                    return nx.get("n", str(nx["f"]))
        return None
    taint = {k: set(v) for k, v in (init_taint or {}).items()}      # local -> set(field names)
    either = set()  # locals that hold one of several children (a selection), not all of them
    sites = {}
    order = sorted(blocks)
    changed = True
    visited = set()
    rounds = 0
    while changed and rounds < 20:
        rounds += 1
        changed = False
        for b in order:
            for s_ in fn.blocks[b]["stmts"]:
                if s_["k"] != "assign":
                    continue
                rv = s_["rv"]
                src = set()
                places = []
                for key in ("op", "a", "b"):
                    o = rv.get(key)
                    if isinstance(o, dict) and op_place(o):
                        places.append(op_place(o))
                if "place" in rv:
                    places.append(rv["place"])
                for o in rv.get("ops", []):
                    if op_place(o):
                        places.append(op_place(o))
                for p in places:
                    sd = seed_of(p)
                    if sd:
                        src.add(sd)
                    src |= taint.get(p["l"], set())
                if src:
                    l = s_["place"]["l"]
                    if not src <= taint.get(l, set()):
                        taint.setdefault(l, set()).update(src)
                        changed = True
                    # one of several children, not all of them: a second assignment that brings another child, or a copy of such a value
                    sites.setdefault(l, {})[(b, id(s_))] = frozenset(src)
                    if selections and ((len(set(sites[l].values())) > 1 and not s_["place"]["p"]) or any(p["l"] in either for p in places)):
                        if l not in either:
                            either.add(l)
                            changed = True
            t = fn.term(b)
            if t["k"] == "call":
                src = set()
                for a in t["args"]:
                    p = op_place(a)
                    if p:
                        sd = seed_of(p)
                        if sd:
                            src.add(sd)
                        src |= taint.get(p["l"], set())
                c = callee(t) or callee_def(t) or ""
                mixed = any(op_place(a) and op_place(a)["l"] in either for a in t["args"])
                if selections and src and (mixed or (len(src) > 1 and SELECTOR.search(c))):
                    # `a.unwrap_or(b)`, `a.or(b)`: the result is one of the children; visiting it visits neither for sure
                    if c in VISITS:
                        continue
                    l = t["dest"]["l"]
                    if l not in either or not src <= taint.get(l, set()):
                        either.add(l)
                        taint.setdefault(l, set()).update(src)
                        changed = True
                    continue
                if src and stored is not None and c.rsplit("::", 1)[-1] in ("push", "push_back", "push_front", "insert", "extend") and len(t["args"]) >= 2:
                    # a child put aside in a collection of the function (work list): whoever takes it out again may visit it
                    rp = op_place(t["args"][0])
                    if rp is not None:
                        ro = FL.Defs(fn).origin_op(t["args"][0])
                        base = ro
                        while base.get("k") == "field":
                            base = base["base"]
                        if base.get("l") is not None and not (taint.get(rp["l"], set()) >= src and rp["l"] in (init_taint or {})):
                            vsrc = set()
                            for a in t["args"][1:]:
                                pa = op_place(a)
                                if pa:
                                    sd = seed_of(pa)
                                    if sd:
                                        vsrc.add(sd)
                                    vsrc |= taint.get(pa["l"], set())
                            if vsrc:
                                stored.setdefault(base["l"], set()).update(vsrc)
                if src:
                    if c in VISITS:
                        visited |= src
                    # a visit function handed over as an item: fields.iter().all(Ty::is_closed)
                    for a in t["args"]:
                        k = a.get("k") if isinstance(a, dict) else None
                        if isinstance(k, dict) and "fn" in k and ((k["fn"].get("res") or k["fn"].get("def") or "") in VISITS):
                            visited |= src
                    # closures passed along (for_each(|x| visit(x))) that make a visit call
                    if F is not None:
                        d = FL.Defs(fn)
                        for a in t["args"]:
                            o = d.origin_op(a)
                            if o.get("k") == "agg" and "closure" in o["rv"]:
                                cf = F.fns.get(o["rv"]["closure"])
                                if cf is not None and any(callee(t2) in VISITS for _, t2 in cf.calls()):
                                    visited |= src
                    l = t["dest"]["l"]
                    if not src <= taint.get(l, set()):
                        taint.setdefault(l, set()).update(src)
                        changed = True
    return visited


def visitor_completeness(F, res, fn_name, adt_short, rule="S1", fn_path=None, visits=VISITS, skips=None, what="visits", floor=None, selections=True, adt_path=None, child_re=None):
    adt = adt_path or ("ide::def::module::" + adt_short)
    CHILD_ = child_re or CHILD
    fn = F.fn(fn_path or (SC + fn_name))
    REVIEWED_SKIPS_ = REVIEWED_SKIPS if skips is None else skips
    d = FL.Defs(fn)
    b0, t = match_on(fn, d, adt)
    if t is None:
        res.anchor_missing(rule, "match on %s in %s" % (adt_short, fn_name))
        return
    # a function may match on the value more than once (a first match that only computes a key, then the one that descends): the
    # walk is the match in whose arms the most children reach a visit
    cands = []
    for b_ in sorted(fn.reachable()):
        t_ = fn.term(b_)
        if t_["k"] == "switch":
            l_ = op_local(t_["op"])
            o_ = d.origin(l_) if l_ is not None else {}
            if o_.get("k") == "rv" and o_["rv"]["k"] == "discr" and o_["rv"]["of"] == adt:
                cands.append((b_, t_))
    if len(cands) > 1:
        def score(c):
            tg_, reach_ = regions(fn, c[1])
            common_ = set.intersection(*reach_.values()) if len(reach_) > 1 else set()
            n_ = 0
            for v_ in F.adt(adt)["variants"]:
                tgt_ = tg_.get({n2: v2 for v2, n2 in F.discr_map(adt).items()}.get(v_["name"]))
                if tgt_ is not None and tgt_ != c[1]["otherwise"]:
                    n_ += len(fields_read(fn, reach_[tgt_] - common_, v_["name"], F, visits, selections))
            return n_
        b0, t = max(cands, key=score)
    dm = F.discr_map(adt)
    inv = {n: v for v, n in dm.items()}
    tg, reach = regions(fn, t)
    common = set.intersection(*reach.values()) if len(reach) > 1 else set()
    a = F.adt(adt)
    nchild = 0
    for v in a["variants"]:
        kids = [f["name"] for f in v["fields"] if CHILD_.search(f["ty"])]
        if not kids:
            continue
        nchild += 1
        target = tg.get(inv[v["name"]])
        has_arm = target is not None and target != t["otherwise"]
        if not has_arm:
            res.ob(rule, "%s/%s" % (adt_short, v["name"]), ("%s::%s has children %s and an arm in %s that " + what + " them") % (adt_short, v["name"], kids, fn_name),
                   False, where=fn.loc(t["ln"]), how="falls into the catch-all arm: its children are never reached")
            continue
        region = reach[target] - common
        stored = {}
        read = fields_read(fn, region, v["name"], F, visits, selections, stored=stored)
        if stored and any(k not in read for k in kids):
            # children put aside in a work list of the function and visited when they are taken out again (outside the arm)
            read = set(read) | fields_read(fn, set(fn.reachable()), "\0none", F, visits, False, init_taint=stored)
        missing = [k for k in kids if k not in read and (adt_short, v["name"], k) not in REVIEWED_SKIPS_]
        skipped = [k for k in kids if k not in read and (adt_short, v["name"], k) in REVIEWED_SKIPS_]
        res.ob(rule, "%s/%s" % (adt_short, v["name"]), ("%s::%s has children %s and an arm in %s that " + what + " them") % (adt_short, v["name"], kids, fn_name),
               not missing, where=fn.loc(t["ln"]), how="children that flow into a recursive visit: %s%s" % (sorted(read), ("; reviewed skip: %s (%s)" % (skipped, REVIEWED_SKIPS_[(adt_short, v["name"], skipped[0])])) if skipped else "")
               if not missing else "children that never reach a recursive visit in the arm: %s" % missing, reviewed=bool(skipped) and not missing)
    res.floor("%s variants with children (%s)" % (adt_short, fn_name), nchild, floor or (10 if adt_short == "Expr" else 5))


_WRAP = {}


def _direct_alloc_parent(f, d, t):
    """operand that becomes the parent of the scope allocated by the call t = Arena::alloc(ScopeData { parent: Some(x), .. })"""
    if not (callee(t) or "").endswith("Arena::<T>::alloc"):
        return None
    sd = d.origin_op(t["args"][1])
    if sd.get("k") == "agg" and sd["rv"]["adt"].endswith("ScopeData"):
        par = d.origin_op(sd["rv"]["ops"][sd["rv"]["fields"].index("parent")])
        if par.get("k") == "agg" and par["rv"]["variant"] == "Some":
            return par["rv"]["ops"][0]
    return None


def _wrapper_param(F, name):
    """if `name` is a helper of ExprScopes that does nothing but allocate a scope whose parent is its n-th parameter and
    return it, that n (MIR local index); else None"""
    if name in _WRAP:
        return _WRAP[name]
    _WRAP[name] = None
    g = F.fns.get(name)
    if g is None or not g.blocks or not name.startswith(SC):
        return None
    dg = FL.Defs(g)
    allocs = [(b, t) for b, t in g.calls() if (callee(t) or "").endswith("Arena::<T>::alloc")]
    others = [(b, t) for b, t in g.calls() if not (callee(t) or "").endswith("Arena::<T>::alloc")
              and (callee(t) or "").startswith("ide::")]
    if len(allocs) != 1 or others:
        return None
    ret = dg.origin(0)
    if not (ret.get("k") == "call" and ret["bb"] == allocs[0][0]):
        return None
    par = _direct_alloc_parent(g, dg, allocs[0][1])
    if par is None:
        return None
    po = dg.origin_op(par)
    if po.get("k") == "arg":
        _WRAP[name] = po["n"]
    return _WRAP[name]


def is_scope_alloc(F, t):
    c = callee(t) or ""
    return c.endswith("Arena::<T>::alloc") or _wrapper_param(F, c) is not None


def alloc_parent(F, f, d, t):
    """the operand that becomes the parent of the scope this call allocates (directly or through a helper), or None"""
    c = callee(t) or ""
    if c.endswith("Arena::<T>::alloc"):
        return _direct_alloc_parent(f, d, t)
    n = _wrapper_param(F, c)
    if n is not None:
        return t["args"][n - 1]
    return None


def scope_arg_class(F, f, d, op):
    """'param' if the operand is (a copy of) the function's / closure's own scope, 'fresh(parent=param)' if it was
    allocated here with parent Some(own scope), else a description"""
    o = d.origin_op(op)
    if o.get("k") == "arg":
        return "param"
    if o.get("k") == "field":
        base = o
        while base.get("k") == "field":
            base = base["base"]
        if base.get("k") == "arg" and base["n"] == 1 and f.kind == "Closure":
            return "param"          # captured scope of the enclosing function
    if o.get("k") == "multi":
        # the running `scope` variable of traverse_expr_stmts: parameter or a scope allocated with parent = previous value
        kinds = set()
        for dd in o["defs"]:
            if dd[2] == "assign" and dd[3]["rv"]["k"] == "use":
                oo = d.origin_op(dd[3]["rv"]["op"])
                kinds.add("param" if oo.get("k") == "arg" else ("alloc" if oo.get("k") == "call" and is_scope_alloc(F, oo["t"]) else "?"))
            elif dd[2] == "call" and is_scope_alloc(F, dd[3]):
                kinds.add("alloc")
            else:
                kinds.add("?")
        return "running(%s)" % ",".join(sorted(kinds))
    if o.get("k") == "call" and is_scope_alloc(F, o["t"]):
        par = alloc_parent(F, f, d, o["t"])
        if par is not None:
            return "fresh(parent=%s)" % scope_arg_class(F, f, d, par)
        return "fresh(?)"
    return o.get("k")



def let_use_ordering(F, res, rule="S3"):
    """S3: in a let / use statement the initialiser is visited in the old scope before the binder's scope exists; the binders go into the new scope;
    later statements see it (extracted so that C09 can state it too: the inferencer resolves names through these scopes)."""
    # ---- S3
    ts = F.fn(SC + "traverse_expr_stmts")
    d = FL.Defs(ts)
    b0, t = match_on(ts, d, "ide::def::module::Statement")
    if t is None:
        res.anchor_missing(rule, "match on Statement in traverse_expr_stmts")
    else:
        sdm = {n_: v for v, n_ in F.discr_map("ide::def::module::Statement").items()}
        tg, reach = regions(ts, t, avoid=b0)
        common = set.intersection(*reach.values()) if len(reach) > 1 else set()
        for st in ("Let", "Use"):
            target = tg.get(sdm[st])
            region = (reach[target] - common) if target is not None else set()
            trav = [b for b, tt in ts.calls() if b in region and callee(tt) == SC + "traverse_expr"]
            alloc = [b for b, tt in ts.calls() if b in region and is_scope_alloc(F, tt)]
            bind = [(b, tt) for b, tt in ts.calls() if b in region and callee(tt) == SC + "add_bindings"]
            ok_order = len(trav) == 1 and len(alloc) == 1 and ts.dominates(trav[0], alloc[0])
            res.ob(rule, "%s/initialiser-before-new-scope" % st, "in a %s statement the initialiser is visited (in the old scope) before the binder's scope is allocated" % st.lower(),
                   ok_order, where=ts.loc(t["ln"]), how="traverse_expr sites %d, alloc sites %d, order ok: %s" % (len(trav), len(alloc), ok_order))
            old = all(scope_arg_class(F, ts, d, ts.term(b)["args"][3]).startswith(("param", "running")) for b in trav)
            # at the time of the traversal the running scope has not yet been reassigned in this arm: the alloc is after it (ok_order)
            res.ob(rule, "%s/initialiser-in-old-scope" % st, "the initialiser of a %s is resolved in the scope before the statement" % st.lower(), old and ok_order,
                   where=ts.loc(t["ln"]), how="scope argument: %s" % [scope_arg_class(F, ts, d, ts.term(b)["args"][3]) for b in trav])
            newscope = bool(bind) and all(ts.dominates(alloc[0], b) for b, _ in bind) if alloc else False
            res.ob(rule, "%s/binders-in-new-scope" % st, "the binders of a %s go into the newly allocated scope" % st.lower(), newscope, where=ts.loc(t["ln"]),
                   how="add_bindings sites %d, all after the allocation: %s" % (len(bind), newscope))
        # the running scope is updated: the local holding the scope has a definition from alloc inside the loop
        running = False
        for l, defs in d.defs.items():
            ks = set()
            for dd in defs:
                if dd[2] == "call" and is_scope_alloc(F, dd[3]):
                    ks.add("alloc")
                if dd[2] == "assign" and dd[3]["rv"]["k"] == "use":
                    oo = d.origin_op(dd[3]["rv"]["op"])
                    if oo.get("k") == "arg":
                        ks.add("param")
                    if oo.get("k") == "call" and is_scope_alloc(F, oo["t"]):
                        ks.add("alloc")
            if ks == {"alloc", "param"}:
                running = True
        res.ob(rule, "later-statements-see-binder", "the running scope variable is replaced by the new scope, so later statements see the binder",
               running, where=ts.loc(), how="a local is defined both from the parameter and from the allocations: %s" % running)

def run(F, res, tier):
    visitor_completeness(F, res, "traverse_expr", "Expr")
    visitor_completeness(F, res, "add_bindings", "Pattern")
    every_visited_expression_has_its_scope_recorded(F, res)
    lowering_takes_every_child_of_a_list(F, res)
    alternatives_bind_one_name_once(F, res)
    # ---- S2
    te = F.fn(SC + "traverse_expr")
    fs = [F.fns[p] for p in F.with_closures(te.path)]
    dm = F.discr_map("ide::def::module::Expr")
    n = 0
    for f in fs:
        d = FL.Defs(f)
        for b, t in f.calls():
            c = callee(t)
            if c not in (SC + "traverse_expr", SC + "traverse_expr_stmts", SC + "add_bindings"):
                continue
            n += 1
            idx = 3 if c != SC + "add_bindings" else 2
            cls = scope_arg_class(F, f, d, t["args"][idx])
            ordn = [bb for bb, tt in f.calls() if callee(tt) == c].index(b)
            where = f.loc(t["ln"])
            in_closure = f.kind == "Closure"
            # which construct are we in? clause closure or lambda arm allocate; everything else passes the parameter
            if cls == "param" and c == SC + "add_bindings":
                # traverse_expr never binds into the scope it was given: binders of a clause / lambda go into the fresh
                # scope of that clause / lambda (else a parameter escapes into the enclosing scope)
                ok, why = False, "binds patterns into the scope traverse_expr was called with, not into a fresh one"
            elif cls == "param":
                ok, why = True, "passes its own scope"
            elif cls == "fresh(parent=param)":
                ok, why = True, "fresh scope whose parent is the current scope (clause body / lambda body and their binders)"
            else:
                ok, why = False, "scope argument is %s" % cls
            res.ob("S2", "%s/%s/%d" % (f.path.rsplit("ExprScopes::", 1)[-1], c.rsplit("::", 1)[-1], ordn),
                   "this visit runs in the current scope, or in a fresh scope nested directly in it", ok, where=where, how=why)
    res.floor("recursive visits in traverse_expr", n, 12)
    # one scope per case clause (allocated in the per-clause closure, or in the loop over the clauses), one per lambda
    EXPR = "ide::def::module::Expr"
    de = FL.Defs(te)
    b0e, te_sw = match_on(te, de, EXPR)
    okc = okl = False
    why_c = why_l = "match on Expr not found"
    if te_sw is not None:
        edm = {n_: v for v, n_ in F.discr_map(EXPR).items()}
        tg, reach = regions(te, te_sw, avoid=b0e)
        common = set.intersection(*reach.values()) if len(reach) > 1 else set()
        loops = [te.natural_loop(tl, hd) for tl, hd in te.back_edges()]

        def arm(name):
            x = tg.get(edm.get(name))
            return (reach[x] - common) if x is not None else set()
        case_arm, lam_arm = arm("Case"), arm("Lambda")
        # closures created in the Case arm that allocate
        clause_clos = [f for f in fs if f.kind == "Closure" and any(is_scope_alloc(F, t) for b, t in f.calls())]
        in_loop = [b for b, t in te.calls() if b in case_arm and is_scope_alloc(F, t) and any(b in body and body <= (case_arm | common) or b in body for body in loops)]
        okc = bool(clause_clos) or bool(in_loop)
        why_c = "allocating closures: %d, allocations inside a loop of the Case arm: %d" % (len(clause_clos), len(in_loop))
        lam_allocs = [b for b, t in te.calls() if b in lam_arm and is_scope_alloc(F, t) and not any(b in body for body in loops)]
        okl = len(lam_allocs) == 1
        why_l = "scope allocations in the Lambda arm (outside loops): %d" % len(lam_allocs)
    res.ob("S2", "one-scope-per-clause", "the scope of a case clause is allocated once per clause (inside the per-clause closure or the loop over the clauses)",
           okc, where=te.loc(), how=why_c)
    res.ob("S2", "lambda-scope", "a lambda body gets a scope of its own, allocated in traverse_expr's Lambda arm", okl, where=te.loc(), how=why_l)
    let_use_ordering(F, res)
    lambda_param_range(F, res)
    resolver_provenance(F, res)
    qualifier_first(F, res)
    qualified_value_kinds(F, res)
    namespaces(F, res)
    # ---- S9: a binder is found through the source map keyed by AstPtr = (kind, range)
    from rules import c06 as _c06
    _c06.node_identity_rules(F, res, "S9")
    module_qualifier_contexts(F, res)
    binders_independent_of_initialiser(F, res)
    statement_blocks_and_field_access(F, res)
    module_names_are_positional(F, res)
    qualified_types_do_not_fall_back(F, res)
    lowering_visits_every_child(F, res)
    name_tables_have_one_duplicate_policy(F, res)
    # a resolver left pointing at another module resolves the names that follow in that module (C09/Y4)
    from rules import c09 as _c09
    _c09.resolver_swaps(F, res, rule="S17")
    _c09.declared_types_are_read_in_their_own_module(F, res, rule="S19")   # `value.field` in another module: the right field type, the right target
    # ---- S4
    rn = F.fn("ide::def::resolver::Resolver::resolve_name")
    names = [(b, FL.short(callee(t) or callee_def(t))) for b, t in rn.calls()]
    order = [n_ for b, n_ in names if n_ in ("Resolver::scopes", "ExprScopes::resolve_name_in_scope", "ModuleScope::resolve_name", "BuiltIn::values", "ExprScopes::scope_chain")]
    want = ["Resolver::scopes"]
    fs_rn = [F.fns[p] for p in F.with_closures(rn.path)]
    allc = [FL.short(callee(t) or callee_def(t)) for f in fs_rn for b, t in f.calls()]
    res.analysed["resolve_name_calls"] = [c for c in allc if any(x in c for x in ("scope", "Scope", "BuiltIn", "rev", "resolve"))]
    expr_l = [b for b, n_ in names if n_ == "ExprScopes::resolve_name_in_scope"]
    mod_l = [b for b, n_ in names if n_ == "ModuleScope::resolve_name_locally"]
    bi_l = [b for b, n_ in names if n_ == "BuiltIn::values"]
    ok_order = bool(expr_l) and bool(mod_l) and bool(bi_l) and \
        all(rn.can_reach(e, mod_l) for e in expr_l) and not any(rn.can_reach(m, expr_l) for m in mod_l) and \
        all(rn.can_reach(m, bi_l) for m in mod_l) and not any(rn.can_reach(b_, mod_l + expr_l) for b_ in bi_l)
    res.ob("S4", "lookup-order", "Resolver::resolve_name consults the expression scopes first, then the module's own values, then the built-ins, and never goes back",
           ok_order, where=rn.loc(), how="calls: %s" % res.analysed["resolve_name_calls"][:14])
    chain = F.fn(SC + "scope_chain")
    cl = [F.fns[p] for p in F.closures_of(chain.path)]
    parent_walk = any(any(isinstance(e, dict) and e.get("n") == "parent" for e in (op_place(s_["rv"]["op"]) or {"p": []})["p"])
                      for f in cl for b, i, s_ in f.stmts() if s_["k"] == "assign" and s_["rv"]["k"] == "use")
    succ = any(FL.short(callee(t_) or callee_def(t_)).endswith("successors") for b, t_ in chain.calls())
    res.ob("S4", "innermost-first", "a scope's names are looked up along successors(scope, |s| s.parent): innermost scope first", parent_walk and succ,
           where=chain.loc(), how="successors: %s, follows .parent: %s" % (succ, parent_walk))
    rs = F.fn("ide::def::resolver::Resolver::scopes")
    res.analysed["Resolver::scopes calls"] = [FL.short(callee(t_) or callee_def(t_)) for b, t_ in rs.calls()]
    msq = F.fn("ide::def::scope::module_scope_with_map_query")
    ins = []
    dq = FL.Defs(msq)
    for f in [F.fns[p] for p in F.with_closures(msq.path)]:
        for b, t in f.calls():
            c = FL.short(callee(t) or callee_def(t))
            if c in ("ModuleScope::add_value", "ModuleScope::add_type", "ModuleScope::add_import", "ModuleScope::add_module", "ModuleScope::add_declaration"):
                ins.append(c)
    res.analysed["module_scope_inserts"] = sorted(set(ins))
    ri = F.fn("ide::def::scope::ModuleScope::resolve_import")
    fri = [F.fns[p] for p in F.with_closures(ri.path)]
    vis = False
    for f in fri:
        for b, t in f.calls():
            c = callee(t) or callee_def(t) or ""
            if c.endswith("PartialEq>::eq") and "Visibility" in c or ("Visibility" in str((t.get("fn") or {}).get("full", "")) and c.endswith("eq")):
                vis = True
    if not vis:
        # `if *visibility != Visibility::Public { continue }` on a fieldless enum with a derived PartialEq is a comparison of discriminants
        for f in fri:
            if any("Visibility" in str(l.get("ty")) for l in f.d["locals"]) and any((s_.get("rv") or {}).get("k") == "discr" for _b, _i, s_ in f.stmts()):
                vis = True
    res.ob("S4", "imports-public-only", "an unqualified import only brings in public declarations of the other module (filter on Visibility::Public)",
           vis, where=ri.loc(), how="Visibility comparison in resolve_import: %s" % vis)
    from rules import c18 as _c18v
    _c18v.imports_test_visibility_per_declaration(F, res, rule="S25")   # .. and decides it declaration by declaration


def lambda_param_range(F, res):
    """S5: the parameter range of a lambda covers exactly the patterns lowered from its parameter list"""
    lw = F.fn("ide::def::body::BodyLowerCtx::lower_expr")
    d = FL.Defs(lw)
    lam = [(b, s_) for b, i, s_ in lw.stmts() if s_.get("rv", {}).get("k") == "agg" and s_["rv"].get("adt") == "ide::def::module::Expr"
           and s_["rv"]["variant"] == "Lambda"]
    if not lam:
        res.anchor_missing("S5", "construction of Expr::Lambda in lower_expr")
        return
    for b, s_ in lam:
        rv = s_["rv"]
        body_o = d.origin_op(rv["ops"][rv["fields"].index("body")])
        par_o = d.origin_op(rv["ops"][rv["fields"].index("params")])
        ends = []
        if par_o.get("k") == "call" and FL.short(callee(par_o["t"]) or callee_def(par_o["t"])) == "IdxRange::new":
            rng = d.origin_op(par_o["t"]["args"][0])
            if rng.get("k") == "agg":
                for op in rng["rv"]["ops"]:
                    o = d.origin_op(op)
                    if o.get("k") == "call" and FL.short(callee(o["t"]) or callee_def(o["t"])) == "BodyLowerCtx::next_pattern_idx":
                        ends.append(o["bb"])
        body_bb = body_o.get("bb") if body_o.get("k") == "call" else None
        ok = len(ends) == 2 and body_bb is not None and all(lw.dominates(e, body_bb) and e != body_bb for e in ends)
        pats = [bb for bb, t in lw.calls() if FL.short(callee(t) or callee_def(t)) == "BodyLowerCtx::lower_pattern"]
        between = len(ends) == 2 and any(lw.can_reach(min(ends), [p_]) and lw.can_reach(p_, [max(ends)]) for p_ in pats)
        res.ob("S5", "lambda/param-range-closed-before-body", "both ends of a lambda's parameter range are taken before its body is lowered (binders inside the body are not parameters)",
               ok and between, where=lw.loc(s_["ln"]), how="range ends %s, body lowered at bb%s, parameter patterns lowered in between: %s" % (ends, body_bb, between))


# which resolver each name lookup must use (reviewed): 'expr' = resolver_for_expr / the SourceAnalyzer's resolver
# (sees local binders, innermost first), 'toplevel' = module scope only
RESOLVER_TABLE = {
    ("ide::def::hir::Import::definition", 0): ("toplevel", "an imported name is looked up in the exporting module's scope"),
    ("ide::def::scope::dependency_order_query", 0): ("expr", "a variable in a function body: a parameter or let binder shadows a top-level function of the same name"),
    ("ide::def::semantics::Semantics::resolve_nameref", 0): ("toplevel", "`module.name`: the name is looked up in the scope of the module named by the qualifier"),
    ("ide::def::semantics::Semantics::resolve_nameref", 1): ("expr", "an unqualified name in an expression: resolved with the SourceAnalyzer built for that node"),
    ("ide::ty::infer::InferCtx::infer_expr_inner", 0): ("expr", "Expr::Variable: locals shadow module items"),
    ("ide::ty::infer::InferCtx::infer_expr_inner", 1): ("toplevel", "`module.name` field access: looked up in the other module's scope"),
    ("ide::ty::infer::InferCtx::infer_pattern", 0): ("toplevel", "`module.Variant` pattern: looked up in the other module's scope"),
    ("ide::ty::infer::InferCtx::resolve_variant", 0): ("toplevel", "constructor names are capitalised and cannot be local binders; the function's module scope is used"),
}


def resolver_kind(F, f, d, op):
    o = d.origin_op(op)
    base = o
    while base.get("k") == "field":
        base = base["base"]
    if base.get("k") == "arg" and f.kind == "Closure":
        idx = FL.closure_env_field(o)
        if idx is not None:
            pf, po = FL.upvar_origin(F, f.path, idx)
            base = po
            while base.get("k") == "field":
                base = base["base"]
    if base.get("k") == "call":
        c = FL.short(callee(base["t"]) or callee_def(base["t"]))
        if c == "resolver::resolver_for_expr":
            return "expr"
        if c == "resolver::resolver_for_toplevel":
            return "toplevel"
        if c in ("Try::branch", "Semantics::analyze"):
            return "expr"      # analyzer.resolver from Semantics::analyze(node)?
        return c
    if base.get("k") == "arg":
        return "toplevel" if f.path.endswith("InferCtx::resolve_variant") else "arg"
    return str(base.get("k"))


def resolver_provenance(F, res, only=None, rule="S4"):
    """keys are (enclosing item, ordinal among the resolve_name call sites of the item and its closures): closures are
    not named in the key, so adding or removing an unrelated closure does not move a reviewed entry"""
    import re as _re
    n = 0
    roots = {}
    for p_, f in sorted(F.fns.items()):
        if not p_.startswith(("ide::", "<ide::")) or not f.blocks:
            continue
        if any(callee(t) == "ide::def::resolver::Resolver::resolve_name" for b, t in f.calls()):
            roots.setdefault(_re.sub(r"(::\{closure#\d+\})+$", "", p_), []).append(p_)
    sites = []
    for root, members in sorted(roots.items()):
        i = -1
        for p_ in sorted(members):
            f = F.fns[p_]
            d = FL.Defs(f)
            for b, t in f.calls():
                if callee(t) != "ide::def::resolver::Resolver::resolve_name":
                    continue
                i += 1
                sites.append((root, i, f, t, resolver_kind(F, f, d, t["args"][0])))
    # which table entry answers for which site: by ordinal when the function still has as many lookups as reviewed,
    # otherwise by resolver kind (a lookup that moved out into a helper renumbers the ones after it)
    by_root = {}
    for r, i, f_, t_, k_ in sites:
        by_root.setdefault(r, []).append((i, k_))
    assign, present = {}, set()
    for r, lst in by_root.items():
        ents = sorted(j for (r2, j) in RESOLVER_TABLE if r2 == r)
        if len(ents) == len(lst):
            for i, k_ in lst:
                assign[(r, i)] = (r, i)
                present.add((r, i))
        else:
            free = list(ents)
            for i, k_ in lst:
                hit = [j for j in free if RESOLVER_TABLE[(r, j)][0] == k_]
                if hit:
                    assign[(r, i)] = (r, hit[0])
                    present.add((r, hit[0]))
                    free.remove(hit[0])
    used = set()

    def callers_of_root(r, depth=2):
        out, cur = set(), {r}
        for _ in range(depth):
            nxt = set()
            for c in cur:
                for q in F.with_closures(c):
                    for f_, b_, t_ in F.callers_of(lambda c_, q=q: c_ == q):
                        nxt.add(_re.sub(r"(::\{closure#\d+\})+$", "", f_.path))
            out |= nxt
            cur = nxt
        return out
    only_helpers = set()
    if only:
        # a lookup that moved into a helper of the function in question still belongs to it
        for q in [p_ for p_ in F.fns if p_.startswith(only)]:
            only_helpers |= {_re.sub(r"(::\{closure#\d+\})+$", "", h) for h in F.with_helpers(q, depth=2) if h in F.fns}
    for root, i, f, t, kind in sites:
        if only and not root.startswith(only) and root not in only_helpers:
            continue
        n += 1
        want = RESOLVER_TABLE.get(assign.get((root, i), (None, None)))
        moved_from = None
        if want is None:
            # the lookup may have moved into a helper: an entry of a caller whose own site is gone, of the same kind
            for c in sorted(callers_of_root(root)):
                for (r2, j), w2 in sorted(RESOLVER_TABLE.items()):
                    if r2 == c and (r2, j) not in present and (r2, j) not in used and w2[0] == kind:
                        want, moved_from = w2, (r2, j)
                        break
                if want:
                    break
            if moved_from:
                used.add(moved_from)
        if want is None:
            res.ob(rule, "resolver/%s/%d" % (root, i), "this name lookup uses the right kind of resolver", False, where=f.loc(t["ln"]),
                   how="new resolve_name call site (resolver: %s) that is not in the reviewed table" % kind)
            continue
        res.ob(rule, "resolver/%s/%d" % (root, i), "this name lookup uses a resolver that sees %s (%s)%s" % (
            "the local binders in scope" if want[0] == "expr" else "the module scope", want[1],
            " [reviewed in %s before the code moved]" % moved_from[0].rsplit("::", 1)[-1] if moved_from else ""), kind == want[0], where=f.loc(t["ln"]),
            how="resolver comes from %s" % kind, reviewed=(kind == want[0]))
    res.floor("resolve_name call sites in crate ide", n, 8 if not only else 1)


def qualifier_first(F, res):
    """S4: a module-qualified type name `module.Type` is resolved through its qualifier: the module is the one
    Resolver::resolve_module gives for the text of TypeNameRef::module(), and the type is looked up in that module's top-level
    resolver (whether the current module may serve as a fallback is S15's business)."""
    f = F.fn("ide::def::semantics::classify_type_name")
    ok = False
    # the qualified lookup may live in a private helper of the semantics module (`resolve_qualified_type(sema, name, &module)`)
    from lib import inline as _IL
    fi = _IL.inlined(F, f, want=lambda p_: p_.startswith("ide::def::semantics::") and "{closure" not in p_ and p_ != f.path and
                     p_.rsplit("::", 1)[-1] not in ("classify_node", "classify_name", "classify_name_ref") and "::Semantics::" not in p_, depth=1)
    for u in [fi] + [F.fns[c] for c in F.closures_of(f.path)]:
        d = FL.Defs(u)
        mods = [(b, t) for b, t in u.calls() if FL.short(callee(t) or callee_def(t) or "") == "Resolver::resolve_module"]
        for b, t in mods:
            dep = FL.depends(F, u, d, t["args"][-1])
            if not any(x.endswith("TypeNameRef::module") for x in dep["calls"]):
                continue
            for b2, t2 in u.calls():
                if FL.short(callee(t2) or callee_def(t2) or "") == "Resolver::resolve_type" and u.can_reach(b, [b2]):
                    dep2 = FL.depends(F, u, d, t2["args"][0])
                    if any(x.endswith("resolver_for_toplevel") for x in dep2["calls"]) and any(x.endswith("Resolver::resolve_module") for x in dep2["calls"]):
                        ok = True
    res.ob("S4", "type-name/qualifier-first", "`module.Type` is looked up in the module named by its qualifier (resolve_module of TypeNameRef::module(), then "
           "that module's top-level resolver)", ok, where=f.loc(), how="qualified lookup found: %s" % ok)


RR = "ide::def::resolver::ResolveResult"


def qualified_value_kinds(F, res, rule="S6"):
    """S6: `module.name` resolves for every kind of module-level value. The kinds are read from Resolver::resolve_name
    (the ResolveResult variants it builds from the module scope's own values); the arm of each in the qualified-access
    match of the inferencer must record a field resolution (what classify_node / go-to-definition later reads)."""
    kinds = set()
    for vs in _arm_map(F, "ide::def::resolver::Resolver::resolve_name", RR).values():
        kinds |= vs
    res.floor("module-level value kinds built by Resolver::resolve_name", len(kinds), 3)
    fn = F.fn("ide::ty::infer::InferCtx::infer_expr_inner")
    d = FL.Defs(fn)
    dm = F.discr_map(RR)
    # the match on the result of the qualified lookup: resolve_name on a resolver made by resolver_for_toplevel
    target = None
    for b in sorted(fn.reachable()):
        t = fn.term(b)
        if t["k"] != "switch":
            continue
        l = op_local(t["op"])
        o = d.origin(l) if l is not None else {}
        if not (o.get("k") == "rv" and o["rv"]["k"] == "discr" and o["rv"]["of"] == RR):
            continue
        src = d.origin_place(o["rv"]["place"])
        base = src
        while base.get("k") == "field":
            base = base["base"]
        if base.get("k") == "call" and (callee(base["t"]) or "").endswith("Resolver::resolve_name"):
            who = d.origin_op(base["t"]["args"][0])
            wb = who
            while wb.get("k") == "field":
                wb = wb["base"]
            if wb.get("k") == "call" and (callee(wb["t"]) or "").endswith("resolver_for_toplevel"):
                target = (b, t)
    if target is None:
        res.anchor_missing(rule, "match on resolver_for_toplevel(..).resolve_name(label) in infer_expr_inner (qualified access)")
        return
    b0, t = target
    tg, reach = regions(fn, t, avoid=b0)
    common = set.intersection(*reach.values()) if len(reach) > 1 else set()
    inv = {n: v for v, n in dm.items()}
    for k in sorted(kinds):
        tgt = tg.get(inv.get(k))
        region = (reach[tgt] - common) if tgt is not None else set()
        rec = False
        for bb in sorted(region):
            tt = fn.term(bb)
            if tt["k"] == "call" and FL.short(callee(tt) or callee_def(tt)).endswith("HashMap::insert"):
                o = d.origin_op(tt["args"][0])
                names = []
                while o.get("k") == "field":
                    names += [e.get("n") for e in o.get("proj", []) if isinstance(e, dict)]
                    o = o["base"]
                if "field_resolution" in names:
                    rec = True
        res.ob(rule, "qualified/%s" % k, "`module.name` naming a %s records what it resolved to (else go-to-definition, references and rename "
               "do not see the qualified occurrence)" % k, rec, where=fn.loc(t["ln"]),
               how="arm records field_resolution" if rec else "the %s arm of the qualified-access match records nothing" % k)


MD = "ide::def::hir_def::ModuleDefId"


def _arm_map(F, fn_path, build_adt):
    """ModuleDefId variant -> variants of `build_adt` built in its arm of the match on a ModuleDefId inside fn_path (or in a
    helper of the resolver module it delegates to)"""
    dm = F.discr_map(MD)
    out = {}
    for p_ in F.with_helpers(fn_path, depth=1):
        if p_ != fn_path and "{closure" not in p_ and not p_.startswith("ide::def::resolver::"):
            continue
        fn = F.fns[p_]
        d = FL.Defs(fn)
        for b in sorted(fn.reachable()):
            t = fn.term(b)
            if t["k"] != "switch":
                continue
            l = op_local(t["op"])
            o = d.origin(l) if l is not None else {}
            if not (o.get("k") == "rv" and o["rv"]["k"] == "discr" and o["rv"]["of"] == MD):
                continue
            tg, reach = regions(fn, t, avoid=b)
            common = set.intersection(*reach.values()) if len(reach) > 1 else set()
            for v, x in tg.items():
                for bb in reach[x] - common:
                    for s in fn.blocks[bb]["stmts"]:
                        rv = s.get("rv")
                        if rv and rv["k"] == "agg" and rv.get("adt") == build_adt and rv.get("variant") not in ("Local", "BuiltIn", "Module"):
                            out.setdefault(dm[v], set()).add(rv["variant"])
    return out


def _arm_kinds(F, fn_path, build_adt):
    return set(_arm_map(F, fn_path, build_adt))


def namespaces(F, res, rule7="S7", rule8="S8"):
    """S7: an unqualified import takes its items from the module the import statement names (full path through the module
    map), not from any table keyed by local accessors. S8: the module scope's `values` only ever receives value kinds and
    `types` only type kinds (the kinds are read from Resolver::resolve_name / resolve_type), and an imported item goes to
    `types` only for `type X` imports and to `values` only otherwise."""
    ri = F.fn("ide::def::scope::ModuleScope::resolve_import")
    d = FL.Defs(ri)
    ms = [(b, t) for b, t in ri.calls() if FL.short(callee(t) or callee_def(t)).endswith("module_scope")]
    ok, why = bool(ms), "no module_scope call"
    for b, t in ms:
        o = d.origin_op(t["args"][-1])
        base = o
        while base.get("k") == "field":
            base = base["base"]
        if base.get("k") == "call" and (callee(base["t"]) or "").endswith("ModuleMap::file_for_module_name"):
            a = d.origin_op(base["t"]["args"][1])
            names = []
            while a.get("k") == "field":
                names += [e.get("n") for e in a.get("proj", []) if isinstance(e, dict)]
                a = a["base"]
            ok, why = "name" in names, "file_for_module_name(%s)" % (names or a.get("k"))
        else:
            ok = False
            why = "the file comes from %s" % (FL.short(callee(base["t"]) or callee_def(base["t"])) if base.get("k") == "call" else base.get("k"))
    res.ob(rule7, "resolve_import/module-by-full-path", "the module an unqualified import takes its items from is looked up in the module map by the "
           "import's full module path (nothing keyed by a local accessor or alias decides it)", ok, where=ri.loc(), how=why)
    val_k = _arm_kinds(F, "ide::def::resolver::Resolver::resolve_name", RR)
    typ_k = _arm_kinds(F, "ide::def::resolver::Resolver::resolve_type", RR)
    res.analysed["value_kinds"] = sorted(val_k)
    res.analysed["type_kinds"] = sorted(typ_k)
    res.floor("ModuleDefId kinds the resolver treats as values / types", len(val_k) + len(typ_k), 5)
    fn = F.fn("ide::def::scope::module_scope_with_map_query")
    d = FL.Defs(fn)
    allv = set(F.discr_map(MD).values())
    n = 0
    for b, t in fn.calls():
        c = FL.short(callee(t) or callee_def(t))
        if not c.endswith("::insert"):
            continue
        o = d.origin_op(t["args"][0])
        names = []
        while o.get("k") == "field":
            names += [e.get("n") for e in o.get("proj", []) if isinstance(e, dict)]
            o = o["base"]
        which = "values" if "values" in names else "types" if "types" in names else None
        if which is None:
            continue
        n += 1
        ordn = [bb for bb, tt in fn.calls() if FL.short(callee(tt) or callee_def(tt)) == c].index(b)
        v = d.origin_op(t["args"][2], ("Clone>::clone",))
        gs = FL.gates(F, fn, [b], d)
        from_import = any((g.get("callee") or "").endswith("ModuleScope::resolve_import") for g in gs)
        if v.get("k") == "agg" and v["rv"].get("adt") == MD:
            kinds = {v["rv"]["variant"]}
        else:
            kinds = set(allv)
            for g in gs:
                if g.get("ty") == MD or set(g.get("allowed") or []) <= allv and g.get("allowed") and all(isinstance(x, str) for x in g["allowed"]):
                    kinds &= set(g["allowed"])
        want = val_k if which == "values" else typ_k
        res.ob(rule8, "module-scope/%s/%d" % (which, ordn), "only %s kinds are bound in the module scope's `%s` (a type bound as a value hides the "
               "constructor of the same name, and vice versa)" % ("value" if which == "values" else "type", which), kinds <= want,
               where=fn.loc(t["ln"]), how="kinds that can reach this insert: %s" % sorted(kinds))
        if from_import:
            flag = [g["allowed"] for g in gs if g.get("allowed") in ([True], [False])]
            need = [False] if which == "values" else [True]
            res.ob(rule8, "import/%s/%d" % (which, ordn), "an imported item is bound in `%s` only when the import %s written `type X`" %
                   (which, "was" if which == "types" else "was not"), need in flag, where=fn.loc(t["ln"]),
                   how="boolean gates on this insert: %s" % flag)
    res.floor("inserts into the module scope's values/types", n, 7)


def module_qualifier_contexts(F, res, rule="S10"):
    """S10: a NameRef that stands in a module-qualifier node (MODULE_NAME_REF, the `m` of the pattern `m.Variant(..)`) names a module.
    Semantics::resolve_nameref must decide that before it falls through to the value namespace, where a local or a function of the
    same spelling would capture it (rename of the local then rewrites the qualifier)."""
    from lib import shape
    from lib.facts import op_place
    R = shape.results(F)
    produced = [s for s in R["finish_sites"] if s.endswith("|MODULE_NAME_REF")]
    res.floor("parser sites that build a MODULE_NAME_REF around a NAME_REF (the context exists)", len(produced), 1)
    f0 = F.fn("ide::def::semantics::Semantics::resolve_nameref")
    f = f0
    d = FL.Defs(f)
    casts = []
    for b, t in f.calls():
        targs = (t.get("fn") or {}).get("targs") or []
        c = callee(t) or callee_def(t) or ""
        if FL.short(c) in ("Option::and_then", "Option::map", "Option::filter", "Option::is_some_and") and len(targs) > 1 and \
                any(x == "syntax::ast::ModuleNameRef" or "<syntax::ast::ModuleNameRef as rowan::ast::AstNode>" in x for x in targs):
            casts.append((b, t))
        if "<syntax::ast::ModuleNameRef as rowan::ast::AstNode>::cast" in c or "<syntax::ast::ModuleNameRef as rowan::ast::AstNode>::can_cast" in c:
            casts.append((b, t))
    falls = []
    for b, t in f.calls():
        if (callee(t) or "") == "ide::def::resolver::Resolver::resolve_name":
            dep = FL.depends(F, f, d, t["args"][0])
            if "resolver::resolver_for_toplevel" not in dep["calls"] and "resolver_for_toplevel" not in " ".join(dep["calls"]):
                falls.append((b, t))

    def reaches(op, target):
        seen, st = set(), [op]
        while st and len(seen) < 200:
            o = st.pop()
            pl = op_place(o) if isinstance(o, dict) else None
            if pl is None or pl["l"] in seen:
                continue
            seen.add(pl["l"])
            if pl["l"] == target:
                return True
            for dd in d.defs.get(pl["l"], []):
                if dd[2] == "call":
                    st.extend(dd[3]["args"])
                else:
                    rv = dd[3]["rv"]
                    for key in ("op", "a", "b"):
                        if isinstance(rv.get(key), dict):
                            st.append(rv[key])
                    if "place" in rv:
                        st.append({"cp": rv["place"]})
                    st.extend(rv.get("ops", []) or [])
        return False
    ok = bool(casts) and bool(falls)
    why = []
    for b, t in falls:
        gs = FL.gates(F, f, [b], d)
        hit = False
        for g in gs:
            neg = g["allowed"] in ([False], ["None"]) and not (g.get("callee") or "").endswith("is_none") or \
                (g.get("callee") or "").endswith("is_none") and g["allowed"] == [True]
            if not neg:
                continue
            ops = [g["call_t"]["args"][0]] if g.get("call_t") else ([g["op"]] if g.get("op") else [])
            if g.get("call_t") and any(g["call_bb"] == cb for cb, _ in casts if "call_bb" in g):
                hit = True
            for o in ops:
                if any(reaches(o, ct["dest"]["l"]) for _, ct in casts):
                    hit = True
        if not hit:
            ok = False
            why.append("value lookup at line %d is reachable with a ModuleNameRef parent" % t["ln"])
    res.ob(rule, "name-ref/module-qualifier-before-values", "a NameRef whose parent is a MODULE_NAME_REF is resolved as a module; the value-namespace "
           "lookup of resolve_nameref is reached only when the parent is not such a node", ok, where=f0.loc(),
           how="casts of the parent to ModuleNameRef: %d; fall-through value lookups: %d; %s" % (len(casts), len(falls), "; ".join(why) or "each gated by the cast failing"))


def binders_independent_of_initialiser(F, res, rule="S11"):
    """S11: the names a `let` / `use` statement binds are in scope for the rest of the block whatever stands on the right-hand side
    (`let a = todo`, `let a = panic`, a value still being typed are not `ast::Expr` nodes: StmtLet::body() is None for them)"""
    f = F.fn("ide::def::body::BodyLowerCtx::lower_expr_stmt")
    d = FL.Defs(f)
    INIT = {"StmtLet::body": "let", "StmtUse::expr": "use"}
    sites = [(b, t) for b, t in f.calls() if FL.short(callee(t) or callee_def(t) or "") == "BodyLowerCtx::lower_pattern"]
    # a lowering inside a closure (`.map(|p| self.lower_pattern(p))`) runs under the conditions of the place that builds the closure
    for cp in F.closures_of(f.path):
        for b2, t2 in F.fns[cp].calls():
            if FL.short(callee(t2) or callee_def(t2) or "") == "BodyLowerCtx::lower_pattern":
                for b, i, s in f.stmts():
                    rv = s.get("rv")
                    if rv and rv["k"] == "agg" and rv.get("closure") == cp:
                        sites.append((b, dict(t2, ln=s["ln"])))
    res.floor("pattern lowerings in lower_expr_stmt", len(sites), 2)

    def sources(g):
        o = g.get("origin") or {}
        ops = []
        if o.get("k") == "field" and o["base"].get("k") == "agg" and o["base"]["rv"].get("agg") == "tuple":
            idx = [e["f"] for e in o["proj"] if isinstance(e, dict) and "f" in e]
            if idx and idx[0] < len(o["base"]["rv"]["ops"]):
                ops = [o["base"]["rv"]["ops"][idx[0]]]
        calls = set()
        if g.get("callee"):
            calls.add(FL.short(g["callee"]))
            ops += list(g["call_t"]["args"])
        for op in ops:
            calls |= FL.depends(F, f, d, op)["calls"]
        return calls
    for n, (b, t) in enumerate(sites):
        bad = []
        for g in FL.gates(F, f, [b], d):
            hit = sources(g) & set(INIT)
            if hit and g["allowed"] in (["Some"], [True]):
                bad += sorted(hit)
        res.ob(rule, "binders-lowered-without-initialiser/%d" % n, "the pattern of a let / use statement is lowered (its names bound for the following "
               "statements) on every path, not only when the right-hand side is an expression node", not bad, where=f.loc(t["ln"]),
               how="lowering of the pattern is conditional on %s being Some" % bad if bad else "no condition on the initialiser")


def thorough(F, res):
    from lib import shape as _sh
    _sh.crosscheck(F, res)


def statement_blocks_and_field_access(F, res):
    """S12: a `{ .. }` in statement position is its own scope: lower_expr_stmt never hands the enclosing statement list to a nested
    call of itself (binders of the inner block would stay visible after it). S13: in `base.label` a local record wins over an
    imported module of the same name: the inferencer records a module resolution for the base only on paths on which the
    test of the base's type (is it a record with that field?) has already been made."""
    f = F.fn("ide::def::body::BodyLowerCtx::lower_expr_stmt")
    bad = []
    for q in [f.path] + list(F.closures_of(f.path)):
        g = F.fns[q]
        d = FL.Defs(g)
        for b, t in g.calls():
            if (callee(t) or "") != f.path or len(t["args"]) < 2:
                continue
            o = d.origin_op(t["args"][1])
            src = o
            if q != f.path:
                idx = FL.closure_env_field(o)
                if idx is not None:
                    _p, src = FL.upvar_origin(F, q, idx)
            base = src
            while base.get("k") == "field":
                base = base["base"]
            if base.get("k") == "arg" and base.get("n") == 2:
                bad.append(t["ln"])
    res.ob("S12", "statement-block-is-a-scope", "a block in statement position is lowered as a nested Expr::Block: lower_expr_stmt does not pass the "
           "statement list it was given to a nested call of itself", not bad, where=f.loc(bad[0]) if bad else f.loc(),
           how="nested calls that push into the caller's list at lines %s" % bad if bad else "no call of lower_expr_stmt receives the caller's list")
    g = F.fn("ide::ty::infer::InferCtx::infer_expr_inner")
    d = FL.Defs(g)
    ins = []
    for b, t in g.calls():
        if FL.short(callee(t) or callee_def(t) or "").endswith("::insert"):
            o = d.origin_op(t["args"][0])
            if o.get("k") == "field" and any(isinstance(e, dict) and e.get("n") == "module_resolution" for e in o.get("proj", [])):
                ins.append((b, t))
    tests = []
    for b in sorted(g.reachable()):
        t = g.term(b)
        if t["k"] != "switch":
            continue
        l = op_local(t["op"])
        o = d.origin(l) if l is not None else {}
        if o.get("k") == "rv" and o["rv"]["k"] == "discr" and o["rv"]["of"] in ("ide::ty::Ty", "ide::ty::infer::Ty"):
            tests.append(b)
    ok = bool(ins) and all(any(g.dominates(tb, b) for tb in tests) for b, _ in ins)
    res.ob("S13", "field-access/record-before-module", "`base.label` records a module resolution for its base only after the base's inferred type was "
           "tested (a local record of the name of an imported module is not taken for the module)", ok, where=g.loc(ins[0][1]["ln"]) if ins else g.loc(),
           how="module_resolution inserts: %d, each dominated by a test of the base's type (%d tests on Ty): %s" % (len(ins), len(tests), ok))
    module_qualifier_is_always_recorded(F, res)


def module_qualifier_is_always_recorded(F, res, rule="S20"):
    """S20: Semantics::resolve_nameref recognises the `module` of `module.member` inside a function body through
    BodyCtx.module_resolution only; without an entry the qualifier is looked up as a plain name and becomes whatever function,
    constant or local has the name of the module. The entry therefore depends on the qualifier alone: once the base of a field
    access resolved as an imported module (Resolver::resolve_module returned Some), every path to a return passes the insert -
    whether the member exists in that module is a different question (it may not exist *yet*)."""
    g = F.fn("ide::ty::infer::InferCtx::infer_expr_inner")
    d = FL.Defs(g)
    ins = []
    for b, t in g.calls():
        if FL.short(callee(t) or callee_def(t) or "").endswith("::insert"):
            o = d.origin_op(t["args"][0])
            if o.get("k") == "field" and any(isinstance(e, dict) and e.get("n") == "module_resolution" for e in o.get("proj", [])):
                ins.append(b)
    n = 0
    rets = g.return_blocks()
    for b, t in g.calls():
        if not (callee(t) or "").endswith("Resolver::resolve_module") or t.get("target") is None:
            continue
        # the switch on the Option this call returned
        some = None
        for sb in sorted(g.reachable()):
            st = g.term(sb)
            if st["k"] != "switch":
                continue
            l = op_local(st["op"])
            o = d.origin(l) if l is not None else {}
            if o.get("k") == "rv" and o["rv"]["k"] == "discr" and not o["rv"]["place"]["p"] and o["rv"]["place"]["l"] == t["dest"]["l"]:
                some = [tg for v, tg in st["targets"] if v == 1] or ([st["otherwise"]] if [v for v, _ in st["targets"]] == [0] else [])
                break
        if not some or not (some[0] in ins or g.can_reach(some[0], ins)):
            continue
        n += 1
        leak = some[0] not in ins and g.can_reach(some[0], rets, avoid=ins)
        res.ob(rule, "field-access/module-recorded/%d" % (n - 1), "once the base of `base.label` resolved as an imported module, the module resolution of the base is "
               "recorded on every path to return (it does not wait for the member to resolve)", not leak, where=g.loc(t["ln"]),
               how="a return is reachable from the Some edge of resolve_module without the insert into module_resolution: %s" % leak)
    res.floor("resolve_module sites of the inferencer that record a module qualifier", n, 1)


def module_names_are_positional(F, res, rule="S14"):
    """S14: the keys of ModuleMap (module name -> file) are built by ide::base::module_name from a file's path below its root,
    the look-ups by lower_import from the segments of the import statement; both sides must build the same string. The path
    side is positional - the first component below the root (`src`, `test`, whatever it is called) is dropped, the rest is the
    name - so it compares no component with a directory name: a module in a directory called `test` below `src` keeps its
    `test/` (a name-based strip turns src/test/helpers.gleam into `helpers`, which then shadows src/helpers.gleam)."""
    import re as _re
    f = F.fn("ide::base::module_name")
    lits = set()
    for u in [f] + [F.fns[c] for c in F.closures_of(f.path)]:
        for b, i, s in u.stmts():
            rv = s.get("rv") or {}
            for o in [rv.get("op"), rv.get("a"), rv.get("b")] + list(rv.get("ops", []) or []):
                if isinstance(o, dict) and isinstance(o.get("k"), dict) and "str" in o["k"]:
                    lits.add(o["k"]["str"])
        for b, t in u.calls():
            for a in t["args"]:
                if isinstance(a, dict) and isinstance(a.get("k"), dict) and "str" in a["k"]:
                    lits.add(a["k"]["str"])
        for pr in u.d.get("promoted", []) or []:
            for blk in pr.get("blocks", []) or []:
                for s in blk.get("stmts", []):
                    rv = s.get("rv") or {}
                    for o in [rv.get("op")] + list(rv.get("ops", []) or []):
                        if isinstance(o, dict) and isinstance(o.get("k"), dict) and "str" in o["k"]:
                            lits.add(o["k"]["str"])
    names = sorted(x for x in lits if _re.fullmatch(r"[A-Za-z_][A-Za-z0-9_]*[/\\\\]?", x) and x != "gleam")
    drops = [t for b, t in f.calls() if FL.short(callee(t) or callee_def(t) or "").rsplit("::", 1)[-1] in ("skip", "nth", "next", "strip_prefix")]
    res.ob(rule, "module_name/positional", "module_name derives the module's name from the position of the path components below the root and "
           "compares none of them with a directory name", not names and bool(drops), where=f.loc(),
           how="directory-name literals: %s; positional steps (skip/next/strip_prefix(root)): %d" % (names, len(drops)))


def qualified_types_do_not_fall_back(F, res, rule="S15"):
    """S15: `module.Type` names a type of that module. When the module cannot be resolved (a dependency whose sources are not on
    disk yet) or has no such type, go-to-definition must answer nothing: a type of the same name in the current module is a
    *different declaration*. In classify_type_name the unqualified lookup (Semantics::resolve_type) is reached only when the
    name has no module qualifier (TypeNameRef::module() is None, or the parent is no TYPE_NAME_REF)."""
    f = F.fn("ide::def::semantics::classify_type_name")
    units = [f] + [F.fns[c] for c in F.closures_of(f.path)]
    sites, bad = 0, []
    for u in units:
        d = FL.Defs(u)
        for b, t in u.calls():
            if not (callee(t) or "").endswith("Semantics::resolve_type"):
                continue
            sites += 1
            ok = False
            for g in FL.gates(F, u, [b], d):
                c = FL.short(g.get("callee") or "")
                if c.endswith("TypeNameRef::module") and g["allowed"] == ["None"]:
                    ok = True
                if c.rsplit("::", 1)[-1] in ("cast", "and_then") and g["allowed"] == ["None"]:
                    dep = FL.depends(F, u, d, g["call_t"]["args"][0]) if g["call_t"]["args"] else {"calls": set()}
                    full = ((g["call_t"].get("fn") or {}).get("full") or "") + " ".join((g["call_t"].get("fn") or {}).get("targs") or [])
                    if "TypeNameRef" in full or any(x.endswith("TypeNameRef::module") for x in dep["calls"]):
                        ok = True
            if not ok:
                bad.append("%s line %d" % (FL.short(u.path), t["ln"]))
    res.ob(rule, "type-name/no-unqualified-fallback", "a qualified type name is never resolved through the unqualified lookup of the current module",
           sites > 0 and not bad, where=f.loc(), how="unqualified lookups: %d; reached although a module qualifier may be present: %s" % (sites, bad))


S16_REVIEWED = {}


def lowering_visits_every_child(F, res, rule="S16"):
    """S16: scopes, inference and every feature work on the lowered body. An AST node the lowering turns into `Missing` without
    looking inside takes everything written in it out of the analysis: the names in it resolve to nothing or - for a lambda, a
    block or a case in it - through the enclosing scope to a *different* declaration than the one Gleam binds. For every
    variant of ast::Expr / ast::Pattern whose node type has an accessor that (transitively) yields expressions, patterns or
    statements, the arm of BodyLowerCtx::lower_expr / lower_pattern for it calls such an accessor (the catch-all arm calls none)."""
    from rules import c04 as _c04
    acc = _c04.accessors(F)
    ROOTS = {"syntax::ast::Expr", "syntax::ast::Pattern", "syntax::ast::StatementExpr", "syntax::ast::Block"}
    bearing = set(ROOTS)
    changed = True
    while changed:
        changed = False
        for node, lst in acc.items():
            if node not in bearing and any(T in bearing for _m, T, _i in lst):
                bearing.add(node)
                changed = True
    n = 0
    for fn_name, enum in (("lower_expr", "syntax::ast::Expr"), ("lower_pattern", "syntax::ast::Pattern")):
        fn = F.fn("ide::def::body::BodyLowerCtx::" + fn_name)
        d = FL.Defs(fn)
        b0, t = match_on(fn, d, enum)
        if t is None:
            res.anchor_missing(rule, "match on %s in %s" % (enum, fn_name))
            continue
        dm = F.discr_map(enum)
        inv = {nm: v for v, nm in dm.items()}
        tg, reach = regions(fn, t)
        common = set.intersection(*reach.values()) if len(reach) > 1 else set()
        a = F.adt(enum)
        for v in a["variants"]:
            node = v["fields"][0]["ty"] if v["fields"] else None
            if node not in bearing:
                continue
            bear = sorted(m for m, T, _i in acc.get(node, []) if T in bearing)
            n += 1
            target = tg.get(inv[v["name"]], t["otherwise"])
            region = reach[target] - common if target != t["otherwise"] or len(reach) > 1 else reach[target]
            called = set()
            for bb in region:
                tt = fn.term(bb)
                if tt["k"] == "call":
                    c = callee(tt) or callee_def(tt) or ""
                    if c.startswith(node + "::"):
                        called.add(c.rsplit("::", 1)[-1])
            # closures created in the arm (`.map(|clause| ..)`) look at children of children; the node's own accessor is called in the arm
            ok = bool(called & set(bear))
            res.ob(rule, "%s/%s" % (fn_name, v["name"]), "%s lowers what is written inside a %s (it calls one of the accessors %s)" % (fn_name, v["name"], bear),
                   ok, where=fn.loc(t["ln"]), how="accessors called in the arm: %s" % sorted(called) if called or target != t["otherwise"]
                   else "falls into the catch-all arm: lowered to Missing, its children never reach scopes or inference")
    res.floor("expression-bearing AST variants lowered", n, 20)
    # every node type the lowering looks into: all of its accessors that yield expressions / patterns / statements are used
    # somewhere in the lowering (a clause has patterns, a guard and a body; a let has a pattern and a value ..)
    units = [f for p_, f in F.fns.items() if p_.startswith("ide::def::body::BodyLowerCtx::") and f.blocks]
    called = {}
    for u in units:
        for b, tt in u.calls():
            c = callee(tt) or callee_def(tt) or ""
            if c.startswith("syntax::ast::") and c.count("::") >= 3:
                node, m = c.rsplit("::", 1)
                called.setdefault(node, set()).add(m)
    m_ = 0
    for node in sorted(called):
        bear = sorted(m for m, T, _i in acc.get(node, []) if T in bearing)
        if node not in bearing or not bear:
            continue
        m_ += 1
        missing = [m for m in bear if m not in called[node] and (node.rsplit("::", 1)[-1], m) not in S16_REVIEWED]
        res.ob(rule, "children/%s" % node.rsplit("::", 1)[-1], "the lowering uses every accessor of %s that yields expressions, patterns or statements %s"
               % (node.rsplit("::", 1)[-1], bear), not missing, where="crates/ide/src/def/body.rs",
               how="never asked: %s" % missing if missing else "asked: %s" % sorted(called[node] & set(bear)))
    res.floor("AST node types the lowering looks into", m_, 15)


def name_tables_have_one_duplicate_policy(F, res, rule="S18"):
    """S18: a module may declare a name twice (an `@target(erlang)` / `@target(javascript)` pair, or an error the user is
    about to fix). Which declaration the name then stands for must be the same everywhere it is asked: in the module's own
    scope, for an importer, for a qualified use. The name tables of ModuleScope (values, types, modules) are written with the
    overwriting `insert` only - the last declaration wins, as it does where resolve_import walks the declarations in order.
    A keep-the-first write (`entry(..).or_insert(..)`) for one kind makes the declaring module and its importers bind the two
    halves of one symbol differently: rename then edits only some of its uses."""
    from lib import effects as EF
    MS = "ide::def::scope::ModuleScope"
    f = F.fn("ide::def::scope::module_scope_with_map_query")
    n, bad = 0, []
    for p_ in F.with_helpers(f.path, depth=2):
        if not p_.startswith("ide::def::scope::") or p_ not in F.fns or not F.fns[p_].blocks:
            continue
        for e in EF.field_effects(F.fns[p_], MS):
            if e["field"] in ("values", "types", "modules") and e["how"] in ("mutborrow", "assign"):
                n += 1
                c = FL.short(e.get("callee") or "")
                if c.rsplit("::", 1)[-1] not in ("insert", "extend", "insert_full"):
                    bad.append("%s.%s written through %s (line %s)" % ("ModuleScope", e["field"], c or e["how"], e.get("ln")))
    res.ob(rule, "module-scope/last-declaration-wins", "every write to the name tables of a module scope overwrites (insert): a name declared twice stands "
           "for its last declaration in the module itself and for every importer", n >= 6 and not bad, where=f.loc(),
           how="writes to values/types/modules: %d; not an overwriting insert: %s" % (n, bad))


def every_visited_expression_has_its_scope_recorded(F, res, rule="S22"):
    """S22: whoever asks for the scope of an expression gets the scope that expression was visited in. The scope walk records
    `scope_by_expr[expr] = scope` for the expression it is called with - every expression, on every path, before it looks at what
    kind of expression it is. Resolution walks up to the nearest recorded ancestor, but completion asks for exactly the
    expression under the cursor: an expression kind left out of the table (a constructor name being typed, a literal, a hole)
    resolves in no scope and every local disappears from the offer."""
    fn = F.fns.get(SC + "traverse_expr")
    if fn is None:
        res.anchor_missing(rule, SC + "traverse_expr")
        return
    d = FL.Defs(fn)
    ok, seen = [], []
    for b, t in fn.calls():
        if FL.short(callee(t) or callee_def(t) or "") != "ArenaMap::insert":
            continue
        o = d.origin_op(t["args"][0])
        names = [e.get("n") for e in (o.get("proj") or []) if isinstance(e, dict) and "f" in e] if o.get("k") == "field" else []
        if "scope_by_expr" not in names:
            continue
        ko, vo = d.origin_op(t["args"][1]), d.origin_op(t["args"][2])
        seen.append(t["ln"])
        if ko.get("k") == "arg" and vo.get("k") == "arg" and all(fn.dominates(b, r) for r in fn.return_blocks()) and not FL.gates(F, fn, [b], d):
            ok.append(t["ln"])
    res.ob(rule, "scope-walk/records-every-expression", "ExprScopes::traverse_expr records the scope of the expression it was called with unconditionally "
           "(key and scope are its own parameters; the insert lies on every path and behind no test)", bool(ok), where=fn.loc(),
           how="unconditional insert at line %s" % ok if ok else "inserts into scope_by_expr at lines %s, none unconditional" % seen)


def lowering_takes_every_child_of_a_list(F, res, rule="S23"):
    """S23: a list-valued accessor of the syntax tree (AstChildren: the alternatives of a clause pattern, the arguments of a call,
    the statements of a block) is lowered as a list. `pat.patterns().next()` lowers the first alternative of `Ok(v) | Error(v)` and
    forgets the others: their binders do not exist - no definition to go to, no type, nothing to rename. In the functions that lower
    bodies and items, an AstChildren iterator whose head is taken with next() is also handed on to something that consumes the rest
    (a loop, map / extend / collect); taking only the head is accepted where the accessor is used as "the first child of that kind"
    by the reviewed sites below."""
    REVIEWED_HEADS = {}
    n, bad = 0, []
    for p_, f in sorted(F.fns.items()):
        if not p_.startswith(("ide::def::body::BodyLowerCtx::", "ide::def::lower::")) or not f.blocks:
            continue
        d = FL.Defs(f)
        for b, t in f.calls():
            c = callee(t) or callee_def(t) or ""
            if not c.endswith("::next") or not t["args"]:
                continue
            al = op_local(t["args"][0])
            ty = f.local_ty(al) if al is not None else ""
            if "AstChildren<" not in (ty or ""):
                continue
            if any("desugaring of `for` loop" in str(x) for x in (t.get("exp_names") or t.get("mac") or [])) or "for" in str(t.get("mac") or ""):
                continue
            n += 1
            o = d.origin_op(t["args"][0])
            base_l = o.get("l")
            # other uses of the same iterator (the local behind the &mut)
            root = base_l
            others = []
            for b2, t2 in f.calls():
                if b2 == b:
                    continue
                for a in t2["args"]:
                    o2 = d.origin_op(a) if "k" not in a else {}
                    if o2.get("l") == root and root is not None:
                        c2 = FL.short(callee(t2) or callee_def(t2) or "")
                        if c2.rsplit("::", 1)[-1] not in ("next", "drop", "size_hint", "clone"):
                            others.append(c2)
            key = "%s/%s" % (FL.short(p_), ty.split("AstChildren<", 1)[1].rstrip(">").rsplit("::", 1)[-1])
            if not others and key not in REVIEWED_HEADS:
                bad.append("%s line %s: only the first %s is taken" % (FL.short(p_), t["ln"], key.rsplit("/", 1)[-1]))
    res.ob(rule, "lowering/lists-as-lists", "where the lowering takes the head of a list of children with next(), the rest of the list is consumed as well",
           not bad, where="crates/ide/src/def/body.rs", how="%d head(s) taken, each with the rest handed on" % n if not bad else "; ".join(bad))


def alternatives_bind_one_name_once(F, res, rule="S24"):
    """S24: the binders of `A(x) | B(x)` are one variable. The walk that lists the names a pattern binds has an arm for every kind of
    pattern with sub-patterns (the completeness analysis of S1), and the inferencer gives equally named binders of the
    alternatives one type: in the AlternativePattern arm of infer_pattern the binder walk is called and the variables it finds
    (looked up in pattern_to_ty) are unified."""
    IC = "ide::ty::infer::InferCtx::"
    wb = "ide::def::body::Body::walk_binders"
    if wb not in F.fns:
        res.ob(rule, "alternatives/binders-listed", "a function lists the names a pattern binds (the alternatives of a pattern are compared through it)", False,
               where="crates/ide/src/def/body.rs", how="Body::walk_binders does not exist")
        return
    visitor_completeness(F, res, "walk_binders", "Pattern", rule=rule, fn_path=wb, visits=(wb,), skips={}, what="lists the binders of", floor=5, selections=False)
    f = F.fns.get(IC + "infer_pattern")
    if f is None:
        res.anchor_missing(rule, IC + "infer_pattern")
        return
    d = FL.Defs(f)
    b0, t = match_on(f, d, "ide::def::module::Pattern")
    dm = {n_: v for v, n_ in F.discr_map("ide::def::module::Pattern").items()}
    tg, reach = regions(f, t)
    common = set.intersection(*reach.values()) if len(reach) > 1 else set()
    region = reach.get(tg.get(dm.get("AlternativePattern")), set()) - common
    unit_calls = []
    for b in sorted(region):
        tt = f.term(b)
        if tt["k"] == "call":
            unit_calls.append((b, tt))
    walks = [b for b, tt in unit_calls if (callee(tt) or "") == wb]
    looks = [b for b, tt in unit_calls if FL.short(callee(tt) or callee_def(tt) or "") == "ArenaMap::get" and
             "pattern_to_ty" in str(d.origin_op(tt["args"][0]).get("proj"))]
    unis = [b for b, tt in unit_calls if (callee(tt) or "").endswith(("::unify_var", "::try_unify_var"))]
    res.ob(rule, "alternatives/one-type-per-name", "the AlternativePattern arm of infer_pattern lists the binders of every alternative, looks their variables up and "
           "unifies those of one name", bool(walks) and bool(looks) and bool(unis), where=f.loc(),
           how="binder walks %d, look-ups in pattern_to_ty %d, unifications %d in the arm" % (len(walks), len(looks), len(unis)))
