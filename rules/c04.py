"""C04 — Well-formed programs parse error-free with Gleam's structure (operator grouping, FIRST sets)."""
from lib import flow as FL
from lib import teval
from lib.facts import callee, callee_def, op_local, op_place
from rules import parser_model as PM

META = {
    "level": "other",
    "technique": "static analysis: tabulation of the binding-power functions from MIR over all token kinds, compared with Gleam's precedence table; def-use shape of the Pratt loop; FIRST-set coverage",
    "rule": "G1 for every ordered pair of the 23 binary operators (and both prefix operators) the grouping the Pratt loop "
            "produces, computed from infix_bp/prefix_bp as tabulated from their MIR, equals Gleam's; G2 the Pratt loop passes "
            "the right binding power of the operator it just compared; G3 every kind an expression/pattern/type dispatcher "
            "handles is in the FIRST set that guards its call sites; the postfix continuation is reached at every min_bp; G4 the "
            "generated typed accessors of one node use each position once per target type, and no two accessors of one node "
            "have target types that cast the same child kind (else both return the same child). Non-trivial = an operator "
            "pair, a def-use chain or an accessor pair. G3 also per call site (the guarding set contains the callee's FIRST set); G5 every child kind the parser can put under a node kind (engine S) is castable by the target type of some accessor of that node's AST type, or is reviewed; G6 Gleam's number literal forms are matched as a whole by the regex of their token kind, and `0.1` in a tuple-index chain is not taken by a longer token.",
    "explanation": "The Pratt loop touches binding powers only through `lbp < min_bp`, `lbp == min_bp` and passing rbp down, so "
                   "the grouping of `a op1 b op2 c` is decided, for all 23x23 operator pairs, by comparing numbers that engine T "
                   "reads off the MIR of infix_bp/prefix_bp. The oracle is Gleam's published precedence table (all binary "
                   "operators left-associative, unary tighter than any binary). G3 catches a dispatcher arm that no guarded "
                   "call site can reach (valid programs rejected). G12 = C14 U12 (engine U). G13 = C02 P5a (a well-formed expression below the nesting limit is not refused: the wrap budget is charged only where an operator follows).",
    "not_decided": "statement/item boundaries, label look-ahead, `type =` look-ahead; that an accessor returns the right child in every position (G4/G5 decide overlap and coverage by node kind, not by position); lexemes other than the number forms of G6.",
    "trusted_base": ["Gleam's operator precedence table as encoded in ORACLE", "rustc MIR + const evaluation"],
    "assumptions": [],
}

SK = "syntax::kind::SyntaxKind"
# Gleam's binary operator precedence levels (higher binds tighter); all left-associative
ORACLE = {
    "VBAR_VBAR": 1, "AMPER_AMPER": 2, "EQ_EQ": 3, "NOT_EQ": 3,
    "LESS": 4, "LESS_EQ": 4, "LESS_DOT": 4, "LESS_EQ_DOT": 4, "GREATER": 4, "GREATER_EQ": 4, "GREATER_DOT": 4,
    "GREATER_EQ_DOT": 4, "LT_GT": 5, "VBAR_GT": 6, "PLUS": 7, "MINUS": 7, "PLUS_DOT": 7, "MINUS_DOT": 7,
    "STAR": 8, "SLASH": 8, "STAR_DOT": 8, "SLASH_DOT": 8, "PERCENT": 8,
}
PREFIX = {"BANG", "MINUS"}
LOC = "crates/syntax/src/parser.rs"


def dispatch_arms(F, fn):
    """kinds with an explicit arm in the `match p.nth(0)` of fn"""
    d = FL.Defs(fn)
    dm = F.discr_map(SK)
    for b in sorted(fn.reachable()):
        t = fn.term(b)
        if t["k"] != "switch":
            continue
        l = op_local(t["op"])
        o = d.origin(l) if l is not None else {}
        if o.get("k") == "rv" and o["rv"]["k"] == "discr" and o["rv"]["of"] == SK:
            src = d.origin_place(o["rv"]["place"])
            if src.get("k") == "call" and callee(src["t"]) == PM.P + "nth":
                return {dm[v] for v, tgt in t["targets"] if tgt != t["otherwise"]}, t["ln"]
    return None, None


def operands_group_as_in_gleam(F, res, rule="G1"):
    """The shareable half of G1: the binding-power table, tabulated over every token kind, groups every pair of binary operators as
    Gleam does. The inferencer types the tree it is given: with `<>` and `|>` exchanged, `"n = " <> x |> show` is typed as
    `{"n = " <> x} |> show` and the parameter x becomes a String (C09 shares this as Y23)."""
    pure = teval.Pure(F)
    kinds = F.variants(SK)
    inf = {}
    for k in kinds:
        v = pure.call(SK + "::infix_bp", [("e", SK, k)])
        if v[2] == "Some":
            inf[k] = (v[3][0][3][0], v[3][0][3][1])
    bad = []
    for op1 in sorted(ORACLE):
        for op2 in sorted(ORACLE):
            if op1 not in inf or op2 not in inf:
                continue
            rbp1, lbp2 = inf[op1][1], inf[op2][0]
            if lbp2 == rbp1 or (lbp2 > rbp1) != (ORACLE[op2] > ORACLE[op1]):
                bad.append("%s then %s" % (op1, op2))
    res.ob(rule, "operator-grouping", "for every pair of binary operators `a op1 b op2 c` groups as Gleam prescribes (the table of infix_bp, tabulated over "
           "all kinds)", set(inf) == set(ORACLE) and not bad, where=LOC, how="%d operators, every pair ok" % len(inf) if not bad and set(inf) == set(ORACLE)
           else "wrong pairs: %s; operator set differs: %s" % (bad[:6], sorted(set(inf) ^ set(ORACLE))))


def run(F, res, tier):
    from rules import c02 as _c02b
    _c02b.budget_is_charged_behind_a_token_decision(F, res, rule="G13")   # a well-formed expression below the nesting limit is not refused
    from rules import c14 as _c14u
    _c14u.text_positions_are_counted_in_bytes(F, res, rule="G12", crates=('syntax',))   # engine U: a well-formed non-ASCII string literal is one STRING token
    pure = teval.Pure(F)
    kinds = F.variants(SK)
    dm = {n: d for d, n in F.discr_map(SK).items()}
    inf = {}
    for k in kinds:
        v = pure.call(SK + "::infix_bp", [("e", SK, k)])
        if v[2] == "Some":
            inf[k] = (v[3][0][3][0], v[3][0][3][1])
    pre = {}
    for k in kinds:
        v = pure.call(SK + "::prefix_bp", [("e", SK, k)])
        if v[2] == "Some":
            pre[k] = v[3][0]
    res.analysed["infix_bp"] = {k: list(v) for k, v in sorted(inf.items())}
    res.analysed["prefix_bp"] = pre
    res.analysed["kinds_tabulated"] = len(kinds)
    res.ob("G1", "binary-operator-set", "exactly Gleam's 23 binary operators have an infix binding power",
           set(inf) == set(ORACLE), where=LOC, how="extra: %s missing: %s" % (sorted(set(inf) - set(ORACLE)), sorted(set(ORACLE) - set(inf))))
    res.ob("G1", "prefix-operator-set", "exactly `!` and `-` have a prefix binding power", set(pre) == PREFIX, where=LOC, how=str(pre))
    pairs = 0
    for op1 in sorted(ORACLE):
        if op1 not in inf:
            continue
        bad = []
        for op2 in sorted(ORACLE):
            if op2 not in inf:
                continue
            pairs += 1
            rbp1, lbp2 = inf[op1][1], inf[op2][0]
            if lbp2 == rbp1:
                bad.append("%s then %s: lbp == min_bp raises MultipleNoAssoc on a valid chain" % (op1, op2))
                continue
            nested_right = lbp2 > rbp1          # a op1 (b op2 c)
            want = ORACLE[op2] > ORACLE[op1]    # op2 binds tighter; equal level => left-assoc
            if nested_right != want:
                bad.append("a %s b %s c groups as %s, Gleam: %s" % (op1, op2, "a op1 (b op2 c)" if nested_right else "(a op1 b) op2 c",
                                                                     "a op1 (b op2 c)" if want else "(a op1 b) op2 c"))
        res.ob("G1", "group/%s" % op1, "for every operator op2, `a %s b op2 c` groups as Gleam prescribes" % op1, not bad,
               where=LOC, how="23 pairs ok (rbp=%d)" % inf[op1][1] if not bad else "; ".join(bad[:3]))
    res.analysed["operator_pairs"] = pairs
    for pk, rbp in sorted(pre.items()):
        bad = [op for op, (lbp, _) in inf.items() if lbp >= rbp]
        res.ob("G1", "prefix/%s" % pk, "prefix %s binds tighter than every binary operator (`%sa op b` is `(%sa) op b`)" % (pk, pk, pk),
               not bad, where=LOC, how="rbp %d > every lbp" % rbp if not bad else "not tighter than %s" % bad)
    # entry min_bp
    ex = F.fn("syntax::parser::expr")
    entry = None
    for b, t in ex.calls():
        if callee(t) == "syntax::parser::expr_bp":
            k = t["args"][1].get("k")
            entry = int(k["bits"]) if k and "bits" in k else None
    res.ob("G1", "entry-min-bp", "expr() starts the Pratt loop with a min_bp below (and different from) every lbp",
           entry is not None and all(lbp > entry for lbp, _ in inf.values()), where=ex.loc(), how="min_bp=%s" % entry)

    # ---- G2 (on expr_bp with the private helpers a maintainer may have split off it inlined: functions of the parser that the
    # reviewed tree did not have and that only expr_bp - or another such helper - calls)
    eb0 = F.fn("syntax::parser::expr_bp")
    import json as _json, os as _os
    try:
        with open(_os.path.join(_os.path.dirname(_os.path.abspath(__file__)), "fingerprints.json")) as fh:
            _known = set(_json.load(fh))
    except Exception:  # noqa
        _known = set()
    _new = {p for p in F.fns if p.startswith("syntax::parser::") and "Parser::" not in p and "{closure" not in p and p not in _known and F.fns[p].blocks}

    def _private(p, seen=()):
        if p not in _new or p in seen:
            return False
        cs = {f_.path for f_, b_, t_ in F.callers_of(lambda c, p=p: c == p)}
        return bool(cs) and all(c == eb0.path or _private(c, seen + (p,)) for c in cs)
    from lib import inline as _IL
    eb = _IL.inlined(F, eb0, want=lambda p: _private(p), depth=3) if any(_private(p) for p in _new) else eb0
    d = FL.Defs(eb)

    def field_path(o):
        prs = []
        while o.get("k") == "field":
            prs = [e.get("n", e.get("f")) if isinstance(e, dict) else e for e in o["proj"]] + prs
            o = o["base"]
        return o, prs
    rec = [(b, t) for b, t in eb.calls() if callee(t) == "syntax::parser::expr_bp"]
    srcs = []
    for b, t in rec:
        o, prs = field_path(d.origin_op(t["args"][1]))
        srcs.append(((callee(o["t"]) if o.get("k") == "call" else o.get("k")), tuple(str(x) for x in prs)))
    res.ob("G2", "recursion-powers", "expr_bp recurses with prefix_bp's value after a prefix operator and with the *right* "
           "power (field 1) of infix_bp's pair after a binary operator",
           sorted(srcs) == sorted([(SK + "::prefix_bp", ("Some", "0")), (SK + "::infix_bp", ("Some", "0", "1"))]) or
           sorted(srcs) == sorted([(SK + "::prefix_bp", ("0",)), (SK + "::infix_bp", ("0", "1"))]),
           where=eb.loc(), how="recursive calls take %s" % srcs)
    cmps = []
    for b, i, s in eb.stmts():
        rv = s.get("rv")
        if rv and rv["k"] == "bin" and rv["op"] in ("Eq", "Lt", "Le", "Gt", "Ge", "Ne"):
            oa, pa = field_path(d.origin_op(rv["a"]))
            ob, pb = field_path(d.origin_op(rv["b"]))
            if (oa.get("k") == "call" and callee(oa["t"]) == SK + "::infix_bp") or (ob.get("k") == "call" and callee(ob["t"]) == SK + "::infix_bp"):
                cmps.append((rv["op"], tuple(str(x) for x in pa), ob.get("k"), ob.get("n")))
    # the same two tests written as `match lbp.cmp(&min_bp) { Equal => .., Less => .., Greater => .. }`
    for b, t in eb.calls():
        c = callee(t) or callee_def(t) or ""
        if not (c.endswith("::cmp") and "Ord" in c):
            continue

        def deref(op):
            o = d.origin_op(op)
            if o.get("k") == "rv" and o["rv"]["k"] == "ref":
                o = d.origin_place(o["rv"]["place"])
            return o
        oa, pa = field_path(deref(t["args"][0]))
        ob, pb = field_path(deref(t["args"][1]))
        nb = t.get("target")
        tt = eb.term(nb) if nb is not None else None
        if oa.get("k") == "call" and callee(oa["t"]) == SK + "::infix_bp" and tt and tt["k"] == "switch":
            tg = dict((v, x) for v, x in tt["targets"])
            if 0 in tg and 255 in tg and tg[0] != tg[255] and tg[0] != tg.get(1, tt["otherwise"]):
                cmps.append(("Eq", tuple(str(x) for x in pa), ob.get("k"), ob.get("n")))
                cmps.append(("Lt", tuple(str(x) for x in pa), ob.get("k"), ob.get("n")))
    want_cmp = sorted([("Eq", ("Some", "0", "0"), "arg", 2), ("Lt", ("Some", "0", "0"), "arg", 2)])
    alt_cmp = sorted([("Eq", ("0", "0"), "arg", 2), ("Lt", ("0", "0"), "arg", 2)])
    res.ob("G2", "comparisons", "the loop compares the *left* power (field 0) of the same pair with the min_bp parameter: "
           "`lbp == min_bp` (no-assoc error) and `lbp < min_bp` (stop)", sorted(cmps) in (want_cmp, alt_cmp), where=eb.loc(), how="found %s" % cmps)
    # PIPE vs BINARY_OP
    fins = {}
    for b, t in eb.calls():
        if callee(t) == PM.P + "finish_node":
            k_ = FL.kind_of_operand(eb, d, t["args"][2])
            if k_ is not None:
                fins.setdefault(k_, []).append(b)
                continue
            # `let kind = if .. { PIPE } else { BINARY_OP }; finish_node(m, kind)`: one site per assignment of a constant
            o_ = d.origin_op(t["args"][2])
            if o_.get("k") == "multi":
                for dd in o_["defs"]:
                    if dd[2] != "assign":
                        continue
                    rv_ = dd[3]["rv"]
                    kk = None
                    if rv_["k"] == "use":
                        kk = FL.kind_of_operand(eb, d, rv_["op"])
                    elif rv_["k"] == "agg" and (rv_.get("adt") or "").endswith("SyntaxKind"):
                        kk = rv_.get("variant")
                    if kk is not None:
                        fins.setdefault(kk, []).append(dd[0])
    okp = False
    if "PIPE" in fins and "BINARY_OP" in fins:
        for g in FL.gates(F, eb, fins["PIPE"], d):
            if (g.get("call_def") or "").endswith("PartialEq::eq") or (g.get("callee") or "").endswith("PartialEq>::eq"):
                ks = [FL.kind_of_operand(eb, d, a) for a in g["call_t"]["args"]]
                if "VBAR_GT" in ks and g["allowed"] == [True]:
                    okp = True
            # the same test written as a match on the operator token's kind
            if g.get("kind") == "enum" and (g.get("enum") or "").endswith("SyntaxKind") and g["allowed"] == ["VBAR_GT"]:
                okp = True
    res.ob("G2", "pipe-node", "`|>` finishes a PIPE node and every other binary operator a BINARY_OP node", okp, where=eb.loc(),
           how="finish_node kinds in expr_bp: %s" % sorted(k for k in fins if k))
    # postfix loop (call / field access / tuple index) runs on the unit before the infix loop
    # (on expr_bp with the helpers that belong to it inlined: the postfix loop may be a function of its own)
    from lib import inline as IL
    only_here = lambda p: p.startswith("syntax::parser::") and p != eb0.path and \
        any(callee(t_) == "syntax::parser::arg_list" for b_, t_ in F.fns[p].calls()) and \
        {f_.path for f_, b_, t_ in F.callers_of(lambda c, p=p: c == p)} <= {eb0.path}          # noqa: E731
    ebv = IL.inlined(F, eb0, want=only_here, depth=1)
    heads = sorted({h for _, h in ebv.back_edges()})
    post = [b for b, t in ebv.calls() if callee(t) == "syntax::parser::arg_list"]
    infx = [b for b, t in ebv.calls() if callee(t) == SK + "::infix_bp"]
    ok_order = bool(post) and bool(infx) and all(not ebv.can_reach(i, post) for i in infx) and all(ebv.can_reach(p_, infx) for p_ in post)
    res.ob("G2", "postfix-before-infix", "the postfix loop (call/field access/tuple index) completes before the infix loop starts and is not re-entered from it",
           ok_order and len(heads) == 2, where=eb.loc(), how="loops: %d; arg_list reachable from infix loop: %s" % (len(heads), not ok_order))

    # postfix operators bind tighter than every operator: whatever min_bp expr_bp is entered with (in particular the
    # right power of a prefix operator), the call / field-access continuation of its operand is taken
    from lib import pcache
    R = pcache.results(F)
    per_arg = R["ctx_calls"].get("syntax::parser::expr_bp", {})
    res.floor("distinct min_bp values expr_bp is entered with", len(per_arg), 10)
    for a, cs in sorted(per_arg.items()):
        names = {c.rsplit("::", 1)[-1] for c in cs}
        okc = {"arg_list", "name_ref"} <= names
        res.ob("G2", "postfix-at-min_bp/%s" % a.strip("(),"),
               "entered with min_bp %s, expr_bp still parses `f(..)` and `x.name` after its operand (a postfix chain is never "
               "left to an enclosing operator)" % a.strip("(),"), okc, where=eb.loc(),
               how="callees reached: %s" % sorted(names))

    # ---- G3
    def bits(name):
        return F.const_bits("syntax::parser::" + name)

    def members(b):
        return {k for k in kinds if (b >> dm[k]) & 1}
    res.analysed["FIRST"] = {}
    for setname, fnname, extra, exempt in (("EXPR_FIRST", "expr_unit", set(pre), set()),
                                           ("PATTERN_FIRST", "pattern", set(), {"BANG"}),
                                           ("TYPE_FIRST", "type_expr", set(), set())):
        fn = F.fn("syntax::parser::" + fnname)
        arms, ln = dispatch_arms(F, fn)
        if arms is None:
            res.anchor_missing("G3", "match p.nth(0) in " + fnname)
            continue
        first = members(bits(setname))
        res.analysed["FIRST"][setname] = sorted(first)
        missing = (arms | extra) - first - exempt
        res.ob("G3", "%s-covers-%s" % (setname, fnname),
               "%s contains every kind %s() dispatches on%s, so no guarded call site rejects a construct the dispatcher implements"
               % (setname, fnname, " (plus the prefix operators)" if extra else ""),
               not missing, where=fn.loc(ln), how="arms %s" % sorted(arms) if not missing else "dispatched but not in %s: %s" % (setname, sorted(missing)))
        dead = first - arms - extra
        res.ob("G3", "%s-members-handled" % setname,
               "every member of %s is handled by %s() (a member without an arm would be accepted by the guard and then not consumed)" % (setname, fnname),
               not dead, where=fn.loc(ln), how="all handled" if not dead else "in the set without an arm: %s" % sorted(dead))
    # G3 per call site: a guard `if p.at_any(SET) { callee(p) }` must admit every token the callee can start with
    FIRST_OF = {"syntax::parser::expr": "EXPR_FIRST", "syntax::parser::expr_bp": "EXPR_FIRST", "syntax::parser::pattern": "PATTERN_FIRST",
                "syntax::parser::type_expr": "TYPE_FIRST"}
    nsites = 0
    single = []
    for p_, g_ in sorted(F.fns.items()):
        if not p_.startswith("syntax::parser::") or p_.startswith(PM.P) or not g_.blocks:
            continue
        dg = None
        for b, t in g_.calls():
            c = callee(t)
            if c not in FIRST_OF:
                continue
            if dg is None:
                dg = FL.Defs(g_)
            need = members(bits(FIRST_OF[c]))
            for gt in FL.gates(F, g_, [b], dg):
                if gt.get("callee") == PM.P + "at" and gt["allowed"] == [True]:
                    single.append((p_, g_, b, t, c, gt))
                if gt.get("callee") != PM.P + "at_any" or gt["allowed"] != [True]:
                    continue
                # the guard must speak about the token the callee starts with: nothing is consumed in between
                between = [bb for bb, tt in g_.calls() if bb != b and bb != gt["bb"] and g_.dominates(gt["bb"], bb) and g_.dominates(bb, b)
                           and ((callee(tt) or "").startswith("syntax::parser::") and
                                (callee(tt) or "") not in (PM.P + "start_node", PM.P + "at", PM.P + "at_any", PM.P + "nth", PM.P + "eof", PM.P + "error"))]
                if between:
                    continue
                a = gt["call_t"]["args"][1]
                kdef = (a.get("k") or {}).get("def") if isinstance(a.get("k"), dict) else None
                if kdef is None:
                    ao = dg.origin_op(a)
                    kdef = (ao.get("c") or {}).get("def") if ao.get("k") == "const" else None
                if not kdef or not kdef.startswith("syntax::parser::"):
                    continue
                try:
                    have = members(F.const_bits(kdef))
                except Exception:  # noqa
                    continue
                nsites += 1
                ordn = [bb for bb, tt in g_.calls() if callee(tt) == c].index(b)
                missing = sorted(need - have)
                res.ob("G3", "guard/%s/%s/%d" % (p_.rsplit("::", 1)[-1], c.rsplit("::", 1)[-1], ordn),
                       "the set guarding this call of %s() contains %s, so no construct %s() implements is rejected here"
                       % (c.rsplit("::", 1)[-1], FIRST_OF[c], c.rsplit("::", 1)[-1]), not missing, where=g_.loc(t["ln"]),
                       how="guard %s" % kdef.rsplit("::", 1)[-1] if not missing else "guard %s lacks %s" % (kdef.rsplit("::", 1)[-1], missing))
    res.floor("guarded call sites of expr/pattern/type_expr", nsites, 12)
    # the same for a guard that names one kind: `if p.at(K) { pattern(p) }` admits K only
    for p_, g_, b, t, c, gt in single:
        between = [bb for bb, tt in g_.calls() if bb != b and bb != gt["bb"] and g_.dominates(gt["bb"], bb) and g_.dominates(bb, b)
                   and ((callee(tt) or "").startswith("syntax::parser::") and
                        (callee(tt) or "") not in (PM.P + "start_node", PM.P + "at", PM.P + "at_any", PM.P + "nth", PM.P + "eof", PM.P + "error"))]
        if between:
            continue
        need = members(bits(FIRST_OF[c]))
        a = gt["call_t"]["args"][1]
        kd = (a.get("k") or {}) if isinstance(a.get("k"), dict) else {}
        kname = kd.get("variant") or FL.const_variant(kd) if kd else None
        have = {kname} if kname else set()
        ordn = [bb for bb, tt in g_.calls() if callee(tt) == c].index(b)
        missing = sorted(need - have)
        res.ob("G3", "guard/%s/%s/%d" % (p_.rsplit("::", 1)[-1], c.rsplit("::", 1)[-1], ordn),
               "the single kind guarding this call of %s() is all of %s (else a construct %s() implements is rejected here)"
               % (c.rsplit("::", 1)[-1], FIRST_OF[c], c.rsplit("::", 1)[-1]), not missing, where=g_.loc(t["ln"]),
               how="guard at(%s) lacks %s" % (kname, missing[:8]))
    accessor_rules(F, res, pure, kinds)
    slot_coverage(F, res, pure, kinds)
    literal_lexemes(F, res, R)
    blanks_are_trivia(F, res, R)
    string_escapes(F, res)
    from rules import c01 as _c01
    _c01.lexer_bump_unit(F, res, rule="G10")   # a string with a non-ASCII character is one STRING token: the callback advances by bytes
    _c01.leaves_start_with_their_token(F, res, rule="G11")
    delimiters_belong_to_their_node(F, res)


def thorough(F, res):
    from lib import pcache as _pc
    _pc.crosscheck(F, res)
    from lib import shape as _sh
    _sh.crosscheck(F, res)


# accessor pairs whose target types overlap but whose indices account for it (read, one reason each)
ACCESSOR_OVERLAP_REVIEWED = {
    ("PatternConcat", "string", "name"): "`\"a\" <> rest`: the string literal is itself a Pattern child, and `name` is declared as Pattern[1]: "
                                         "the index counts the literal, so it selects the binder",
}


def accessors(F):
    """node struct -> [(accessor, target type, index | 'all')] read from the MIR of the generated accessor methods"""
    acc = {}
    for p, f in F.fns.items():
        if not p.startswith("syntax::ast::") or not f.blocks or "{closure" in p:
            continue
        T, idx, allc = None, None, False
        for b, t in f.calls():
            c = callee(t) or callee_def(t) or ""
            targs = (t.get("fn") or {}).get("targs") or []
            if c.endswith("support::child") and targs:
                T, idx = targs[0], 0
            if c.endswith("support::children") and targs:
                T, allc = targs[0], True
            if c.endswith("Iterator::nth") and allc:
                k = t["args"][1].get("k") or {}
                if "bits" in k:
                    idx, allc = int(k["bits"]), False
            # a slot found by its position: the first child of type N after a given token (and before another)
            if c.endswith("ast::child_between") and targs:
                d_ = FL.Defs(f)
                T, idx = targs[0], "after:%s" % (FL.kind_of_operand(f, d_, t["args"][1]) or "?")
        if T:
            node, meth = p.rsplit("::", 1)
            acc.setdefault(node, []).append((meth, T, "all" if allc else idx))
    return acc


def accessor_rules(F, res, pure, kinds):
    """G4: typed accessors pick children by (castable type, index). G4a: the single-child accessors of one node that
    share a target type use the indices 0..n-1, each once. G4b: two accessors of one node whose target types can cast the
    same child kind select the same child when that kind stands in the earlier slot (`let _ = g(1)`: `_` is both a
    Pattern and an Expr, so body() returns the pattern)."""
    acc = accessors(F)
    res.floor("node structs with generated accessors", len(acc), 40)
    cast = {}

    def castset(T):
        if T not in cast:
            p = "<%s as rowan::ast::AstNode>::can_cast" % T
            out = None
            if p in F.fns:
                out = set()
                for k in kinds:
                    try:
                        if pure.call(p, [("e", SK, k)]) == 1:
                            out.add(k)
                    except Exception:  # noqa
                        out = None
                        break
            cast[T] = out
        return cast[T]
    npairs = 0
    for node, lst in sorted(acc.items()):
        short_node = node.rsplit("::", 1)[-1]
        by_t = {}
        for m, T, s_ in lst:
            if s_ != "all":
                by_t.setdefault(T, []).append((s_, m))
        for T, xs in sorted(by_t.items()):
            xs = [x for x in xs if not str(x[0]).startswith("after:")]
            if len(xs) < 2:
                continue
            idxs = sorted(i for i, _ in xs)
            res.ob("G4", "indices/%s/%s" % (short_node, T.rsplit("::", 1)[-1]),
                   "the accessors of %s that select one %s child use the positions 0..%d, each once" % (short_node, T.rsplit("::", 1)[-1], len(xs) - 1),
                   idxs == list(range(len(xs))), where="crates/syntax/src/ast.rs", how="%s" % sorted(xs))
        for i, (m1, T1, s1) in enumerate(lst):
            for (m2, T2, s2) in lst[i + 1:]:
                if T1 == T2:
                    continue
                c1, c2 = castset(T1), castset(T2)
                if c1 is None or c2 is None:
                    res.anchor_missing("G4", "can_cast of %s / %s" % (T1, T2))
                    continue
                ov = sorted(c1 & c2)
                if not ov:
                    continue
                npairs += 1
                a, b_ = sorted([m1, m2])
                rv = ACCESSOR_OVERLAP_REVIEWED.get((short_node, m1, m2)) or ACCESSOR_OVERLAP_REVIEWED.get((short_node, m2, m1))
                pos = [x for x in (s1, s2) if str(x).startswith("after:")]
                if not rv and pos:
                    rv = "positional: %s selects its child by what stands after the token %s, not by being the first child that casts; its " \
                         "sibling stands in front of that token (or behind another one)" % (m1 if str(s1).startswith("after:") else m2, pos[0][6:])
                res.ob("G4", "overlap/%s/%s+%s" % (short_node, a, b_),
                       "%s::%s (%s) and %s::%s (%s) never select the same child" % (short_node, m1, T1.rsplit("::", 1)[-1], short_node, m2, T2.rsplit("::", 1)[-1]),
                       bool(rv), where="crates/syntax/src/ast.rs",
                       how=("reviewed: " + rv) if rv else "both target types cast %s: a child of that kind in the earlier slot is returned by both accessors" % ov,
                       reviewed=bool(rv))
    res.analysed["accessor_pairs_with_overlapping_cast_sets"] = npairs


# (parent kind, child kind) pairs the parser can build and no typed accessor of the parent can see, read and accepted
G5_REVIEWED = {
    "attr": "attribute nodes (@external / @target) carry no Gleam names the analysis resolves; the typed AST deliberately does not expose them",
    ("AS_PATTERN", "UNARY_OP"): "infeasible: after `-` / `!` the operand is parsed by a recursive pattern() call, which takes the `as name` tail "
                                "itself; the outer call never sees `as` (the pair the parser really builds, AS_PATTERN under UNARY_OP, is a finding)",
    "ill-formed": "only programs Gleam rejects put this child here (a constant initialised with a block / case / fn / pipe / spread / tuple index / "
                  "todo; `-` or `!` in front of a pattern that is not a number; a guard containing todo; `\"a\" <> <pattern that is not a name>`): "
                  "outside what C04 and C05 quantify over",
    ("TYPE_APPLICATION", "HOLE"): "infeasible: type_expr() continues with an argument list only after a type name (its `type_application` flag is "
                                  "set in the IDENT / U_IDENT arms only); the shape analysis takes every branch of that flag",
}


G5_ILL_FORMED = {("MODULE_CONSTANT", c) for c in ("BLOCK", "CASE", "LAMBDA", "PIPE", "EXPR_SPREAD", "TUPLE_INDEX", "MISSING")} | \
    {("UNARY_OP", c) for c in ("PATTERN_CONCAT", "PATTERN_LIST", "PATTERN_SPREAD", "PATTERN_TUPLE", "PATTERN_VARIABLE", "VARIANT_REF")} | \
    {("PATTERN_GUARD", "MISSING"), ("PATTERN_CONCAT", "UNARY_OP"), ("PATTERN_CONCAT", "BIT_ARRAY")}


def slot_coverage(F, res, pure, kinds):
    """G5: every child node the parser can put under a node of kind K is visible through some typed accessor of K's AST type
    (the accessor's target type can cast the child's kind). A child no accessor can see is never lowered: names inside it do
    not resolve, rename and find-references skip them. Children per parent kind come from lib/shape.py (every finish_node site)."""
    from lib import shape
    R = shape.results(F)
    acc = accessors(F)
    cast = {}

    def castset(T):
        if T not in cast:
            p = "<%s as rowan::ast::AstNode>::can_cast" % T
            out = set()
            if p in F.fns:
                for k in kinds:
                    try:
                        if pure.call(p, [("e", SK, k)]) == 1:
                            out.add(k)
                    except Exception:  # noqa
                        pass
            cast[T] = out
        return cast[T]
    types = [p[1:].split(" as ")[0] for p in F.fns if p.startswith("<syntax::ast::") and p.endswith(" as rowan::ast::AstNode>::can_cast")]
    bykind = {}
    for T in types:
        cs = castset(T)
        if len(cs) == 1:
            bykind[next(iter(cs))] = T
    res.floor("node kinds with a typed AST struct", len(bykind), 65)
    res.floor("parent kinds whose children were enumerated", len(R["children"]), 66)
    npairs = 0
    for K, T in sorted(bykind.items()):
        ch = set(R["children"].get(K, [])) - {"T", "?", "ERROR"}
        sel = set()
        for m, TT, s_ in acc.get(T, []):
            sel |= castset(TT)
        npairs += len(ch)
        for C in sorted(ch - sel):
            why = G5_REVIEWED.get((K, C)) or (G5_REVIEWED["attr"] if C.endswith("_ATTR") else None) or \
                (G5_REVIEWED["ill-formed"] if (K, C) in G5_ILL_FORMED else None)
            res.ob("G5", "invisible/%s/in/%s" % (C, K),
                   "a %s child of a %s node is reachable through a typed accessor of %s" % (C, K, T.rsplit("::", 1)[-1]),
                   bool(why), where="crates/syntax/src/ast.rs", reviewed=bool(why),
                   how=("reviewed: " + why) if why else "the parser can put a %s under %s; the accessors of %s select %s - none can cast %s"
                   % (C, K, T.rsplit("::", 1)[-1], sorted({TT.rsplit("::", 1)[-1] for _, TT, _ in acc.get(T, [])}), C))
    res.analysed["parent_child_kind_pairs"] = npairs


# Gleam's number literal forms (language tour / compiler-core lexer): decimal with `_` separators, binary, octal, hexadecimal;
# floats with a fraction and an optional exponent. One lexeme per form.
NUMBER_LEXEMES = {
    "INTEGER": ["0", "42", "1_000_000", "0b0101", "0B11", "0o17", "0O7", "0xFF", "0xff_ab", "0XaB9"],
    "FLOAT": ["1.0", "0.5", "1_000.000_1", "1.0e10", "2.5e-3", "1.0E+2"],
}


def literal_lexemes(F, res, R):
    """G6: each form of number literal Gleam has is matched *as a whole* by the regex of the token kind it should become (read from
    the #[regex] attributes of SyntaxKind). A form the regex matches only in part is split into several tokens and a well-formed
    program gets a syntax error. This evaluates the lexer's own table on an oracle list - a necessary condition, not the lexer."""
    import re as _re
    la = R["lex_attrs"]
    for kind, lexemes in sorted(NUMBER_LEXEMES.items()):
        pats = []
        for a in la.get(kind, []):
            m = _re.search(r'#\[regex\(\s*r?#*"(.*)"#*\s*(?:,.*)?\)\]$', a)
            if m:
                pats.append(m.group(1).replace("\\\\", "\\"))
        if not pats:
            res.anchor_missing("G6", "#[regex] of SyntaxKind::%s" % kind)
            continue
        for lx in lexemes:
            ok = False
            for p_ in pats:
                try:
                    ok = ok or _re.fullmatch(p_, lx) is not None
                except _re.error:
                    res.anchor_missing("G6", "regex of %s not understood: %s" % (kind, p_))
            longest = max((len(m.group(0)) for p_ in pats for m in [_re.match(p_, lx)] if m), default=0)
            res.ob("G6", "lexeme/%s/%s" % (kind, lx), "the %s literal `%s` is one %s token" % (kind.lower(), lx, kind), ok,
                   where="crates/syntax/src/kind.rs", how="regex %s matches the whole lexeme" % pats if ok else
                   "regex %s matches only `%s`: the rest becomes further tokens" % (pats, lx[:longest]))
    # tuple-index chains: after `.` the grammar takes INTEGER (engine S: TUPLE_INDEX = base `.` LITERAL) and the base may itself
    # end in an INTEGER, so `0.1` must lex as INTEGER DOT INTEGER there. Maximal munch over the whole regex table decides.
    pats = {}
    for kind, attrs in la.items():
        for a in attrs:
            m = _re.search(r'#\[regex\(\s*r?#*"(.*)"#*\s*(?:,.*)?\)\]$', a)
            if m:
                pats.setdefault(kind, []).append(m.group(1).replace("\\\\", "\\"))
    def munch(text):
        best = ("", 0)
        for kind, ps in pats.items():
            for p_ in ps:
                try:
                    m = _re.match(p_, text)
                except _re.error:
                    continue
                if m and len(m.group(0)) > best[1]:
                    best = (kind, len(m.group(0)))
        return best
    best = munch("0.1")
    ti = "TUPLE_INDEX" in R.get("finish_sites", {}) or any(v.get("kind") == "TUPLE_INDEX" for v in R["finish_sites"].values())
    res.ob("G6", "adjacent/tuple-index-chain", "in `t.0.1` the text `0.1` after the first `.` is lexed as INTEGER `.` INTEGER (two tuple indices), "
           "not swallowed by a longer token", ti and best[0] == "INTEGER" and best[1] == 1, where="crates/syntax/src/kind.rs",
           how="longest match at `0.1`: %s (%d characters)" % best)
    # ... and a tuple index followed by a field access: in `t.0.name` the text `0.name` starts with the INTEGER `0`, the `.` is a token
    # of its own (a FLOAT regex that accepts `0.` would swallow it)
    best2 = munch("0.name")
    res.ob("G6", "adjacent/tuple-index-then-field", "in `t.0.name` the text `0.` is lexed as INTEGER then `.`", ti and best2 == ("INTEGER", 1),
           where="crates/syntax/src/kind.rs", how="longest match at `0.name`: %s (%d characters)" % best2)


# what Gleam's lexer skips between tokens: blanks, tabs, line feeds and the carriage return of a CRLF line end
BLANK_LEXEMES = [" ", "\t", "\n", "\r\n", "  \r\n\t "]
# comments, which Gleam skips like blanks: with and without a text, the empty line of a comment block, doc and module comments
COMMENT_LEXEMES = ["//", "//\n", "// note", "//x", "//\r\n", "///", "/// doc", "////", "//// module doc", "// a // b", "//\n//\n// text\n"]


def blanks_are_trivia(F, res, R, rule="G8"):
    """G8: "arbitrary legal whitespace": every blank Gleam allows between tokens is consumed by a trivia token of this lexer
    (maximal munch over the #[regex] table; the kinds in the trivia range come from engine T's tabulation of is_trivia). A blank
    the table does not know becomes an ERROR token, which is not trivia: the parser sees it and a well-formed program - any file
    saved with CRLF line ends, when parsed without the server's normalisation - is reported full of errors."""
    import re as _re
    la = R["lex_attrs"]
    pats = {}
    for kind, attrs in la.items():
        for a in attrs:
            m = _re.search(r'#\[regex\(\s*r?#*"(.*)"#*\s*(?:,.*)?\)\]$', a)
            if m:
                pats.setdefault(kind, []).append(m.group(1).replace("\\\\", "\\"))
    trivia = set(R.get("trivia_kinds") or [])
    if not trivia:
        from lib import teval as TE
        pure = TE.Pure(F)
        SK = "syntax::kind::SyntaxKind"
        for k in F.variants(SK):
            try:
                if pure.call("syntax::kind::SyntaxKind::is_trivia", [("e", SK, k)]) == 1:
                    trivia.add(k)
            except Exception:  # noqa
                pass
    for lx in BLANK_LEXEMES + COMMENT_LEXEMES:
        pos, kinds, ok = 0, [], True
        while pos < len(lx):
            best = (None, 0)
            for kind, ps in pats.items():
                for p_ in ps:
                    try:
                        m = _re.match(p_, lx[pos:])
                    except _re.error:
                        continue
                    if m and len(m.group(0)) > best[1]:
                        best = (kind, len(m.group(0)))
            if best[0] is None or best[0] not in trivia:
                ok = False
                kinds.append(best[0] or "ERROR at %r" % lx[pos])
                break
            kinds.append(best[0])
            pos += best[1]
        res.ob(rule, "%s/%s" % ("blank" if lx in BLANK_LEXEMES else "comment", lx.encode("unicode_escape").decode()),
               "the %s %r is lexed as trivia" % ("blank" if lx in BLANK_LEXEMES else "comment", lx), ok and bool(trivia),
               where="crates/syntax/src/kind.rs", how="tokens: %s" % kinds)


def string_escapes(F, res, rule="G9"):
    """G9: where a string literal ends. The callback that lexes the rest of a string is a two-state machine over characters
    (after a backslash / not) and three character classes (`"`, `\\`, anything else). Its transition table is read off the MIR by
    constant folding the loop body once per (state, class) - 6 paths - and compared with Gleam's: a quote ends the string unless
    it is escaped; a backslash escapes exactly the next character, also another backslash; everything else leaves the escaped
    state. A wrong entry ends `"C:\\\\"` at the wrong quote (or never): the following tokens of a well-formed program are
    lexed from inside a string."""
    from lib import cfold as CF
    from rules import c01 as _c01v
    f = _c01v.lexer_callback_view(F)
    d = FL.Defs(f)
    # the character of the current step: a char local taken out of the Some(..) that a `next()` of a char iterator answered
    cands = []
    for b, i, s_ in f.stmts():
        if s_["k"] == "assign" and not s_["place"]["p"] and f.local_ty(s_["place"]["l"]) == "char":
            o = d.origin(s_["place"]["l"])
            base = o
            while base.get("k") == "field":
                base = base["base"]
            if base.get("k") == "call" and FL.short(callee(base["t"]) or callee_def(base["t"]) or "").endswith("::next"):
                cands.append((b, s_["place"]["l"]))
    heads = {hd for tl, hd in f.back_edges()}
    if not cands or not heads:
        res.anchor_missing(rule, "the per-character loop of lex_string")
        return
    start, cl = cands[0]
    # the state: a bool local that is written inside the loop and read in it
    loop = set()
    for tl, hd in f.back_edges():
        loop |= f.natural_loop(tl, hd)
    states = sorted({s_["place"]["l"] for b, i, s_ in f.stmts() if b in loop and s_["k"] == "assign" and not s_["place"]["p"] and
                     f.local_ty(s_["place"]["l"]) == "bool" and any(dd[0] not in loop for dd in d.defs.get(s_["place"]["l"], []))})
    if len(states) != 1:
        res.anchor_missing(rule, "exactly one loop-carried bool state in lex_string (found %d)" % len(states))
        return
    st = states[0]
    classes = (("quote", 34), ("backslash", 92), ("other", 97), ("newline", 10), ("non-ascii", 0x1F4A3))
    want = {(0, "quote"): "end", (0, "backslash"): ("go", 1), (1, "quote"): ("go", 0), (1, "backslash"): ("go", 0)}
    table, bad = {}, []
    for e in (0, 1):
        for cname, cv in classes:
            why, bb, env = CF.run(f, start, {cl: cv, st: e}, stop=heads, fixed={cl})
            if why == "stop":
                got = ("go", env.get(st))
            elif why == "return":
                got = "end" if env.get(0) == 1 else ("fail", env.get(0))
            else:
                got = ("undecided", bb)
            table[(e, cname)] = got
            exp = want.get((e, cname), ("go", 0))
            if got != exp:
                bad.append("after %s, %s: %s (Gleam: %s)" % ("a backslash" if e else "an ordinary character", cname, got, exp))
    res.analysed["string lexer transitions"] = {"%d/%s" % k: str(v) for k, v in sorted(table.items())}
    res.ob(rule, "string/transitions", "the string lexer ends a literal at the first quote that is not escaped, and a backslash escapes exactly the "
           "next character (6 transitions + controls, constant-folded from lex_string)", not bad, where=f.loc(),
           how="; ".join(bad) if bad else "table: %s" % {"%d/%s" % k: v for k, v in sorted(table.items())})


    # what the callback remembers from one string to the next (the lexer's extras): a remembered failure answers later quotes without
    # scanning. That is the same token stream only if the memory is written where the scan has run out of input and nowhere else.
    writes, bad_w = [], []
    for b, i, s_ in f.stmts():
        if s_["k"] != "assign" or not any(isinstance(e, dict) and e.get("n") == "extras" for e in s_["place"]["p"]):
            continue
        k = (s_["rv"].get("op") or {}).get("k") if s_["rv"]["k"] == "use" else None
        if isinstance(k, dict) and str(k.get("bits")) == "0":
            continue                      # forgetting is always safe: the next quote is scanned
        writes.append(b)
        none_edges = []
        for b2, t2 in f.calls():
            if FL.short(callee(t2) or callee_def(t2) or "").endswith("::next"):
                nb = t2.get("target")
                tt = f.term(nb) if nb is not None else {}
                if tt.get("k") == "switch":
                    none_edges += [x for v, x in tt["targets"] if int(v) == 0]
        if not any(f.dominates(n_, b) for n_ in none_edges):
            # not dominated (the scan sits in a helper that answers an Option, the write in the arm that matches None): follow the
            # constants instead - from the exhausted iterator the write is reached, from no place where a `Some` answer is built
            def hits(start):
                why_, bb_, _env = CF.run(f, start, {}, on_stmt=lambda bb, st, env, s0=s_: bb if st is s0 else None)
                return why_ == "hit"
            somes = [b3 for b3, _i3, s3 in f.stmts() if (s3.get("rv") or {}).get("k") == "agg" and (s3["rv"].get("adt") or "").endswith("option::Option") and
                     s3["rv"].get("variant") == "Some"]
            if not (none_edges and any(hits(n_) for n_ in none_edges) and not any(hits(x) for x in somes)):
                bad_w.append("line %s: written on a path that has not seen the end of the input" % s_["ln"])
                continue
        why, bb, env = CF.run(f, b, {}, stop=heads)
        if not (why == "return" and env.get(0) == 0):
            bad_w.append("line %s: the scan that remembers a failure does not itself answer false (%s)" % (s_["ln"], why))
    res.ob(rule, "string/memory", "what lex_string remembers between two strings (Lexer.extras) is set only where the scan for the closing quote has run "
           "out of input, and that scan answers false: a later scan would walk over the same characters in the same state", not bad_w, where=f.loc(),
           how="; ".join(bad_w) if bad_w else "%d write(s), each behind the None edge of the character iterator" % len(writes))


def delimiters_belong_to_their_node(F, res, rule="G7"):
    """G7: "the boundaries the source intended": a construct written between an opening and a closing delimiter is one node that
    contains both. In a parser function that consumes an opener and its closer (expect/eat of `(`..`)`, `[`..`]`, `{`..`}`,
    `<<`..`>>`), no node that is finished after the closer may be started between the two: its opener would lie outside
    it, and every node later wrapped around it with start_node_before begins behind the opener - `<<1>> |> g` grouped as
    `<<` followed by PIPE(`1>>`, g)."""
    PAIRS = {"L_PAREN": "R_PAREN", "L_SQUARE": "R_SQUARE", "L_BRACE": "R_BRACE", "LT_LT": "GT_GT"}
    npairs, bad = 0, []
    for p, f in sorted(F.fns.items()):
        if not p.startswith("syntax::parser::") or not f.blocks or "{closure" in p:
            continue
        d = FL.Defs(f)
        cons, starts, fins = [], [], []
        for b, t in f.calls():
            last = FL.short(callee(t) or callee_def(t) or "").rsplit("::", 1)[-1]
            if last in ("expect", "eat") and len(t["args"]) > 1:
                k = FL.kind_of_operand(f, d, t["args"][1])
                if k:
                    cons.append((b, k, t["ln"]))
            elif last == "start_node":
                starts.append((b, t))
            elif last == "finish_node":
                fins.append((b, t))
        for bo, ko, lo in cons:
            for bc, kc, lc in cons:
                if PAIRS.get(ko) != kc or not f.can_reach(bo, [bc]):
                    continue
                npairs += 1
                for bs, ts in starts:
                    if bs == bo or not (f.dominates(bo, bs) and f.dominates(bs, bc)):
                        continue
                    ml = ts["dest"]["l"]
                    done = [bf for bf, tf in fins if f.can_reach(bc, [bf]) and ((tf["args"][1].get("mv") or tf["args"][1].get("cp") or {}).get("l") == ml or
                                                                                d.origin_op(tf["args"][1]).get("l") == ml)]
                    if done:
                        bad.append("%s: %s at line %d is consumed before the node started at line %d, its %s at line %d inside" % (
                            p.rsplit("::", 1)[-1], ko, lo, ts["ln"], kc, lc))
    res.floor("opener/closer pairs consumed within one parser function", npairs, 13)
    res.ob(rule, "delimiters/inside-their-node", "the opening delimiter of a bracketed construct is consumed inside the node that contains its closing "
           "delimiter", not bad, where="crates/syntax/src/parser.rs", how="; ".join(bad) or "%d pairs, each on one side of every node start" % npairs)
