"""Checks that the seven leaf primitives of syntax::parser::Parser have the shape engine P models,
and the who-may-write tables for the Parser's fields (shared by C01 and C02)."""
from lib import effects as EF
from lib import flow as FL
from lib.facts import callee, callee_def, op_place, op_local

PA = "syntax::parser::Parser"
EV = "syntax::parser::Event"
P = PA + "::"


from lib.flow import short, strip_generics  # noqa: F401


def movers(F):
    """the Parser methods that advance the token position (write Parser.pos): `bump` and any sibling a refactoring adds"""
    out = []
    for p_, f in sorted(F.fns.items()):
        if p_.startswith(P) and f.blocks and "{closure" not in p_:
            if any(e["field"] == "pos" and e["how"] == "assign" for e in EF.field_effects(f, PA)):
                out.append(p_)
    return out


def sig(fn):
    """sorted (field, how, callee) triples of a function's accesses to Parser fields"""
    out = []
    for e in EF.field_effects(fn, PA):
        out.append((e["field"], e["how"], short(e["callee"])))
    return sorted(out)


# expected access signature of each leaf (reads of Copy fields are listed too: a primitive that
# starts reading or writing another field no longer matches the model)
EXPECT = {
    "bump": [("events", "mutborrow", "Vec::push"), ("fuel", "borrow", "Cell::set"),
             ("pos", "assign", None), ("pos", "read", None)],
    "nth": [("fuel", "borrow", "Cell::get"), ("fuel", "borrow", "Cell::get"),
            ("fuel", "borrow", "Cell::set"), ("pos", "read", None),
            ("tokens", "borrow", "Deref::deref")],
    "eof": [("pos", "read", None), ("tokens", "borrow", "Vec::len")],
    "error": [("errors", "mutborrow", "Vec::push"), ("pos", "read", None),
              ("src", "read", None), ("tokens", "borrow", "Deref::deref")],
    "start_node": [("events", "borrow", "Vec::len"), ("events", "mutborrow", "Vec::push")],
    "start_node_before": [("events", "mutborrow", "Vec::insert")],
    "finish_node": [("events", "mutborrow", "Vec::push"),
                    ("events", "mutborrow", "IndexMut::index_mut")],
}


def event_pushes(fn):
    """[(callee short, Event variant pushed/inserted/assigned)]"""
    out = []
    d = FL.Defs(fn)
    for b, t in fn.calls():
        c = short(callee(t))
        if c in ("Vec::push", "Vec::insert"):
            o = d.origin_op(t["args"][-1])
            if o["k"] == "agg" and o["rv"]["adt"] == EV:
                out.append((c, o["rv"]["variant"]))
    for b, i, s in fn.stmts():
        if s["place"]["p"] and s["place"]["p"][0] == "*" if s["k"] == "assign" else False:
            o = d.origin_rv(s["rv"], None, b, 0, ()) if False else None
            rv = s["rv"]
            if rv["k"] == "use":
                o = d.origin_op(rv["op"])
                if o["k"] == "agg" and o["rv"]["adt"] == EV:
                    out.append(("assign", o["rv"]["variant"]))
    return sorted(out)


def check_model(F, res, rule="M", with_fuel=True):
    """obligations that the leaf primitives match the model used by engine P. with_fuel=False leaves out everything
    about the progress guard (C01 does not depend on it: a change to the fuel bookkeeping is C02's business)."""
    def nofuel(x):
        return sorted(e for e in x if with_fuel or e[0] != "fuel")
    bump_is_mover = (P + "bump") in movers(F)
    for leaf, want in sorted(EXPECT.items()):
        fn = F.fn(P + leaf)
        got = sig(fn)
        # a private helper of the parser that is neither a modelled primitive nor a mover nor a grammar function (`end_of_input()`)
        # is part of the leaf that calls it: its accesses count as the leaf's
        leaves = {P + x for x in EXPECT} | set(movers(F))
        for _b, t_ in fn.calls():
            c_ = callee(t_) or ""
            if c_.startswith(P) and c_ in F.fns and F.fns[c_].blocks and c_ not in leaves and "{closure" not in c_ and \
                    not any(callee(t2) in leaves for _b2, t2 in F.fns[c_].calls()):
                got = sorted(got + sig(F.fns[c_]))
        if leaf == "bump" and not bump_is_mover:
            continue        # bump delegates to another mover: checked as a wrapper below
        # compared as sets: reading a field once into a local or twice in place is the same access pattern
        res.ob(rule, "leaf/%s/field-accesses" % leaf,
               "Parser::%s touches exactly the Parser fields the model assumes: %s" % (leaf, sorted(set(nofuel(want)))),
               set(nofuel(got)) == set(nofuel(want)), where=fn.loc(), how="found %s" % sorted(set(nofuel(got))))
    for mv in movers(F):
        if mv != P + "bump":
            check_mover(F, res, rule, mv, with_fuel)
    if bump_is_mover:
        check_mover(F, res, rule, P + "bump", with_fuel)
    else:
        bump = F.fn(P + "bump")
        d = FL.Defs(bump)
        mv = set(movers(F))
        calls = [b for b, t in bump.calls() if callee(t) in mv]
        rets = bump.return_blocks()
        res.ob(rule, "bump/consumes-once", "Parser::bump consumes exactly one token: it calls one position-moving method once, on every returning "
               "path, outside any loop", len(calls) == 1 and not bump.back_edges() and all(bump.dominates(calls[0], r) for r in rets),
               where=bump.loc(), how="calls of %s: %d" % (sorted(x.rsplit("::", 1)[-1] for x in mv), len(calls)))
        gs = FL.gates(F, bump, rets, d)
        eofg = [g for g in gs if g.get("callee") == P + "eof" and g["allowed"] == [False]]
        res.ob(rule, "bump/asserts-not-eof", "Parser::bump returns only if eof() was false (the assert!(!self.eof()) engine P models)",
               bool(eofg), where=bump.loc(), how="gates %s" % [FL.gate_summary(g) for g in gs])
        if with_fuel:
            sets = [e for e in EF.field_effects(bump, PA) if e["field"] == "fuel" and short(e.get("callee") or "") == "Cell::set"]
            res.ob(rule, "bump/refills-fuel", "Parser::bump refills the progress guard's fuel", bool(sets) and all(bump.dominates(e["bb"], r) for e in sets for r in rets),
                   where=bump.loc(), how="fuel.set calls: %d" % len(sets))
    # ---- nth: returns tokens.get(pos + lookahead).map_or(EOF, kind); panics iff fuel == 0; burns one fuel
    nth = F.fn(P + "nth")
    dn = FL.Defs(nth)
    ok_get = False
    default_eof = False
    default_eof_match = kind_match = False
    for b, t in nth.calls():
        c = callee(t) or ""
        if c.endswith("[T]::get") or c.endswith("]>::get"):
            o = dn.origin_op(t["args"][1])
            base = o
            while base.get("k") == "field":
                base = base["base"]
            if base.get("k") == "rv" and base["rv"]["k"] == "bin" and base["rv"]["op"] == "AddWithOverflow":
                srcs = []
                for side in ("a", "b"):
                    oo = dn.origin_op(base["rv"][side])
                    if oo.get("k") == "field":
                        srcs.append("field:" + str(oo["proj"][-1].get("n")))
                    elif oo.get("k") == "arg":
                        srcs.append("arg%d" % oo["n"])
                    else:
                        srcs.append(oo.get("k"))
                ok_get = sorted(srcs) == ["arg2", "field:pos"]
        if c.endswith("Option::<T>::map_or"):
            default_eof = FL.kind_of_operand(nth, dn, t["args"][1]) == "EOF"
    # the same with a `match` instead of map_or: None arm returns EOF, Some arm returns the payload's `kind`
    for b in sorted(nth.reachable()):
        t = nth.term(b)
        if t["k"] != "switch":
            continue
        l = op_local(t["op"])
        o = dn.origin(l) if l is not None else {}
        if not (o.get("k") == "rv" and o["rv"]["k"] == "discr" and "Option" in o["rv"]["of"]):
            continue
        src = dn.origin_place(o["rv"]["place"])
        if not (src.get("k") == "call" and ((callee(src["t"]) or "").endswith("[T]::get") or (callee(src["t"]) or "").endswith("]>::get"))):
            continue
        for v, tgt in t["targets"] + [["otherwise", t["otherwise"]]]:
            seen_b, st_ = {tgt}, [tgt]
            while st_:
                x = st_.pop()
                for s_ in nth.blocks[x]["stmts"]:
                    if s_["k"] == "assign" and s_["place"]["l"] == 0 and not s_["place"]["p"]:
                        rv_ = s_["rv"]
                        if rv_["k"] == "use":
                            if FL.kind_of_operand(nth, dn, rv_["op"]) == "EOF" or (rv_["op"].get("k") or {}).get("variant") == "EOF":
                                default_eof_match = True
                            pl_ = op_place(rv_["op"])
                            if pl_ and pl_["p"] and isinstance(pl_["p"][-1], dict) and pl_["p"][-1].get("n") == "kind":
                                kind_match = True
                        if rv_["k"] == "agg" and rv_.get("variant") == "EOF":
                            default_eof_match = True
                for y in nth.succ(x):
                    if y not in seen_b and nth.term(x)["k"] != "switch":
                        seen_b.add(y)
                        st_.append(y)
    res.ob(rule, "nth/index-is-pos-plus-lookahead", "Parser::nth reads tokens[pos + lookahead]", ok_get,
           where=nth.loc(), how="index operand sources matched" if ok_get else "index is not pos + lookahead")
    res.ob(rule, "nth/eof-past-the-end", "Parser::nth yields SyntaxKind::EOF exactly when there is no such token",
           default_eof or default_eof_match, where=nth.loc(), how="the None case yields EOF" if (default_eof or default_eof_match) else "the None case does not yield EOF")
    clos = [F.fns[c] for c in F.closures_of(nth.path)]
    kind_only = False
    for cf in clos:
        rets = [s for b, i, s in cf.stmts() if s["k"] == "assign" and s["place"]["l"] == 0]
        if len(rets) == 1 and rets[0]["rv"]["k"] == "use":
            pl = op_place(rets[0]["rv"]["op"])
            if pl and pl["p"] and isinstance(pl["p"][-1], dict) and pl["p"][-1].get("n") == "kind":
                kind_only = True
    res.ob(rule, "nth/returns-token-kind", "Parser::nth returns the `kind` field of the token it found", kind_only or kind_match,
           where=nth.loc(), how="returns .kind" if (kind_only or kind_match) else "shape not recognised")
    panics = [(b, t) for b, t in nth.calls() if t["target"] is None]
    gfuel = []
    for b, t in panics:
        for g in FL.gates(F, nth, [b], dn):
            gfuel.append(g)
    fuel_zero = any((g.get("callee") or "").endswith("Cell::<T>::get") or g["origin"].get("k") == "rv" for g in gfuel)
    res.ob(rule, "nth/panics-only-on-empty-fuel", "the only panic in Parser::nth is the fuel guard",
           len(panics) == 1 and fuel_zero, where=nth.loc(), how="%d diverging calls" % len(panics))
    # ---- eof
    eof = F.fn(P + "eof")
    de = FL.Defs(eof)
    rets = [s for b, i, s in eof.stmts() if s["k"] == "assign" and s["place"]["l"] == 0 and not s["place"]["p"]]
    ok = False
    if len(rets) == 1 and rets[0]["rv"]["k"] == "bin" and rets[0]["rv"]["op"] == "Eq":
        srcs = []
        for side in ("a", "b"):
            oo = de.origin_op(rets[0]["rv"][side])
            if oo.get("k") == "field":
                srcs.append("field:" + str(oo["proj"][-1].get("n")))
            elif oo.get("k") == "call":
                srcs.append(short(callee(oo["t"])))
            else:
                srcs.append(oo.get("k"))
        ok = sorted(srcs) == ["Vec::len", "field:pos"]
    res.ob(rule, "eof/pos-equals-len", "Parser::eof is `pos == tokens.len()`", ok, where=eof.loc(),
           how="matched" if ok else "shape not recognised")
    # ---- start_node / start_node_before / finish_node events
    for leaf, want in (("start_node", [("Vec::push", "Open")]),
                       ("start_node_before", [("Vec::insert", "Open")]),
                       ("finish_node", [("Vec::push", "Close"), ("assign", "Open")])):
        fn = F.fn(P + leaf)
        ev = event_pushes(fn)
        res.ob(rule, "%s/events" % leaf, "Parser::%s records exactly %s" % (leaf, want), ev == sorted(want),
               where=fn.loc(), how="found %s" % ev)
    # finish_node: the Open it writes carries the kind parameter, at the mark's own index
    fin = F.fn(P + "finish_node")
    df = FL.Defs(fin)
    okk = False
    for f_, b, s in EF.constructions(F, EV, "Open", "syntax::parser::Parser::finish_node"):
        o = df.origin_op(s["rv"]["ops"][0])
        okk = o.get("k") == "arg" and o["n"] == 3
    res.ob(rule, "finish_node/kind-param", "finish_node writes Event::Open{kind} with its own `kind` parameter", okk,
           where=fin.loc(), how="origin is parameter 3" if okk else "not the parameter")


def check_mover(F, res, rule, path, with_fuel=True):
    """a Parser method that moves the position: pos += 1 exactly once on a loop-free path, exactly one Event::Advance on
    every returning path, returns only when !eof() was established (by itself), and — for C02 — refills the fuel"""
    bump = F.fn(path)
    name = path.rsplit("::", 1)[-1]
    d = FL.Defs(bump)
    nobackedge = not bump.back_edges()
    pos_w = [e for e in EF.field_effects(bump, PA) if e["field"] == "pos" and e["how"] == "assign"]
    ok_inc = False
    for e in pos_w:
        o = d.origin_rv(e["rv"], None, e["bb"], 0, ())
        base = o
        while base.get("k") == "field":
            base = base["base"]
        if base.get("k") == "rv" and base["rv"]["k"] == "bin" and base["rv"]["op"] == "AddWithOverflow":
            a, b_ = base["rv"]["a"], base["rv"]["b"]
            pa = op_place(a)
            if pa is not None and EF.field_of(pa, PA) and EF.field_of(pa, PA)[1] == "pos" and \
                    "k" in b_ and str(b_["k"].get("bits")) == "1":
                ok_inc = True
    res.ob(rule, "%s/pos-plus-one" % name, "Parser::%s advances pos by exactly 1, once, on a loop-free path" % name,
           ok_inc and len(pos_w) == 1 and nobackedge and all(bump.dominates(e["bb"], r) for e in pos_w for r in bump.return_blocks()),
           where=bump.loc(), how="pos writes: %d, AddWithOverflow(pos,1): %s, loop-free: %s" % (len(pos_w), ok_inc, nobackedge))
    ev = event_pushes(bump)
    push_bbs = [b for b, t in bump.calls() if short(callee(t)) == "Vec::push"]
    res.ob(rule, "%s/one-advance" % name, "Parser::%s pushes exactly one Event::Advance on every returning path" % name,
           ev == [("Vec::push", "Advance")] and all(bump.dominates(b, r) for b in push_bbs for r in bump.return_blocks()),
           where=bump.loc(), how="event writes %s" % ev)
    if name == "bump":
        gs = FL.gates(F, bump, bump.return_blocks(), d)
        eofg = [g for g in gs if g.get("callee") == P + "eof" and g["allowed"] == [False]]
        res.ob(rule, "bump/asserts-not-eof", "Parser::bump returns only if eof() was false (the assert!(!self.eof()) engine P models)",
               bool(eofg), where=bump.loc(), how="gates %s" % [FL.gate_summary(g) for g in gs])
    if with_fuel:
        sets = [e for e in EF.field_effects(bump, PA) if e["field"] == "fuel" and short(e.get("callee") or "") == "Cell::set"]
        res.ob(rule, "%s/refills-fuel" % name, "Parser::%s refills the progress guard's fuel (a consumption that does not would let the guard fire "
               "while the parser is making progress)" % name,
               bool(sets) and all(bump.dominates(e["bb"], r) for e in sets for r in bump.return_blocks()), where=bump.loc(),
               how="fuel.set calls: %d" % len(sets))


def check_field_writers(F, res, rule, with_fuel=True):
    """L4/L5: who may modify Parser.pos / events / tokens / tokens_raw / errors in crate syntax. The position is moved
    only by Parser's own `movers` (each checked by check_mover: +1 and one Advance, together)."""
    mv = set(movers(F))
    allowed = {
        "pos": mv,
        "events": mv | {P + "start_node", P + "start_node_before", P + "finish_node", P + "build_tree"},
        "tokens": set(),
        "tokens_raw": {P + "build_tree"},
        "errors": {P + "error", P + "build_tree"},
        "fuel": mv | {P + "nth", P + "bump"},
        "src": set(),
    }
    for fld, ok in sorted(allowed.items()):
        if fld == "fuel" and not with_fuel:
            continue
        ws = EF.writers(F, PA, fld, "syntax::")
        bad = [(f.path, e["how"], e["callee"], e["ln"]) for f, e in ws if f.path not in ok]
        res.ob(rule, "writers/Parser.%s" % fld,
               "Parser.%s is modified only by %s" % (fld, sorted(x.rsplit("::", 1)[-1] for x in ok) or "nobody"),
               not bad, where="crates/syntax/src/parser.rs",
               how="writers: %s" % sorted({f.path.rsplit("::", 1)[-1] for f, e in ws}) if not bad else "unexpected writer %s" % bad)
    # events: only push / insert / index_mut-assign / one pop in build_tree; never truncated, cleared, drained
    ops = set()
    for f, e in EF.writers(F, PA, "events", "syntax::"):
        ops.add((f.path.rsplit("::", 1)[-1], short(e["callee"])))
    bt = F.fn(P + "build_tree")
    shrink = []
    for pth in F.with_closures(bt.path):
        f = F.fns[pth]
        for b, t in f.calls():
            c = callee(t) or ""
            if c.startswith("alloc::vec::Vec") and c.rsplit("::", 1)[-1] in (
                    "pop", "truncate", "clear", "drain", "remove", "swap_remove", "retain", "split_off", "dedup"):
                shrink.append((c.rsplit("::", 1)[-1], t["ln"]))
    res.ob(rule, "events/only-grow", "Parser.events only grows while parsing (push/insert/overwrite-in-place)",
           all(c in ("Vec::push", "Vec::insert", "IndexMut::index_mut", None)
               for _, c in ops), where="crates/syntax/src/parser.rs", how="mutating calls: %s" % sorted(ops, key=str))
    res.ob(rule, "events/single-pop-in-build_tree", "build_tree removes exactly one event (the final Close of SOURCE_FILE) by one pop()",
           [s for s, _ in shrink] == ["pop"], where=bt.loc(), how="shrinking calls in build_tree: %s" % shrink)
    # Event::Advance / Parser literal constructed nowhere else
    adv = [(f.path, s["ln"]) for f, b, s in EF.constructions(F, EV, "Advance", "syntax::")]
    res.ob(rule, "construct/Event::Advance", "Event::Advance is constructed only in the methods that move the position (one each)",
           sorted(a[0] for a in adv) == sorted(mv), where="crates/syntax/src/parser.rs", how="sites: %s" % adv)
    lit = [(f.path, s["ln"]) for f, b, s in EF.constructions(F, PA, None, "syntax::")]
    res.ob(rule, "construct/Parser", "the Parser struct is built only in parse_module",
           [a[0] for a in lit] == ["syntax::parser::parse_module"], where="crates/syntax/src/parser.rs", how="sites: %s" % lit)


def lexer_callbacks(F):
    """hand-written functions the logos-generated lexer calls back into (`#[regex(.., lex_string)]`). The generated lexer is entered
    through a trait method of an external crate, which the call graph cannot follow from parse_module: its callbacks are named
    as extra roots wherever reachability from the parser or from the queries is computed."""
    cg = F.callgraph()
    gen = [p for p in F.fns if p.startswith("<syntax::kind::SyntaxKind as logos::Logos>::lex")]
    out = set()
    for g in gen:
        for c in cg.get(g, ()):
            if c.startswith("syntax::") and c not in gen and c in F.fns and F.fns[c].blocks and not (F.fns[c].d.get("span") or {}).get("exp"):
                out.add(c)
    return sorted(out)
