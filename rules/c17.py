"""C17 — Modules and packages resolve according to the project layout (the shape clauses: who is visible to whom, which
root a file is dealt to, what a module is called, what counts as external; not the path arithmetic)."""
from lib import flow as FL
from lib import facts as FA
from lib.facts import callee, callee_def, op_local, op_place

META = {
    "level": "other",
    "technique": "static analysis: receiver provenance (def-use over rustc MIR) of every module-map look-up and of the visibility "
                 "union, call-graph reachability (no transitive closure), must-pass-through on the per-root and per-file loops of "
                 "Change::apply, data/control dependence of the locality flag, ordering of the candidate roots",
    "rule": "T1 Package::visible_modules unites the module map of the package itself with the module maps of Package::dependencies "
            "of *that* package and of nothing else: Package::dependencies is asked of `self` only, neither function is recursive or "
            "reaches the other through a dependency (direct dependencies, no transitive closure). "
            "T2 every look-up of a module by name (ModuleMap::file_for_module_name) in crate ide asks a map that came from "
            "Package::visible_modules, and in the import-resolving queries that package is Module{the query's own file}.package(). "
            "T3 Change::apply: every file of a root is registered with that root's id on every iteration, its module name is computed "
            "against that root's own path and entered whenever there is one, and map, root and id are set together. "
            "T4 (= C08/V10, C15/M10) lower_vfs deals a file to the longest root whose path is a component-wise prefix of the file's. "
            "T5 (= C08/V6, V9, V11) external = the package root lies in build/packages, decided from the registered path alone. "
            "T6 (= C08/V7) dependencies and dev-dependencies are both followed. "
            "T7 (= C05/S14, C07/N6) a module's name is positional below its root; an import is looked up under the name it is registered with.",
    "explanation": "Decides the structural clauses of C17 on the code of today's tree: which maps an import can be resolved in, that the "
                   "visibility relation is one step of the dependency relation, that files, module names and roots are registered "
                   "consistently, that the longest root wins and that locality is read off the path. The computations on concrete "
                   "directory trees and gleam.toml contents (project root discovery, path joins, what WalkDir visits) quantify over "
                   "file-system states and are not decided. T13 the package graph holds one entry per manifest (add_package searches by gleam_toml before it allocates): which root was opened first does not decide which entry answers.",
    "not_decided": "find_gleam_project_parent and load_package_files on arbitrary directory trees; relative path dependencies that are not "
                   "normalised; symbolic links; whether every file on disk is loaded; behaviour when gleam.toml is malformed.",
    "trusted_base": ["rustc MIR and callee resolution", "std::path component semantics", "salsa inputs are read back as set"],
    "assumptions": [],
}

PK = "ide::def::hir::Package::"


def _units(F, path, extra=()):
    out = [F.fn(path)] + [F.fns[c] for c in F.closures_of(path)]
    for p in extra:
        if p in F.fns and F.fns[p].blocks:
            out.append(F.fns[p])
            out += [F.fns[c] for c in F.closures_of(p)]
    return out


def _is_self(f, d, op):
    """the operand is (a copy of) the first parameter of a method unit"""
    o = d.origin_op(op)
    return o.get("k") == "arg" and o.get("n") == 1 and f.kind != "Closure"


def direct_dependencies_only(F, res, rule="T1"):
    vm = F.fn(PK + "visible_modules")
    dep = F.fn(PK + "dependencies")
    # private helpers of Package that visible_modules delegates to (not the two accessors themselves)
    helpers = [p for p in F.with_helpers(vm.path, depth=2)
               if p.startswith("ide::def::hir::") and "{closure" not in p and p.rsplit("::", 1)[-1] not in ("visible_modules", "dependencies", "module_map", "is_local")]
    units = _units(F, vm.path, helpers)
    dep_calls, bad_dep, rec, own, others, inserts = 0, [], [], 0, 0, 0
    for u in units:
        d = FL.Defs(u)
        for b, t in u.calls():
            c = callee(t) or ""
            if c == dep.path:
                dep_calls += 1
                if not _is_self(u, d, t["args"][0]):
                    bad_dep.append("%s line %d" % (FL.short(u.path), t["ln"]))
            elif c == vm.path:
                rec.append("%s line %d" % (FL.short(u.path), t["ln"]))
            elif c == PK + "module_map":
                if _is_self(u, d, t["args"][0]):
                    own += 1
                else:
                    others += 1
            elif c == "ide::base::ModuleMap::insert":
                inserts += 1
    res.ob(rule, "visible_modules/dependencies-of-self", "visible_modules asks Package::dependencies of the package itself and of no other package "
           "(asking it of a dependency makes the dependencies of dependencies importable)", dep_calls >= 1 and not bad_dep, where=vm.loc(),
           how="calls of Package::dependencies: %d; with a receiver other than self: %s" % (dep_calls, bad_dep))
    res.ob(rule, "visible_modules/not-recursive", "visible_modules does not call itself (a union over visible_modules of the dependencies is the "
           "transitive closure)", not rec, where=vm.loc(), how="recursive calls: %s" % rec)
    res.ob(rule, "visible_modules/own-and-direct", "the result is filled from the module map of the package itself and from the module maps of its "
           "dependencies", own >= 1 and others >= 1 and inserts >= 1, where=vm.loc(),
           how="module_map(self): %d, module_map(dependency): %d, inserts: %d" % (own, others, inserts))
    # dependencies(): one step of the graph
    reach = F.reachable_from([dep.path])
    back = sorted(p for p in reach if p in (vm.path,) or (p == dep.path and any(callee(t) == dep.path for u in _units(F, dep.path) for b, t in u.calls())))
    res.ob(rule, "dependencies/one-step", "Package::dependencies lists the packages named in the package's own `dependencies` and does not descend "
           "(it reaches neither itself nor visible_modules)", not back, where=dep.loc(), how="reaches: %s" % back)
    # it reads the `dependencies` field of the PackageInfo of the package it was asked for
    reads = set()
    for u in _units(F, dep.path):
        for b, i, s in u.stmts():
            for pl in _places_of(s):
                for e in pl["p"]:
                    if isinstance(e, dict) and e.get("n") == "dependencies":
                        reads.add(u.path)
    res.ob(rule, "dependencies/reads-the-graph", "Package::dependencies reads PackageInfo.dependencies", bool(reads), where=dep.loc(),
           how="units reading the field: %s" % sorted(FL.short(x) for x in reads))


def _places_of(s):
    out = []
    rv = s.get("rv") or {}
    if "place" in s:
        out.append(s["place"])
    if "place" in rv:
        out.append(rv["place"])
    for key in ("op", "a", "b"):
        o = rv.get(key)
        if isinstance(o, dict):
            pl = op_place(o)
            if pl is not None:
                out.append(pl)
    for o in rv.get("ops", []) or []:
        pl = op_place(o) if isinstance(o, dict) else None
        if pl is not None:
            out.append(pl)
    return out


THROUGH = ("Deref>::deref", "Deref::deref", "Clone>::clone", "Clone::clone", "as_ref", "borrow", "AsRef")


def _map_source(F, f, d, op, depth=0, seen=None):
    """where the ModuleMap an operand refers to came from: list of (kind, unit path, term|None):
    'visible' (Package::visible_modules call), 'param' followed to the callers, or 'other'"""
    o = d.origin_op(op, through_calls=THROUGH)
    # an upvar of a closure (the map captured by a `filter_map(|import| map.file_for_module_name(..))`): follow to the parent
    idx0 = FL.closure_env_field(o) if f.kind == "Closure" else None
    if idx0 is not None and depth < 3:
        pf, po = FL.upvar_origin(F, f.path, idx0)
        if pf is not None and po.get("l") is not None:
            return _map_source(F, pf, FL.Defs(pf), {"cp": {"l": po["l"], "p": []}}, depth + 1)
    while o.get("k") == "field" and o.get("base"):
        # a projection of a local tuple: give up on precision, look at the base
        o = o["base"]
    if o.get("k") == "call":
        c = callee(o["t"]) or callee_def(o["t"]) or ""
        if c == PK + "visible_modules":
            return [("visible", f.path, o["t"])]
        # a helper of crate ide that answers with such a map (`visible_module_map(db, file)`): what it answers with
        h = F.fns.get(c)
        if h is not None and h.blocks and c.startswith(("ide::", "<ide::")) and depth < 3:
            dh = FL.Defs(h)
            ro = dh.origin(0)
            cands = [ro] if ro.get("k") != "multi" else [{"k": "call", "t": dd[3], "bb": dd[0]} if dd[2] == "call" else dh.origin_rv(dd[3]["rv"], 0, dd[0], 0, ()) for dd in ro["defs"]]
            out = []
            for oc in cands:
                if oc.get("k") == "call" and (callee(oc["t"]) or "") == PK + "visible_modules":
                    out.append(("visible", h.path, oc["t"], (f.path, o["t"])))
                else:
                    out.append(("other:" + FL.short(c), f.path, o["t"]))
            return out
        return [("other:" + FL.short(c), f.path, o["t"])]
    if o.get("k") == "arg" and depth < 3:
        n = o["n"]
        out = []
        target = f.path
        if f.kind == "Closure":
            return [("other:closure-parameter", f.path, None)]
        callers = 0
        for p, g in sorted(F.fns.items()):
            if not g.blocks or not p.startswith(("ide::", "<ide::")):
                continue
            dg = None
            for b, t in g.calls():
                if (callee(t) or "") == target:
                    dg = dg or FL.Defs(g)
                    callers += 1
                    out += _map_source(F, g, dg, t["args"][n - 1], depth + 1)
        if not callers:
            out.append(("other:parameter-without-callers", f.path, None))
        return out
    # an upvar of a closure: follow to the parent
    idx = FL.closure_env_field(o) if f.kind == "Closure" else None
    if idx is not None and depth < 3:
        pf, po = FL.upvar_origin(F, f.path, idx)
        if pf is not None and po.get("l") is not None:
            return _map_source(F, pf, FL.Defs(pf), {"cp": {"l": po["l"], "p": []}}, depth + 1)
    return [("other:" + str(o.get("k")), f.path, None)]


def lookups_go_through_visible_modules(F, res, rule="T2"):
    sites = 0
    for p, f in sorted(F.fns.items()):
        if not f.blocks or not p.startswith(("ide::", "<ide::")) or "::tests::" in p or p.startswith("ide::tests"):
            continue
        d = None
        for b, t in f.calls():
            if (callee(t) or "") != "ide::base::ModuleMap::file_for_module_name":
                continue
            d = d or FL.Defs(f)
            sites += 1
            src = _map_source(F, f, d, t["args"][0])
            bad = [s_ for s_ in src if s_[0] != "visible"]
            ordinal = sum(1 for b2, t2 in f.calls() if (callee(t2) or "") == "ide::base::ModuleMap::file_for_module_name" and (b2, t2["ln"]) < (b, t["ln"]))
            res.ob(rule, "lookup/%s/%d" % (FL.short(p), ordinal), "a module is looked up by name only in the map of modules visible to a package "
                   "(its own and those of its direct dependencies), never in a single root's map or a map built some other way",
                   bool(src) and not bad, where=f.loc(t["ln"]), how="map comes from: %s" % sorted({s[0] for s in src}))
            # whose visibility: the package of the module whose import list is being resolved
            if p.startswith("ide::def::scope::") and not bad:
                whose = []
                for ent in src:
                    kind, up, vt = ent[0], ent[1], ent[2]
                    via = ent[3] if len(ent) > 3 else None
                    u = F.fns[up]
                    du = FL.Defs(u)
                    ro = du.origin_op(vt["args"][0])
                    ok = False
                    if ro.get("k") == "call" and (callee(ro["t"]) or "") == "ide::def::hir::Module::package":
                        mo = du.origin_op(ro["t"]["args"][0])
                        if mo.get("k") == "agg" and (mo["rv"].get("adt") or "").endswith("hir::Module"):
                            ido = du.origin_op(mo["rv"]["ops"][0])
                            if via is not None and ido.get("k") == "arg":
                                # the map was made by a helper for the file it was handed: the file is the caller's argument
                                cu = F.fns[via[0]]
                                dcu = FL.Defs(cu)
                                fk = FL.origin_key(dcu.origin_op(via[1]["args"][ido["n"] - 1]))
                                items = [FL.origin_key(dcu.origin_op(t3["args"][1])) for b3, t3 in cu.calls()
                                         if (callee(t3) or callee_def(t3) or "").endswith("module_items") and len(t3["args"]) >= 2]
                            else:
                                fk = FL.origin_key(ido)
                                items = [FL.origin_key(du.origin_op(t3["args"][1])) for b3, t3 in u.calls()
                                         if (callee(t3) or callee_def(t3) or "").endswith("module_items") and len(t3["args"]) >= 2]
                            ok = fk is not None and fk in items
                    whose.append(ok)
                res.ob(rule, "importer/%s/%d" % (FL.short(p), ordinal), "the visibility asked is that of the package of the importing module: "
                       "Module{id: f}.package() for the same file f whose module_items (import list) are being resolved", bool(whose) and all(whose),
                       where=f.loc(t["ln"]), how="visible_modules receiver is the module whose items are read: %s" % whose)
    res.floor("module look-ups by name in crate ide", sites, 3)
    # the raw per-root input is read only by the two accessors
    raw = []
    for p, f in sorted(F.fns.items()):
        if not f.blocks or not p.startswith(("ide::", "<ide::")) or "::tests::" in p:
            continue
        for b, t in f.calls():
            c = callee(t) or callee_def(t) or ""
            if c.endswith("SourceDatabase::module_map") or c.endswith("SourceDatabase>::module_map"):
                raw.append(p)
    allowed = {PK + "module_map", "ide::def::hir::Module::name"}
    extra = sorted(set(x for x in raw if x not in allowed and "__shim" not in x and "Query" not in x))
    res.ob(rule, "raw-map-readers", "the per-root module map (the salsa input) is read only by Package::module_map and Module::name; nothing resolves a "
           "name in it directly", bool(raw) and not extra, where=F.fn(PK + "module_map").loc(), how="other readers: %s" % extra)


def roots_are_registered_consistently(F, res, rule="T3"):
    from lib import inline as IL
    ap0 = F.fn("ide::base::Change::apply")
    # helpers of Change and accessor-like methods of SourceRoot (`root.module_name_for_path(path)`) are part of the registration
    ap = IL.inlined(F, ap0, want=lambda p: p.startswith(("ide::base::Change::", "ide::base::SourceRoot::")) and "{closure" not in p and
                    p.rsplit("::", 1)[-1] not in ("files", "source_files", "new"), depth=3)
    d = FL.Defs(ap)

    def calls_named(suffix):
        return [(b, t) for b, t in ap.calls() if (callee(t) or callee_def(t) or "").endswith(suffix)]
    fsr = calls_named("set_file_source_root_with_durability")
    smm = calls_named("set_module_map_with_durability")
    ssr = calls_named("set_source_root_with_durability")
    ins = [(b, t) for b, t in ap.calls() if (callee(t) or "") == "ide::base::ModuleMap::insert"]
    res.floor("Change::apply: registrations (file->root, module map, root, insert)", min(len(fsr), len(smm), len(ssr), len(ins)), 1)
    # every iteration of the loop that registers files passes the registration
    ways = FL.every_iteration_passes(ap, [b for b, t in fsr]) if fsr else []
    # only the innermost loop around the registration is the per-file loop (a root without files goes round the outer one)
    inner = None
    for tl, hd in ap.back_edges():
        lp = ap.natural_loop(tl, hd)
        if fsr and fsr[0][0] in lp and (inner is None or len(lp) < len(inner[1])):
            inner = (hd, lp)
    ways = [w for w in ways if inner is not None and w[0] == inner[0]]
    ok_iter = bool(fsr) and inner is not None and not ways
    res.ob(rule, "apply/every-file-gets-its-root", "no file of a root goes round the per-file loop without being registered with the root's id "
           "(a file skipped here - one without a module name, say gleam.toml - keeps the root of an earlier partition)", ok_iter,
           where=ap0.loc(fsr[0][1]["ln"]) if fsr else ap0.loc(), how="ways round the per-file loop that miss set_file_source_root: %s" % ways)
    # the module name is entered whenever there is one: the insert sits under "there is a value" decisions only
    ways, bad = [], []
    for b, t in ins:
        for g in FL.gates(F, ap, [b], d):
            w = (FL.short(g.get("callee") or ""), g.get("allowed"))
            ways.append(w)
            if g.get("allowed") not in (["Some"], ["Continue"], ["Ok"]):
                bad.append(w)
    res.ob(rule, "apply/every-named-module-is-entered", "a file with a module name is entered in the root's module map: the insert depends on "
           "nothing but a root list, a next file and a name being there (no further test decides which modules exist)", bool(ins) and not bad,
           where=ap0.loc(ins[0][1]["ln"]) if ins else ap0.loc(), how="decisions above the insert: %s; other than presence tests: %s" % (ways, bad))
    # the name entered is module_name(path of this root, path of a file of this root)
    ok_root, how = False, ""
    if ins:
        b, t = ins[0]
        name_fields = FL.fields_feeding(F, ap, d, t["args"][2], "SourceRoot")
        dep = FL.depends(F, ap, d, t["args"][2], use_bb=b)
        calls = {FL.short(c) for c in dep["calls"]}
        ok_root = "root_path" in name_fields and "base::module_name" in calls and any(c.endswith("::files") for c in calls)
        how = "the name depends on SourceRoot fields %s and on %s" % (sorted(name_fields), sorted(c for c in calls if c.endswith(("::files", "module_name", "as_path"))))
    res.ob(rule, "apply/name-relative-to-own-root", "the name entered for a file is module_name(root path, file path) with the path of the root "
           "whose files() are being walked", ok_root, where=ap0.loc(ins[0][1]["ln"]) if ins else ap0.loc(), how=how)
    # id, map and root are set together, with one id
    ok_sid, how = False, ""
    if fsr and smm and ssr:
        keys = {FL.origin_key(d.origin_op(fsr[0][1]["args"][2])), FL.origin_key(d.origin_op(smm[0][1]["args"][1])),
                FL.origin_key(d.origin_op(ssr[0][1]["args"][1]))}
        ok_sid = len(keys) == 1 and None not in keys
        how = "root-id operands: %s" % sorted(map(str, keys))
    res.ob(rule, "apply/one-id-per-root", "the files of a root, its module map and the root itself are registered under one and the same SourceRootId",
           ok_sid, where=ap0.loc(), how=how)


def path_dependencies_are_normalised(F, res, rule="T8"):
    """T8: "each file belongs to the innermost package root containing it" - to exactly one root, under the path the client uses
    for it. A dependency given as `{ path = "../lib" }` is joined to the depending project's root; registered as it is
    (`<app>/../lib`) the package becomes a second root with a second copy of every file of lib, definitions lead to URIs the
    client never sends, and an unsaved document of lib is not the module the import resolves to. The root handed on for a
    path dependency (the argument of the recursive assemble_graph call that depends on the manifest's `path` entry) passes
    through a function that resolves `..` segments lexically (it matches on std::path::Component); no file-system call (T4/V9)."""
    ag = F.fn("glas::server::Server::assemble_graph")
    d = FL.Defs(ag)
    sites, bad = 0, []
    norm = set()
    for p_, g in F.fns.items():
        if not p_.startswith(("glas::", "<glas::")) or not g.blocks:
            continue
        for b in g.reachable():
            t = g.term(b)
            if t["k"] == "switch":
                l = op_local(t["op"])
                o = FL.Defs(g).origin(l) if l is not None else {}
                if o.get("k") == "rv" and o["rv"]["k"] == "discr" and (o["rv"].get("of") or "").endswith("path::Component"):
                    norm.add(p_)
    for b, t in ag.calls():
        if (callee(t) or "") != ag.path:
            continue
        dep = FL.depends(F, ag, d, t["args"][1], use_bb=b)
        if "path" not in dep["strs"]:
            continue
        sites += 1
        if not (set(dep["calls"]) & {FL.short(n) for n in norm} or set(dep["calls"]) & norm):
            bad.append("line %d" % t["ln"])
    res.ob(rule, "assemble_graph/path-dependency-normalised", "the root of a path dependency is normalised (`..` resolved lexically) before it is "
           "registered as a package root", sites >= 1 and not bad, where=ag.loc(),
           how="recursive calls for a manifest `path`: %d; not through a normalising function (%s): %s" % (sites, sorted(FL.short(n) for n in norm), bad))


def every_project_is_assembled_with_names_of_its_own(F, res, rule="T9"):
    """T9: assemble_graph recognises a package it has met before by its *name* (the `seen` table). Names are unique inside one
    project only: two projects opened in one session can both depend on a package called `shared`, each with its own copy
    under its own build/packages. Every top-level assembly (a call of assemble_graph that is not the recursive one) therefore
    starts with a name table of its own - built in the same loop iteration as the call, or in the same straight-line code
    when there is no loop. A table that survives from one root to the next resolves the second project's import into the
    first project's dependency."""
    ag = "glas::server::Server::assemble_graph"
    n, bad = 0, []
    for p_, f in sorted(F.fns.items()):
        if not p_.startswith(("glas::", "<glas::")) or not f.blocks or p_.startswith(ag):
            continue
        d = None
        for b, t in f.calls():
            if (callee(t) or "") != ag:
                continue
            d = d or FL.Defs(f)
            n += 1
            # the `seen` argument: the one whose type is a map keyed by the package name
            arg = None
            agf = F.fn(ag)
            for i in range(agf.d["arg_count"]):
                if "HashMap<" in str(agf.local_ty(i + 1) or "") and i < len(t["args"]):
                    arg = t["args"][i]
            if arg is None:
                bad.append("%s line %d: no name table argument found" % (FL.short(p_), t["ln"]))
                continue
            o = d.origin_op(arg)
            base = o
            while base.get("k") == "field":
                base = base["base"]
            ctor_bb = None
            if base.get("k") == "call" and FL.short(callee(base["t"]) or callee_def(base["t"]) or "").rsplit("::", 1)[-1] in ("new", "default", "with_capacity"):
                ctor_bb = base["bb"]
            elif base.get("k") == "multi" or base.get("k") == "unknown":
                l0 = base.get("l")
                cds = [dd for dd in d.defs.get(l0, []) if dd[2] == "call" and
                       FL.short(callee(dd[3]) or callee_def(dd[3]) or "").rsplit("::", 1)[-1] in ("new", "default", "with_capacity")]
                if len(cds) == 1:
                    ctor_bb = cds[0][0]
            if ctor_bb is None:
                bad.append("%s line %d: the name table is not built by a constructor in this function" % (FL.short(p_), t["ln"]))
                continue
            loops = [f.natural_loop(tl, hd) for tl, hd in f.back_edges()]
            around_call = [lp for lp in loops if b in lp]
            if any(ctor_bb not in lp for lp in around_call):
                bad.append("%s line %d: the table is built outside the loop that assembles one root per iteration" % (FL.short(p_), t["ln"]))
    res.ob(rule, "assemble_graph/fresh-name-table-per-root", "every top-level assembly of a package graph starts with an empty table of package names",
           n >= 1 and not bad, where=F.fn(ag).loc(), how="top-level calls: %d; %s" % (n, "; ".join(bad) if bad else "each with a table built in the same iteration"))


def packages_are_not_identified_by_name(F, res, rule="T10", _ret=False):
    """T10: two packages with one name are two packages. Names are unique within one project's dependency closure only (T9): two
    projects open in one session, or an app and its path dependency with a `build/packages` of their own, both have a `dep1`.
    PackageGraph::add_package therefore answers with a fresh entry on every path; if it ever hands back an existing entry, what it
    found it by must include the manifest (the `gleam_toml` file id), not the display name alone - else an import resolves into the
    copy of a package the importer does not depend on."""
    f = F.fns.get("ide::base::PackageGraph::add_package")
    if f is None or not f.blocks:
        res.anchor_missing(rule, "ide::base::PackageGraph::add_package")
        return None
    d = FL.Defs(f)
    o = d.origin(0)
    cands = [o] if o.get("k") != "multi" else [{"k": "call", "t": dd[3], "bb": dd[0]} if dd[2] == "call" else d.origin_rv(dd[3]["rv"], 0, dd[0], 0, ()) for dd in o["defs"]]
    fresh = [c for c in cands if c.get("k") == "call" and FL.short(callee(c["t"]) or "").endswith("Arena::alloc")]
    other = [c for c in cands if c not in fresh]
    # parameters by name
    names = {v.get("name"): v.get("local") for v in f.d.get("var_debug", []) if v.get("local") is not None}
    pn = {i: (f.d.get("arg_names") or {}).get(str(i)) for i in range(1, f.d["arg_count"] + 1)}
    deps = set()
    units = [f] + [F.fns[c] for c in F.closures_of(f.path) if c in F.fns]
    for g in units:
        dg = FL.Defs(g) if g is not f else d
        for b in sorted(g.reachable()):
            t = g.term(b)
            if t["k"] == "switch":
                dd = FL.depends(F, g, dg, t["op"])
                deps |= {(g.path == f.path, a) for a in dd["args"]}
    decided_by = sorted(a for own, a in deps if own)
    # every answer that is an existing entry stands behind a decision that depends on the manifest: two early returns, one found
    # by manifest and one found by name, are still a look-up by name
    by_name_only = []
    ans_blocks = []
    if o.get("k") == "multi":
        for dd in o["defs"]:
            if not (dd[2] == "call" and FL.short(callee(dd[3]) or "").endswith("Arena::alloc")):
                ans_blocks.append(dd[0])
    for bb in ans_blocks:
        args_ = set()
        for g in FL.gates(F, f, [bb], d):
            t_ = f.term(g["bb"])
            if t_.get("k") == "switch":
                args_ |= set(FL.depends(F, f, d, t_["op"])["args"])
        # what the closures handed to the search compare is part of the decision
        for u in units[1:]:
            du = FL.Defs(u)
            for b2 in sorted(u.reachable()):
                t2 = u.term(b2)
                if t2["k"] == "switch" or True:
                    pass
        if 3 not in args_:
            # the closure of a `find` captures what it compares with: look at the captured parameters
            cap = set()
            for b2, i2, s2 in f.stmts():
                rv2 = s2.get("rv") or {}
                if rv2.get("k") == "agg" and rv2.get("agg") == "closure":
                    for o2 in rv2.get("ops", []) or []:
                        cap |= set(FL.depends(F, f, d, o2)["args"])
            gate_calls = set()
            for g in FL.gates(F, f, [bb], d):
                t_ = f.term(g["bb"])
                if t_.get("k") == "switch":
                    gate_calls |= set(FL.depends(F, f, d, t_["op"])["calls"])
            per_answer = args_ | (cap if len([1 for b2, i2, s2 in f.stmts() if (s2.get("rv") or {}).get("agg") == "closure"]) == 1 else set())
            if 3 not in per_answer:
                by_name_only.append("the answer made in block %s is decided by parameters %s" % (bb, sorted(per_answer)))
    if _ret:
        return f, fresh, other, decided_by
    ok = bool(fresh) and (not other or (3 in decided_by and not by_name_only))
    res.ob(rule, "add_package/fresh-entry", "PackageGraph::add_package answers with a newly allocated entry on every path (or finds an existing one by its manifest, "
           "never by its name alone)", ok, where=f.loc(),
           how="%d answer(s), all from Arena::alloc" % len(fresh) if ok and not other else
           "answers that are not a fresh allocation: %d; parameters that decide: %s (2 = display_name, 3 = gleam_toml); %s" % (len(other), decided_by, "; ".join(by_name_only)))


def name_clashes_and_duplicate_entries_are_settled_one_way(F, res, rule="T11"):
    """T11: two places each settle a tie, and their callers lean on how. (a) ModuleMap::insert overwrites: Package::visible_modules
    inserts the modules of the dependencies first and the package's own last, so that a package's own `util` wins over a
    dependency's - an insert that keeps the entry it finds hands `import util` to the dependency. (b) source_root_package answers
    with the *first* entry of the graph whose manifest lies in the root: the server re-assembles every known root as a project of
    its own after the real graph, so later entries for the same root exist and have no dependencies - the last one resolves
    nothing inside a fetched package."""
    KEEP = ("entry", "or_insert", "or_insert_with", "or_default", "try_insert", "get_or_insert", "get_or_insert_with", "contains_key")
    ins = F.fns.get("ide::base::ModuleMap::insert")
    if ins is None or not ins.blocks:
        res.anchor_missing(rule, "ide::base::ModuleMap::insert")
    else:
        calls = [FL.short(callee(t) or callee_def(t) or "") for _b, t in ins.calls()]
        stores = [c for c in calls if c.rsplit("::", 1)[-1] == "insert"]
        keeps = [c for c in calls if c.rsplit("::", 1)[-1] in KEEP]
        switches = [b for b in sorted(ins.reachable()) if ins.term(b)["k"] == "switch"]
        res.ob(rule, "module-map/insert-overwrites", "ModuleMap::insert stores the new file under the name unconditionally (the last registration of a name wins: "
               "a package's own module over a dependency's)", len(stores) >= 2 and not keeps and not switches, where=ins.loc(),
               how="stores %s; keep-existing calls %s; decisions %d" % (stores, keeps, len(switches)))
    sp = F.fns.get("ide::base::source_root_package")
    if sp is None or not sp.blocks:
        res.anchor_missing(rule, "ide::base::source_root_package")
        return
    unit = [sp] + [F.fns[c] for c in F.closures_of(sp.path) if c in F.fns]
    calls = {FL.short(callee(t) or callee_def(t) or "").rsplit("::", 1)[-1] for u in unit for _b, t in u.calls()}
    lastish = sorted(calls & {"last", "next_back", "rev", "max", "max_by", "max_by_key", "min", "min_by", "min_by_key", "rfind", "rposition", "collect", "fold", "reduce", "nth_back"})
    firstish = sorted(calls & {"next", "find", "find_map", "position"})
    loops = bool(sp.back_edges())
    res.ob(rule, "source-root-package/first-entry", "source_root_package answers with the first entry of the graph that matches (no last / max / collected map)",
           (bool(firstish) or loops) and not lastish, where=sp.loc(), how="selecting calls: first-like %s, last-like %s, explicit loop %s" % (firstish, lastish, loops))


def one_packages_directory_per_project(F, res, rule="T12"):
    """T12: what a project depends on is fetched into the project's own `build/packages` - also what its *path dependencies* depend on:
    `gleam deps download` in app/ puts gleam_stdlib, which core = { path = "../core" } needs, into app/build/packages. The function that
    assembles the package graph therefore carries that directory down its recursion unchanged: a recursive call hands on the directory
    parameter it was given, and the root of a fetched dependency is that directory joined with the dependency's name - not a
    `build/packages` below the package being assembled, which a path dependency does not have (`import gleam/list` inside the path
    dependency resolved to nothing unless the name of another dependency happened to sort first)."""
    f = F.fns.get("glas::server::Server::assemble_graph")
    if f is None or not f.blocks:
        res.anchor_missing(rule, "glas::server::Server::assemble_graph")
        return
    d = FL.Defs(f)
    rec = [(b, t) for b, t in f.calls() if (callee(t) or "") == f.path]
    pathy = [i for i in range(1, f.d["arg_count"] + 1) if "Path" in (f.local_ty(i) or "") and "mut" not in (f.local_ty(i) or "")]
    carried = [i for i in pathy if rec and all(d.origin_op(t["args"][i - 1]).get("k") == "arg" and d.origin_op(t["args"][i - 1]).get("n") == i for _b, t in rec)]
    # the root handed to a recursive call: joined onto the carried directory (a fetched package) or read off the manifest (a path dependency)
    bad = []
    for b, t in rec:
        for i in pathy:
            if i in carried:
                continue
            dep = FL.depends(F, f, d, t["args"][i - 1], use_bb=b)
            below_self = any("build/packages" in x.replace("\\", "/") for x in dep["strs"])
            if below_self:
                bad.append("line %s: the dependency is looked for in a build/packages made here (%s)" % (t["ln"], sorted(dep["strs"])[:3]))
    res.floor("recursive calls of assemble_graph (one per kind of dependency, or one for both)", len(rec), 1)
    res.ob(rule, "assemble/one-packages-dir", "assemble_graph hands the project's packages directory down unchanged and looks fetched dependencies up in it",
           bool(carried) and not bad, where=f.loc(), how="directory parameter(s) carried unchanged: %s" % carried if carried and not bad else
           ("; ".join(bad) or "no Path parameter is handed on unchanged by the recursive calls: every package looks below itself"))


def FA_op_place(op):
    from lib.facts import op_place
    return op_place(op) if isinstance(op, dict) else None


def one_entry_per_manifest(F, res, rule="T13"):
    """T13: "files opened in any order". The server assembles every root it knows as a project of its own, in the order the roots
    were met (the order files were opened in), each with a fresh name table (T9), and source_root_package answers with the first
    entry whose manifest lies in the root (T11). A root that is reached twice - a path dependency opened before the project that
    uses it, a fetched package re-assembled as a root - therefore gets two entries when add_package allocates on every call, and
    which of them answers depends on the order of opening: opened first, `core = { path = "../core" }` is assembled without the
    project's build/packages, its entry has no dependencies and precedes the one made while assembling the project; `import
    gleam/list` inside it resolves to nothing. The graph must hold one entry per manifest: the allocation in add_package is reached
    only when a search of the existing entries by their manifest found nothing (and the entry found is the answer otherwise), so that
    the dependencies every assembly finds for it accumulate in one place."""
    r = packages_are_not_identified_by_name(F, res, rule=rule, _ret=True)
    if r is None:
        return
    f, fresh, other, decided_by = r
    unit = [F.fns[q] for q in F.with_helpers(f.path, depth=2) if q in F.fns and F.fns[q].blocks]
    from lib import effects as EF
    adts = {e.get("adt") for u in unit for b in u.reachable() for st in u.blocks[b]["stmts"] if st["k"] == "assign"
            for pl in ([st["rv"].get("place")] if isinstance(st["rv"].get("place"), dict) else []) + [FA_op_place(st["rv"].get("op"))]
            if pl for e in pl["p"] if isinstance(e, dict) and "adt" in e}
    reads_manifest = any(e["field"] == "gleam_toml" and e["how"] in ("read", "borrow")
                         for u in unit for a in adts if a and a.endswith("PackageInfo") for e in EF.field_effects(u, a))
    ok = bool(fresh) and bool(other) and 3 in decided_by and reads_manifest
    res.ob(rule, "add_package/one-entry-per-manifest", "PackageGraph::add_package allocates an entry only when no entry of the graph has the manifest "
           "(the `gleam_toml` file) it is given, and answers with the entry it found otherwise: whichever root is assembled first, a package "
           "root has one entry and the dependencies found for it meet there", ok, where=f.loc(),
           how="fresh allocations %d, answers with an existing entry %d, parameters that decide %s (3 = gleam_toml), reads PackageInfo.gleam_toml: %s"
               % (len(fresh), len(other), decided_by, reads_manifest))


def run(F, res, tier):
    direct_dependencies_only(F, res)
    lookups_go_through_visible_modules(F, res)
    roots_are_registered_consistently(F, res)
    path_dependencies_are_normalised(F, res)
    every_project_is_assembled_with_names_of_its_own(F, res)
    packages_are_not_identified_by_name(F, res)
    name_clashes_and_duplicate_entries_are_settled_one_way(F, res)
    one_packages_directory_per_project(F, res)
    one_entry_per_manifest(F, res)
    from rules import c08 as _c08, c15 as _c15, c05 as _c05, c07 as _c07
    _c08.locality_comes_from_the_registered_path(F, res, rule="T4")      # V9 + V10 (longest root first)
    _c15.files_lie_below_their_root(F, res, rule="T4")                  # M10
    _c08.v6(F, res, rule6="T5", rule7="T6")                             # V6 locality from the root path; V7 both tables
    _c08.module_locality_implies_package_locality(F, res, rule="T5")    # V11
    _c05.module_names_are_positional(F, res, rule="T7")                 # S14
    _c07.import_names_agree(F, res, rule="T7")                          # N6
