"""C16 — Edits racing with requests never deadlock and the server converges (lock discipline, ordering)."""
from lib import flow as FL
from lib import locks as LK
from lib.facts import op_local, callee, callee_def, op_place
from rules import parser_model as PM

META = {
    "level": "other",
    "technique": "static analysis: lock-guard liveness on MIR (acquire to drop/move), call-graph reachability of re-acquisition and of AnalysisHost::apply_change, must-precede ordering, who-may-call",
    "rule": "W1 while a guard of the document store (or any std lock) is live, no call may reach AnalysisHost::apply_change or "
            "an acquisition of the same lock; W2 snapshots are created only in spawn_with_snapshot and moved into spawn_blocking at "
            "once, never stored in Server or across an await; W3 the lock-order graph over all locks of crate glas is acyclic; W4 the "
            "change is applied to the analysis host before diagnostics are recomputed, the snapshot is taken before the previous "
            "task is replaced, closed documents get empty diagnostics; W5 cancellation is requested before inputs are written. "
            "One obligation per guard acquisition / call site. W7 the document store is written only after cancellation was requested (no reader pairs an old analysis with the new line map); W8 = C12/K4 over the handlers. W9 a cancelling handler recomputes all diagnostics on every path; W10 = C13/D9; W11 = C13/D10; W12 a cancelled diagnostics computation hands no list to the publisher; W14 = C13/D2 (convergence to the client's text needs every change converted against the text after the previous one). W13 code that runs off the main loop locks the document store only while it holds a snapshot.",
    "explanation": "The two-lock discipline ('never wait for snapshots while holding the document store') is documented in "
                   "comments only. MIR makes guard lifetimes explicit (the unwrap that yields the guard, mem::drop, Drop "
                   "terminators, moves), so the regions in which a guard is live are computed exactly per function and every call "
                   "inside such a region is checked against the workspace call graph. Decides the lock discipline and the ordering "
                   "clauses, not timing.",
    "not_decided": "that every request is answered within a deadline; convergence of published diagnostics under all message timings.",
    "trusted_base": ["rustc MIR drop elaboration", "salsa: apply_change waits for all snapshots; snapshots hold a read lock"],
    "assumptions": ["calls into dependencies do not call back into glas while a guard is held (leaves of the call graph)"],
}

APPLY = "ide::ide::AnalysisHost::apply_change"
SNAPSHOT = "ide::ide::AnalysisHost::snapshot"
SRV = "glas::server::Server::"


def in_glas(p):
    return p.startswith("glas::") or p.startswith("[bin]glas::") or p.startswith("<glas::")


def run(F, res, tier):
    stale_diagnostics_are_dropped(F, res)
    lock_rules(F, res)
    other_rules(F, res)
    store_updates_after_cancellation(F, res)
    cancellation_is_followed_by_recompute(F, res)
    all_means_all(F, res)
    from rules import c12 as _c12
    hs = [f for p_, f in sorted(F.fns.items()) if p_.startswith("glas::handler::") and f.blocks and "{closure" not in p_]
    res.floor("request handlers in glas::handler", len(hs), 10)
    _c12.cancelled_not_swallowed(F, res, hs, "W8", lambda f: "handler::%s" % f.name)
    from rules import c13 as _c13x
    _c13x.last_text_wins(F, res, rule="W10")
    # positions are converted through LineMap in both directions: writer and readers of its table use one coordinate system (C13/D10)
    from rules import c13 as _c13lm
    _c13lm.line_map_coordinates_agree(F, res, rule="W11")
    cancelled_computation_publishes_nothing(F, res)
    _c13lm.edits_use_the_current_line_map(F, res, rule="W14")
    store_is_read_off_the_loop_only_under_a_snapshot(F, res, LK.LockFacts(F))


def lock_rules(F, res, w1="W1", w3="W3"):
    L = LK.LockFacts(F)
    # both wait until every snapshot is gone (salsa's write lock); a snapshot's task may be waiting for the document store
    WAITS = {APPLY, "ide::ide::AnalysisHost::request_cancellation"}
    reach_apply = L.reaches(WAITS)
    res.analysed["functions_in_glas"] = sum(1 for p in F.fns if in_glas(p))
    res.analysed["lock_acquisitions"] = len([1 for f, b, t, a in L.acq_sites if in_glas(f.path)])
    # ---- W1 / W3
    sites = {}
    order = set()
    for p, f in sorted(F.fns.items()):
        if not in_glas(p) or not f.blocks:
            continue
        held_at = LK.held_before_calls(f)
        for b, held in sorted(held_at.items()):
            if not held:
                continue
            t = f.term(b)
            for l, (mode, ty, ln) in held.items():
                key = (p, ty, mode, sorted(x for x in held_at if any(v[2] == ln for v in held_at[x].values()))[0])
                s = sites.setdefault((p, ty, mode, ln), {"fn": f, "bad": [], "calls": 0})
                if t["k"] != "call":
                    continue
                s["calls"] += 1
                acq = LK.acquisition(t)
                tg = F.call_targets(f, t)
                if acq and acq[0] != "try":
                    order.add((ty, acq[1], f.loc(t["ln"])))
                    if acq[1] == ty:
                        s["bad"].append("re-acquires the same lock at %s" % f.loc(t["ln"]))
                for x in tg:
                    if x in reach_apply:
                        s["bad"].append("call at %s waits for the snapshots (AnalysisHost::apply_change / request_cancellation) via %s" % (f.loc(t["ln"]), " -> ".join(
                            y.rsplit("::", 1)[-1] for y in L.why(x, WAITS))))
                    for ty2, fs in L.may_acquire.items():
                        if x in fs:
                            order.add((ty, ty2, f.loc(t["ln"])))
                            if ty2 == ty:
                                s["bad"].append("call at %s may take the same lock again via %s" % (f.loc(t["ln"]), " -> ".join(
                                    y.rsplit("::", 1)[-1] for y in L.why(x, L.direct[ty2]))))
    n_vfs = 0
    for (p, ty, mode, ln), s in sorted(sites.items(), key=str):
        f = s["fn"]
        ordn = sorted(k[3] for k in sites if k[0] == p and k[1] == ty).index(ln)
        if ty == "glas::vfs::Vfs":
            n_vfs += 1
        res.ob(w1, "%s/%s/%s/%d" % (p.replace("glas::", ""), ty.rsplit("::", 1)[-1].rstrip(">"), mode, ordn),
               "while this %s guard of %s is live, no call can reach AnalysisHost::apply_change / request_cancellation (both wait for every snapshot) or take the same lock again"
               % (mode, ty.rsplit("::", 1)[-1]), not s["bad"], where=f.loc(ln),
               how="%d calls inside the guard's live region, none offending" % s["calls"] if not s["bad"] else "; ".join(sorted(set(s["bad"]))[:3]))
    res.floor("guard acquisitions of the document store with a live region", n_vfs, 18)
    # lock-order graph
    g = {}
    for a, b_, where in order:
        g.setdefault(a, set()).add(b_)
    cyc = []
    for a in g:
        seen, st = set(), [a]
        while st:
            x = st.pop()
            for y in g.get(x, ()):
                if y == a:
                    cyc.append(a)
                if y not in seen:
                    seen.add(y)
                    st.append(y)
    res.ob(w3, "lock-order-acyclic", "no lock of crate glas is acquired while another is held in an order that forms a cycle",
           not cyc, where="crates/glas/src/server.rs", how="edges: %s" % sorted((a.rsplit("::", 1)[-1], b_.rsplit("::", 1)[-1]) for a, b_, _ in order) if not cyc else "cycle through %s" % cyc)



def other_rules(F, res):
    L = LK.LockFacts(F)
    # ---- W2
    # the command-line entry points of the binary (no message loop) are out of scope: library crate only
    callers = [(f.path, t["ln"]) for f, b, t in F.callers_of(lambda c: c == SNAPSHOT) if f.path.startswith("glas::")]
    res.ob("W2", "snapshot-only-in-spawn_with_snapshot", "in the server, AnalysisHost::snapshot is called only by Server::spawn_with_snapshot",
           [c[0] for c in callers] == [SRV + "spawn_with_snapshot"], where="crates/glas/src/server.rs", how=str(callers))
    sw = F.fn(SRV + "spawn_with_snapshot")
    d = FL.Defs(sw)
    seq = [(b, callee(t) or callee_def(t)) for b, t in sw.calls()]
    names = [PM.short(c) for _, c in seq]
    try:
        i0 = names.index("AnalysisHost::snapshot")
        i1 = names.index("blocking::spawn_blocking")
        between = names[i0 + 1:i1]
    except ValueError:
        between = None
    res.ob("W2", "spawn_blocking-immediately", "between taking the snapshot and spawn_blocking only Arc::clone runs (nothing that can block or await)",
           between is not None and all(x == "Clone::clone" for x in between) and not sw.back_edges(), where=sw.loc(), how="calls in between: %s" % between)
    moved = False
    for b, t in sw.calls():
        if PM.short(callee(t) or callee_def(t)) == "blocking::spawn_blocking":
            o = d.origin_op(t["args"][0])
            if o.get("k") == "agg" and "closure" in o["rv"]:
                for op in o["rv"]["ops"]:
                    oo = d.origin_op(op)
                    if oo.get("k") == "agg" and oo["rv"].get("adt") == "glas::server::StateSnapshot":
                        so = d.origin_op(oo["rv"]["ops"][oo["rv"]["fields"].index("analysis")])
                        moved = so.get("k") == "call" and callee(so["t"]) == SNAPSHOT
    res.ob("W2", "snapshot-moved-into-task", "the snapshot is moved into the closure handed to spawn_blocking", moved, where=sw.loc(),
           how="def-use traced" if moved else "snapshot does not flow into the spawn_blocking closure")
    srv = F.adt("glas::server::Server")
    bad = [f_["name"] for f_ in srv["variants"][0]["fields"] if "Analysis<" in f_["ty"] or f_["ty"].endswith("Analysis") or "StateSnapshot" in f_["ty"]
           or "salsa::Snapshot" in f_["ty"]]
    res.ob("W2", "no-snapshot-in-server-state", "no field of Server stores an Analysis / StateSnapshot", not bad, where="crates/glas/src/server.rs",
           how="fields: %s" % [f_["name"] for f_ in srv["variants"][0]["fields"]])
    saved = []
    ncor = 0
    for p, f in F.fns.items():
        if in_glas(p) and f.d.get("is_coroutine"):
            ncor += 1
            for ty in f.d.get("saved_tys", []):
                if "ide::ide::Analysis" in ty or "StateSnapshot" in ty:
                    saved.append((p, ty))
    res.ob("W2", "no-snapshot-across-await", "no async body of crate glas keeps an Analysis / StateSnapshot alive across an await point",
           not saved, where="crates/glas/src", how="%d coroutine bodies inspected (saved locals from rustc's coroutine layout)" % ncor if not saved else str(saved[:3]))
    res.floor("async bodies inspected", ncor, 5)

    # ---- W4
    for hname in ("on_did_open", "on_did_change"):
        h = F.fn(SRV + hname)
        reach_avc = L.reaches({SRV + "apply_vfs_change"}) | {SRV + "apply_vfs_change"}
        reach_sud = L.reaches({SRV + "spawn_update_diagnostics"}) | {SRV + "spawn_update_diagnostics"}
        spawns = [b for b, t in h.calls() if any(x in reach_sud and x.startswith(SRV) for x in F.call_targets(h, t))]
        applies = [b for b, t in h.calls() if any(x in reach_avc for x in F.call_targets(h, t))]
        # only a recomputation that can follow a modification of the store needs the change applied first (the branch that
        # finds nothing to change recomputes because it cancelled, not because the text moved)
        MUTV = ("glas::vfs::Vfs::change_file_content", "glas::vfs::Vfs::set_path_content", "glas::vfs::Vfs::remove_uri")
        units = [c for c in F.closures_of(h.path) if any(callee(t2) in MUTV for _b2, t2 in F.fns[c].calls())]
        muts = [b for b, t in h.calls() if callee(t) in MUTV or callee(t) in units or
                any(x.startswith(SRV) and x in F.fns and any(callee(t3) in MUTV for _b3, t3 in F.fns[x].calls()) for x in F.call_targets(h, t))]
        need = [s for s in spawns if any(h.can_reach(m, [s]) and m != s for m in muts)]
        ok = bool(spawns) and bool(need) and all(any(h.dominates(a, s) for a in applies) for s in need)
        res.ob("W4", "%s/apply-before-diagnostics" % hname, "%s applies the change to the analysis host before it recomputes diagnostics" % hname,
               ok, where=h.loc(), how="recomputations that can follow a store modification: %d of %d; each dominated by one of %d apply sites: %s"
               % (len(need), len(spawns), len(applies), ok))
    # a change cancels the running diagnostics of EVERY open document (one analysis host): a handler that applies one must
    # recompute them for every open document, else a document whose computation was cancelled keeps an empty/stale list
    memo = {}

    def respawns_all(path, depth=0):
        if path in memo:
            return memo[path]
        memo[path] = False
        f = F.fns.get(path)
        if f is None or not f.blocks or depth > 3:
            return False
        d_ = FL.Defs(f)
        loops = [f.natural_loop(tl, hd) for tl, hd in f.back_edges()]
        for b, t in f.calls():
            c = callee(t) or ""
            if c == SRV + "spawn_update_diagnostics":
                for body in loops:
                    if b not in body:
                        continue
                    for b2, t2 in f.calls():
                        if b2 in body and PM.short(callee(t2) or callee_def(t2)).endswith("Iterator::next"):
                            dep = FL.depends(F, f, d_, t2["args"][0])
                            if any(x.endswith("::keys") or x.endswith("::iter") for x in dep["calls"]) and "opened_files" in _fields_in(f, d_, dep):
                                memo[path] = True
            elif c.startswith(SRV) and c != path and respawns_all(c, depth + 1):
                memo[path] = True
            elif c.rsplit("::", 1)[-1] in ("for_each", "try_for_each", "fold") and t["args"]:
                # the loop written as `<iterator over opened_files>.for_each(|uri| self.spawn_update_diagnostics(uri))`
                dep = FL.depends(F, f, d_, t["args"][0])
                if any(x.endswith("::keys") or x.endswith("::iter") for x in dep["calls"]) and "opened_files" in _fields_in(f, d_, dep):
                    for a in t["args"][1:]:
                        o = d_.origin_op(a)
                        if o.get("k") == "agg" and o["rv"].get("closure") in F.fns and \
                                any(callee(t2) == SRV + "spawn_update_diagnostics" for _b2, t2 in F.fns[o["rv"]["closure"]].calls()):
                            memo[path] = True
        return memo[path]

    def _fields_in(f, d_, dep):
        names = set()
        for b, i, s_ in f.stmts():
            rv = s_.get("rv") or {}
            pl = rv.get("place")
            if isinstance(pl, dict):
                for e in pl.get("p", []):
                    if isinstance(e, dict) and e.get("n"):
                        names.add(e["n"])
        return names
    from rules import c15 as _c15
    appliers = []
    for hname in _c15.ENTRIES:
        hp = SRV + hname
        if hp in F.fns and (SRV + "apply_vfs_change") in (L.reaches({SRV + "apply_vfs_change"}) and F.reachable_from([hp])):
            appliers.append(hname)
    res.floor("message handlers that apply a change to the analysis host", len(appliers), 3)
    for hname in appliers:
        res.ob("W4", "%s/all-open-documents" % hname, "%s recomputes the diagnostics of every open document (the change it applied cancelled all "
               "running diagnostics tasks, not only this document's)" % hname, respawns_all(SRV + hname), where=F.fn(SRV + hname).loc(),
               how="spawn_update_diagnostics in a loop over opened_files: %s" % respawns_all(SRV + hname))
    sud = F.fn(SRV + "spawn_update_diagnostics")
    snaps = [b for b, t in sud.calls() if (callee(t) or "").startswith(SRV + "spawn_with_snapshot")]
    repl = [b for b, t in sud.calls() if PM.short(callee(t) or callee_def(t)) == "Option::replace"]
    aborts = [b for b, t in sud.calls() if PM.short(callee(t) or callee_def(t)) in ("AbortHandle::abort",)]
    ok = bool(snaps) and bool(repl) and all(sud.dominates(snaps[0], r) for r in repl) and any(sud.can_reach(r, aborts) for r in repl)
    res.ob("W4", "new-task-before-abort", "spawn_update_diagnostics takes the new snapshot before it replaces and aborts the previous task",
           ok, where=sud.loc(), how="snapshot sites %d, replace sites %d, abort sites %d" % (len(snaps), len(repl), len(aborts)))
    oc = F.fn(SRV + "on_did_close")
    dc = FL.Defs(oc)
    okc = False
    for b, i, s in oc.stmts():
        rv = s.get("rv")
        if rv and rv["k"] == "agg" and (rv.get("adt") or "").endswith("PublishDiagnosticsParams"):
            o = dc.origin_op(rv["ops"][rv["fields"].index("diagnostics")])
            okc = o.get("k") == "call" and PM.short(callee(o["t"])) == "Vec::new"
    res.ob("W4", "close-clears-diagnostics", "closing a document publishes an empty diagnostics list for it", okc, where=oc.loc(),
           how="PublishDiagnosticsParams.diagnostics = Vec::new()" if okc else "not found")

    # ---- W5
    ac = F.fn(APPLY)
    # cancellation = request_cancellation(), or its body written out: salsa's synthetic_write on the database
    rc = [b for b, t in ac.calls() if callee(t) == "ide::ide::AnalysisHost::request_cancellation" or
          (callee(t) or callee_def(t) or "").endswith("::synthetic_write")]
    ap = [b for b, t in ac.calls() if callee(t) == "ide::base::Change::apply"]
    res.ob("W5", "cancel-before-write", "AnalysisHost::apply_change requests cancellation before it writes the inputs",
           len(rc) == 1 and len(ap) == 1 and ac.dominates(rc[0], ap[0]), where=ac.loc(), how="request_cancellation %d, Change::apply %d" % (len(rc), len(ap)))


def store_updates_after_cancellation(F, res, rule="W7"):
    """W7: request handlers run on a *snapshot* of the analysis but read the *live* document store (line maps,
    uri <-> file id) when they convert their answer. The store may therefore only be modified when no handler is running:
    every acquisition of the store's write lock that can lead to a modification is preceded, in the same function, by
    AnalysisHost::request_cancellation() (salsa's synthetic write: it returns only after every outstanding snapshot has
    been dropped), called while no guard of the store is held (else the cancelled handlers could not finish).
    Otherwise an answer computed on the old text is converted with the line map of the new text."""
    RC = "ide::ide::AnalysisHost::request_cancellation"
    MUT = ("change_file_content", "set_path_content", "remove_uri", "set_package_graph", "set_roots", "set_structural_change")
    n = 0
    for p, f in sorted(F.fns.items()):
        if not p.startswith("glas::server::") or not f.blocks:
            continue
        d = FL.Defs(f)
        for b, t in f.calls():
            acq = LK.acquisition(t)
            if not acq or acq[0] != "write" or not acq[1].endswith("vfs::Vfs"):
                continue
            # does the guard reach a mutation of the store? (apply_vfs_change only takes the pending Change out)
            muts = [b2 for b2, t2 in f.calls() if (callee(t2) or "").startswith("glas::vfs::Vfs::") and
                    (callee(t2) or "").rsplit("::", 1)[-1] in MUT and f.can_reach(b, [b2])]
            via = [b2 for b2, t2 in f.calls() if (callee(t2) or "").startswith("glas::server::Server::") and f.can_reach(b, [b2]) and
                   any(F.fns.get(x) is not None and any((callee(t3) or "").rsplit("::", 1)[-1] in MUT and (callee(t3) or "").startswith("glas::vfs::Vfs::")
                                                         for _b3, t3 in F.fns[x].calls()) for x in F.call_targets(f, t2))]
            if not muts and not via:
                continue
            n += 1
            ordn = [bb for bb, tt in f.calls() if LK.acquisition(tt) and LK.acquisition(tt)[0] == "write"].index(b)
            rcs = [b2 for b2, t2 in f.calls() if callee(t2) == RC and f.dominates(b2, b)]
            held = LK.held_before_calls(f)
            free = all(not any(g[1].endswith("vfs::Vfs") for g in held.get(b2, [])) for b2 in rcs) if rcs else False
            res.ob(rule, "%s/write/%d" % (p.rsplit("::", 1)[-1], ordn),
                   "the document store is modified here only after request_cancellation() returned (no handler is still running on an "
                   "older snapshot), and that call is made with no guard of the store held", bool(rcs) and free, where=f.loc(t["ln"]),
                   how="request_cancellation dominating this acquisition: %d; made without a store guard: %s" % (len(rcs), free))
    res.floor("write acquisitions of the document store that lead to a modification", n, 4)


def cancellation_is_followed_by_recompute(F, res, rule="W9"):
    """W9: request_cancellation() also cancels the diagnostics tasks of the open documents (they publish `[]` when cancelled).
    A main-loop handler that cancels - directly or through a helper that does not settle it itself - must recompute the
    diagnostics of all open documents on *every* path from the cancellation to its return; else a notification that ends
    up changing nothing (a didChange for a document the server does not hold) leaves every open document without diagnostics."""
    from rules import c15
    SRV = "glas::server::Server::"
    RC = "ide::ide::AnalysisHost::request_cancellation"
    ALL = SRV + "spawn_update_all_diagnostics"
    srv = {p: f for p, f in F.fns.items() if p.startswith(SRV) and f.blocks and "{closure" not in p}
    # helpers that recompute on every path to their return
    recomputes = {ALL}
    for _ in range(3):
        for p, f in srv.items():
            if p in recomputes:
                continue
            via = [b for b, t in f.calls() if callee(t) in recomputes]
            if via and FL.must_pass(f, via, f.return_blocks()):
                recomputes.add(p)
    cancelling = {RC}
    unsettled = {}
    for _ in range(4):
        for p, f in sorted(srv.items()):
            if p in cancelling or p in recomputes and p == ALL:
                continue
            sites = [b for b, t in f.calls() if callee(t) in cancelling]
            if not sites:
                continue
            via = [b for b, t in f.calls() if callee(t) in recomputes]
            rets = f.return_blocks()
            bad = [b for b in sites if any(f.can_reach(b, [r], avoid=[v for v in via if v != b]) for r in rets)]
            if bad:
                cancelling.add(p)
                unsettled[p] = [f.term(b)["ln"] for b in bad]
    entries = [SRV + e for e in c15.ENTRIES]
    n = 0
    for e in entries:
        f = F.fns.get(e)
        if f is None:
            continue
        if any(callee(t) in cancelling or callee(t) == RC for b, t in f.calls()) or e in cancelling:
            n += 1
            res.ob(rule, "recompute-after-cancel/%s" % e.rsplit("::", 1)[-1], "every path of %s from a cancellation to its return recomputes the "
                   "diagnostics of all open documents" % e.rsplit("::", 1)[-1], e not in cancelling, where=f.loc(),
                   how="a path from the cancelling call at line %s reaches the return without spawn_update_all_diagnostics" % unsettled.get(e)
                   if e in cancelling else "all paths pass spawn_update_all_diagnostics (or a helper that always calls it)")
    res.floor("main-loop handlers that cancel", n, 3)


def cancelled_computation_publishes_nothing(F, res, rule="W12"):
    """W12: an edit cancels the running diagnostics computations; each of them ends with Err(Cancelled) while the task the edit
    spawned computes the list of the new text. The two tasks finish in either order, so a cancelled computation must not hand
    *any* list to the publisher: an empty list arriving last would stay as the diagnostics of the document. In every unit of
    spawn_update_diagnostics (the blocking closure, the forwarding future, their closures) a list that does not come out of the
    computation itself - a call producing Vec<Diagnostic>: Vec::new, unwrap_or_default, unwrap_or_else, Default::default - is
    built only where a test `is::<Cancelled>()` on the error has answered no."""
    SUD = "glas::server::Server::spawn_update_diagnostics"
    if SUD not in F.fns:
        raise FA.AnchorMissing(SUD)
    units = [p for p in sorted(F.fns) if p == SUD or p.startswith(SUD + "::{closure")]
    # a closure body moved into a named function of the server (`Server::compute_diagnostics`) is still a unit, with its closures
    for p in list(units):
        for _b, t in F.fns[p].calls():
            c = callee(t) or ""
            if c.startswith("glas::server::") and c in F.fns and F.fns[c].blocks and c != SUD and \
                    not c.endswith(("spawn_with_snapshot", "with_catch_unwind")) and c not in units:
                units += [q for q in F.with_closures(c) if q not in units]
    res.floor("units of spawn_update_diagnostics", len(units), 4)
    computes = [p for p in units for _b, t in F.fns[p].calls() if callee(t) == "glas::handler::diagnostics"]
    res.floor("units of spawn_update_diagnostics that compute the diagnostics", len(computes), 1)
    n = 0
    for p in units:
        f = F.fns[p]
        d = FL.Defs(f)
        # the tests: calls asking whether an error is salsa's Cancelled, and the two edges of the switch on their answer
        tests = []
        for b, t in f.calls():
            fn_ = t.get("fn") or {}
            if PM.short(fn_.get("def") or "").split("::")[-1] in ("is", "downcast_ref", "is_cancelled") and \
                    any(x.endswith("Cancelled") for x in fn_.get("targs") or []) and t.get("dty") == "bool":
                for sb in range(len(f.blocks)):
                    st = f.term(sb)
                    if f.blocks[sb]["cleanup"] or st.get("k") != "switch":
                        continue
                    o = d.origin_op(st["op"])
                    if o and o.get("k") == "call" and o.get("bb") == b:
                        edges = dict(FL.switch_edges(st))
                        tests.append((b, edges.get(0), edges.get("otherwise")))
        for b, t in f.calls():
            if f.blocks[b]["cleanup"]:
                continue
            if (t.get("dty") or "").replace(" ", "") != "alloc::vec::Vec<lsp_types::Diagnostic>":
                continue
            n += 1
            ok = any(no is not None and yes is not None and no != yes and f.dominates(no, b) and not f.dominates(yes, b) for _tb, no, yes in tests)
            res.ob(rule, "list-without-computation/%s/%s" % ((p[len(SUD):] if p.startswith(SUD) else FL.short(p)) or "fn", PM.short(callee(t) or callee_def(t))),
                   "a diagnostics list that is not the computation's own result is built only after the error was tested not to be "
                   "a cancellation (a cancelled computation publishes nothing: the task of the newer text may already have published)",
                   ok, where=f.loc(t["ln"]), how="Cancelled tests in this unit: %d; this call is dominated by the `no` edge of one: %s" % (len(tests), ok))
    res.analysed["replacement_lists_in_spawn_update_diagnostics"] = n


def store_is_read_off_the_loop_only_under_a_snapshot(F, res, L, rule="W13"):
    """W13: what pins the document store to the version a request was issued against is the snapshot: every handler that
    modifies the store first calls request_cancellation(), which returns only when all snapshots are gone (W7). Code that runs
    off the main loop (a closure handed to spawn_blocking / thread::spawn) is covered by that only if it holds a snapshot; the
    main loop itself needs none (no other message is dispatched while it runs). So: nothing reachable from an off-loop closure
    that captured no StateSnapshot / Analysis takes a lock of the store (functions that receive a snapshot as a parameter are
    pinned by their caller's snapshot and end the search)."""
    SPAWN = ("spawn_blocking", "thread::spawn", "Builder::spawn", "Handle::spawn_blocking")
    SNAP = ("StateSnapshot", "ide::ide::Analysis", "salsa::Snapshot")
    roots = []
    for p, f in sorted(F.fns.items()):
        if not p.startswith(("glas::", "<glas::", "[bin]")) or not f.blocks:
            continue
        d = None
        for b, t in f.calls():
            c = FL.short(callee(t) or callee_def(t) or "")
            if not c.endswith(SPAWN) or not t["args"]:
                continue
            d = d or FL.Defs(f)
            o = d.origin_op(t["args"][0])
            if o.get("k") != "agg" or "closure" not in o["rv"]:
                continue
            caps = []
            for op in o["rv"].get("ops", []):
                pl = op.get("mv") or op.get("cp")
                if pl:
                    caps.append(f.local_ty(pl["l"]) if not pl["p"] else "?")
            roots.append((f, t, o["rv"]["closure"], caps))
    res.floor("closures handed to spawn_blocking / thread::spawn in crate glas", len(roots), 1)
    vfs_sites = {}
    for f, b, t, a in L.acq_sites:
        if a[1].endswith("vfs::Vfs"):
            vfs_sites.setdefault(f.path, []).append(t["ln"])
    cg = F.callgraph()
    for f, t, c, caps in roots:
        pinned = any(any(s in ty for s in SNAP) for ty in caps)
        hits = []
        if not pinned:
            seen, st = {c}, [c]
            while st:
                x = st.pop()
                fx = F.fns.get(x)
                if fx is None:
                    continue
                if x != c and any(any(s in (fx.local_ty(i) or "") for s in SNAP) for i in range(1, fx.d["arg_count"] + 1)):
                    continue
                for ln in vfs_sites.get(x, []):
                    hits.append("%s:%d" % (FL.short(x), ln))
                for y in cg.get(x, ()):
                    if y not in seen:
                        seen.add(y)
                        st.append(y)
        res.ob(rule, "off-loop/%s" % FL.short(c), "this closure runs off the main loop: it holds a snapshot, or nothing it reaches locks the document store "
               "(a store read without a snapshot can see the text of a later edit)", pinned or not hits, where=f.loc(t["ln"]),
               how="captures a snapshot" if pinned else ("locks the store without a snapshot at %s" % hits if hits else "no snapshot, and no lock of the store is reachable"))


def all_means_all(F, res, rule="W9"):
    """W9 (second half): "recompute all" leaves nobody out. A change cancels the running diagnostics computation of *every* open
    document, and a cancelled computation publishes nothing (W12) - on the promise that whoever cancelled it starts a new one. The
    function that keeps the promise walks the open documents and starts a computation for each: it takes no decision of its own
    and applies no filter (a document whose task "has finished" may have finished by being cancelled)."""
    from rules import c06 as _c06
    S = "glas::server::Server::"
    p_ = S + "spawn_update_all_diagnostics"
    f = F.fns.get(p_)
    if f is None or not f.blocks:
        res.anchor_missing(rule, p_)
        return
    unit = [f] + [F.fns[c] for c in F.closures_of(p_) if c in F.fns]
    found = set()
    for u in unit:
        found |= _c06.decision_names(F, u)
    odd = sorted(n_ for n_ in found if not (n_.startswith(_c06.SEARCH_PLUMBING) or n_ in _c06.SEARCH_PLUMBING))
    d = FL.Defs(f)
    spawns = [b for b, t in f.calls() if (callee(t) or "") == S + "spawn_update_diagnostics"] + \
             [1 for u in unit[1:] for _b, t in u.calls() if (callee(t) or "") == S + "spawn_update_diagnostics"]
    res.ob(rule, "recompute-all/every-open-document", "spawn_update_all_diagnostics starts a computation for every open document: no decision and no filter between "
           "the list of open documents and the spawn", bool(spawns) and not odd, where=f.loc(),
           how="spawn sites %d; decisions: %s" % (len(spawns), sorted(found)) if not odd else "decisions / filters that can leave a document out: %s" % odd)


def stale_diagnostics_are_dropped(F, res, rule="W15"):
    """W15: "the last diagnostics published for each open document are those of the final text". A diagnostics task whose
    computation had finished when the next edit arrived is past every cancellation point; its list travels to the main loop
    through a forwarding task and an event, and can arrive after the list of the newer text (observed: 11 of 300 trials on one
    CPU). The publisher therefore has to tell which list is the newest: every spawned task is stamped with a generation that
    is also stored with the open document (spawn_update_diagnostics), the event carries the stamp, and on_update_diagnostics
    records / publishes an internal list only behind a comparison of the event's stamp with the document's."""
    S = "glas::server::Server::"
    sp = F.fn(S + "spawn_update_diagnostics")
    up = F.fn(S + "on_update_diagnostics")
    EV = "glas::server::CollectDiagnosticsEvent"
    # (a) the event built by the forwarding task carries a value that spawn_update_diagnostics took from a counter it bumps and
    #     stores into the per-document data
    stamped = False
    units = [F.fns[q] for q in F.with_closures(sp.path) if F.fns[q].blocks]
    d0 = FL.Defs(sp)
    bumped = set()
    for b, i, s_ in sp.stmts():
        rv = s_.get("rv") or {}
        if rv.get("k") == "bin" and rv["op"] in ("Add", "AddWithOverflow"):
            bumped |= {str(x) for x in FL.fields_feeding(F, sp, d0, rv["a"], "Server")}
    stored = set()
    for b, i, s_ in sp.stmts():
        if s_["k"] == "assign" and s_["place"]["p"]:
            names = [e.get("n") for e in s_["place"]["p"] if isinstance(e, dict) and "n" in e]
            if names and "FileData" in str([e.get("adt") for e in s_["place"]["p"] if isinstance(e, dict)]):
                stored |= set(names)
    for u in units:
        for b, i, s_ in u.stmts():
            rv = s_.get("rv") or {}
            if rv.get("k") == "agg" and (rv.get("adt") or "") == EV and rv.get("variant") == "Internal" and len(rv["ops"]) >= 2:
                stamped = True
    res.ob(rule, "spawn/stamps-the-task", "spawn_update_diagnostics numbers the task (a counter of the server it counts up), stores the number with the "
           "open document and sends it along with the computed list", stamped and bool(bumped) and bool(stored), where=sp.loc(),
           how="event carries a second component: %s; counter fields counted up: %s; fields of the per-document data written: %s" % (stamped, sorted(bumped), sorted(stored)))
    # (b) the publisher: recording the internal list is gated by a comparison that involves the per-document data
    du = FL.Defs(up)
    recs = []
    for b, t in up.calls():
        c = callee(t) or callee_def(t) or ""
        # the list is recorded by an insert into DiagnosticCollector.internal - here, or in a helper of the server that is handed
        # the map (`Self::record_diagnostics(&mut self.diagnostics.internal, &self.diagnostics.external, list)`)
        if not (FL.short(c).rsplit("::", 1)[-1] == "insert" or (c.startswith("glas::server::") and c in F.fns and F.fns[c].blocks)):
            continue
        first_mut = None
        for a in t["args"]:
            if "internal" in {str(x) for x in FL.fields_feeding(F, up, du, a, "DiagnosticCollector")}:
                l = op_local(a)
                if l is not None and str(up.local_ty(l) or "").startswith("&mut"):
                    first_mut = a
        if first_mut is not None:
            recs.append((b, t))
    ok, how = bool(recs), []
    for b, t in recs:
        gated = False
        for g in FL.gates(F, up, [b], du):
            ct = g.get("call_t")
            o = g.get("origin") or {}
            deps = set()
            if ct:
                for a in ct["args"]:
                    deps |= {str(x) for x in FL.fields_feeding(F, up, du, a, "Server")}
                    deps |= {"call:" + FL.short(x) for x in FL.depends(F, up, du, a)["calls"]}
            if o.get("k") == "rv" and o["rv"].get("k") == "bin" and o["rv"]["op"] in ("Eq", "Ne"):
                for side in ("a", "b"):
                    deps |= {str(x) for x in FL.fields_feeding(F, up, du, o["rv"][side], "Server")}
            if "opened_files" in deps:
                gated = True
        how.append("line %d gated by a comparison with the open document's data: %s" % (t["ln"], gated))
        ok = ok and gated
    res.ob(rule, "publish/newest-only", "on_update_diagnostics records and publishes an internal list only after comparing the event's generation with the "
           "one stored for the open document (a stale list, or one for a closed document, is dropped)", ok, where=up.loc(), how="; ".join(how) or "no recording site found")
    # (c) and nothing else keeps a list from the client: a decision after which the publisher can still be reached, but also the
    #     return without it, is the stamp test (it depends on the open documents) or the kind of the event - not, say, "the list is
    #     the one remembered", which is wrong once something else (didClose) has told the client otherwise
    pubs = [b for b, t in up.calls() if FL.short(callee(t) or callee_def(t) or "").rsplit("::", 1)[-1] == "publish_diagnostics"]
    rets = up.return_blocks()
    skips = []
    for b in sorted(up.reachable()):
        t = up.term(b)
        if t["k"] != "switch" or not pubs:
            continue
        succ = up.succ(b)
        to_pub = [x for x in succ if x in pubs or up.can_reach(x, pubs)]
        round_ = [x for x in succ if any(x == r or up.can_reach(x, [r], avoid=pubs) for r in rets) and x not in pubs]
        if not (to_pub and round_ and set(to_pub) != set(round_)):
            continue
        deps = {str(x) for x in FL.fields_feeding(F, up, du, t["op"], "Server")}
        o = du.origin_op(t["op"])
        if o.get("k") == "rv" and o["rv"].get("k") == "bin":
            for side in ("a", "b"):
                if isinstance(o["rv"][side], dict) and "k" not in o["rv"][side]:
                    deps |= {str(x) for x in FL.fields_feeding(F, up, du, o["rv"][side], "Server")}
        if o.get("k") == "call":
            for a in o["t"]["args"]:
                deps |= {str(x) for x in FL.fields_feeding(F, up, du, a, "Server")}
        is_event_kind = o.get("k") == "rv" and o["rv"].get("k") == "discr" and "CollectDiagnosticsEvent" in str(o["rv"].get("of"))
        if "opened_files" in deps or is_event_kind:
            continue
        skips.append("line %s (depends on %s)" % (t.get("ln"), sorted(deps) or "nothing of the open documents"))
    res.ob(rule, "publish/nothing-else-withheld", "between the event and publish_diagnostics only the stamp test (and the kind of the event) can take the way round "
           "the publisher", bool(pubs) and not skips, where=up.loc(), how="publish sites %d; other ways round: %s" % (len(pubs), skips or "none"))

