import json
"""C11 — Answers after any edit history equal a fresh analysis of the result (structural clauses)."""
import re

from lib import flow as FL
from lib import hashiter as HI
from lib import report as R
from lib.facts import callee, callee_def, op_place

META = {
    "level": "other",
    "technique": "static analysis: who-may-call (salsa input setters, interning), ADT/static inventory (no state outside the database), call-graph purity of query code, order-sensitivity signatures of hash-map iterations",
    "rule": "H1 salsa input setters are called only from Change::apply / RootDatabase::default / request_cancellation; H2 no "
            "static/thread-local/interior-mutable state in crates ide and syntax, RootDatabase/AnalysisHost/Analysis hold only the "
            "database; H3 nothing reachable from a query or an Analysis method touches fs/env/time/process/thread/rand; H4 every "
            "iteration over a RandomState-hashed collection in query-reachable code feeds only order-insensitive consumers, is "
            "sorted afterwards, or matches a reviewed entry whose consumer signature is unchanged; raw intern ids are used only in "
            "dependency_order_query; H5 definitions are interned only in module_scope_with_map_query. One obligation per site. H6 no equality reachable from a salsa query value compares an insertion-ordered container (IndexMap/IndexSet) with its order-insensitive ==: salsa back-dates on equality, so dependents would keep the old order. H7 a hand-written PartialEq of a type inside a query value reads every field, none only through keys()/len()/.. . H8 = C10 Q10: no cycle of the query graph can happen (a fresh host recovers, a host that reaches the same workspace by an edit panics while validating the memo).",
    "explanation": "Decides that every answer is a function of the salsa inputs alone and that no hidden iteration order leaks "
                   "into answers: the necessary structural conditions for history-independence and determinism. Equality of answers "
                   "across histories itself needs executions and is not decided; salsa's incremental correctness is trusted. H7 also: a hand-written equality does not compare two sequences through a truncating zip without comparing their lengths.",
    "not_decided": "equality of answers across edit histories (behavioural); salsa's own invalidation.",
    "trusted_base": ["salsa 0.17", "rustc MIR + callee resolution", "the reviewed reasons in rules/reviewed.json"],
    "assumptions": ["IntMap (nohash) and IndexMap iterate deterministically for equal contents built in equal order"],
}

SETTER = re.compile(r"::set_\w+(_with_durability)?$")
ALLOWED_SETTERS = {"ide::base::Change::apply", "<ide::ide::RootDatabase as core::default::Default>::default",
                   "ide::ide::AnalysisHost::request_cancellation"}
IMPURE = ("std::fs::", "std::env::", "std::time::", "std::process::", "std::thread::", "rand::", "std::net::",
          "std::io::stdio", "getrandom::", "tokio::")


def in_query_crates(p):
    return p.startswith(("ide::", "<ide::", "syntax::", "<syntax::"))


def query_roots(F):
    roots = [p for p in F.fns if p.endswith("salsa::plumbing::QueryFunction>::execute") and in_query_crates(p)]
    roots += [p for p, f in F.fns.items() if f.d.get("impl_self") == "ide::ide::Analysis" and f.kind == "AssocFn"]
    return roots


def sorted_afterwards(f, local):
    """is a Vec held in `local` sorted by a later call (sort*, sort_by*, sort_unstable*)?"""
    d = FL.Defs(f)
    for b, t in f.calls():
        c = callee(t) or callee_def(t) or ""
        if re.search(r"::(sort|sort_by|sort_by_key|sort_unstable|sort_unstable_by|sort_unstable_by_key|sort_by_cached_key)$", c):
            o = d.origin_op(t["args"][0], ("DerefMut>::deref_mut", "Deref>::deref"))
            if o.get("l") == local:
                return True
            # &mut *vec through deref_mut: origin stops at the deref call's argument
            base = o
            while base.get("k") == "field":
                base = base["base"]
            if base.get("l") == local:
                return True
    return False


def run(F, res, tier):
    every_part_of_a_change_is_applied(F, res)
    from rules import c13 as _c13h
    _c13h.last_text_wins(F, res, rule="H11")   # the database ends on the last text recorded for a file, as a fresh analysis would
    source_root_ids_are_stable(F, res)
    reviewed = R.load_reviewed().get("C11", {})
    # ---- H1
    sites = []
    for f, b, t in F.callers_of(lambda c: bool(SETTER.search(c)) and ("Database" in c) or c.endswith("synthetic_write")
                                 or c.endswith("set_lru_capacity")):
        if "GroupStorage" in f.path or f.path.startswith("salsa::") or not (in_query_crates(f.path) or f.path.startswith(("glas::", "[bin]"))):
            continue
        # generated shims: the blanket `impl<DB> Trait for DB` methods call the plumbing themselves
        if f.d.get("impl_trait") and f.d["impl_trait"].startswith(("ide::base::SourceDatabase", "ide::def::", "ide::ty::")):
            continue
        sites.append((f, t))
    allowed = set(ALLOWED_SETTERS)
    # the cancellation (a synthetic write) may be written out in apply_change instead of going through request_cancellation
    sites = [(f, t) for f, t in sites if not (f.path == "ide::ide::AnalysisHost::apply_change" and (callee(t) or callee_def(t) or "").endswith("synthetic_write"))]
    # private helpers that only the allowed functions call are part of them (`Change::apply_roots` -> `Change::apply_root`)
    for _ in range(4):
        for w in sorted(p_ for p_ in F.fns if p_.startswith("ide::base::Change::") and "{closure" not in p_ and p_ not in allowed):
            callers = {re.sub(r"(::\{closure#\d+\})+$", "", g.path) for g, b2, t2 in F.callers_of(lambda c, w=w: c == w)}
            if callers and callers <= allowed:
                allowed.add(w)
    bad = [(f.path, t["ln"], callee_def(t)) for f, t in sites if f.path not in allowed]
    res.ob("H1", "input-setters", "salsa input setters / synthetic_write are called only from Change::apply, RootDatabase::default and request_cancellation",
           not bad, where="crates/ide/src/base.rs", how="%d setter call sites, all in the allowed functions" % len(sites) if not bad else str(bad))
    res.floor("setter calls in Change::apply and its helpers (positive control)", sum(1 for f, t in sites if f.path.startswith("ide::base::Change::") and f.path in allowed), 5)
    from rules import c12
    okap, howap = c12.apply_unconditional(F)
    res.ob("H1", "every-change-applied", "AnalysisHost::apply_change hands every change to Change::apply (no change, e.g. a package-graph-only one, is dropped)",
           okap, where="crates/ide/src/ide/mod.rs", how=howap)
    # every field of a Change is consumed by Change::apply (a field that is set but never applied is lost history)
    import lib.effects as EF_
    consumed = {e["field"] for e in EF_.field_effects(F.fn("ide::base::Change::apply"), "ide::base::Change")}
    data_fields = [f_["name"] for f_ in F.adt("ide::base::Change")["variants"][0]["fields"] if not f_["ty"] == "bool"]
    res.ob("H1", "apply-consumes-all-fields", "Change::apply consumes every data field of Change (package_graph, roots, file_changes)",
           set(data_fields) <= consumed, where="crates/ide/src/base.rs", how="fields %s, consumed %s" % (data_fields, sorted(consumed)))
    # ---- H2
    stat = [(k, s["ty"]) for k, s in F.statics.items() if in_query_crates(k) and "lex::" not in k
            and not s["ty"].startswith("tracing_core::")]
    res.ob("H2", "no-statics", "crates ide and syntax have no static items besides tracing call-site metadata (no static mut, no lazy/once/atomic/thread_local state)",
           not stat, where="crates/ide, crates/syntax", how="%d statics inspected" % sum(1 for k in F.statics if in_query_crates(k)) if not stat else str(stat[:4]))
    tls = []
    for p, f in F.fns.items():
        if in_query_crates(p):
            for b, i, s in f.stmts():
                if s.get("rv", {}).get("k") == "tls":
                    tls.append((p, s["ln"]))
            for b, t in f.calls():
                if "thread::local::LocalKey" in (callee(t) or callee_def(t) or ""):
                    tls.append((p, t["ln"]))
    res.ob("H2", "no-thread-locals", "no thread-local is read or written in crates ide and syntax", not tls, where="crates/ide, crates/syntax", how=str(tls[:4]) if tls else "none")
    for adt, want in (("ide::ide::RootDatabase", ["storage"]), ("ide::ide::AnalysisHost", ["db"]), ("ide::ide::Analysis", ["db"])):
        got = [x["name"] for x in F.adt(adt)["variants"][0]["fields"]]
        res.ob("H2", "fields/%s" % adt.rsplit("::", 1)[-1], "%s consists of exactly %s" % (adt.rsplit("::", 1)[-1], want), got == want,
               where="crates/ide/src/ide/mod.rs", how=str(got), nontrivial=False)
    # Semantics (the only RefCell) is not part of the long-lived state: not reachable through the field
    # types of RootDatabase / AnalysisHost / Analysis, and never in a static
    holders = []
    seen_t, st = set(), ["ide::ide::RootDatabase", "ide::ide::AnalysisHost", "ide::ide::Analysis"]
    while st:
        a = st.pop()
        if a in seen_t or a not in F.adts:
            continue
        seen_t.add(a)
        for v in F.adts[a]["variants"]:
            for fld in v["fields"]:
                for m in re.findall(r"[\w:]+", fld["ty"]):
                    if m == "ide::def::semantics::Semantics":
                        holders.append((a, fld["name"]))
                    if m in F.adts and m not in seen_t:
                        st.append(m)
    cells = []
    for p, a in F.adts.items():
        if in_query_crates(p):
            for v in a["variants"]:
                for fld in v["fields"]:
                    if re.search(r"\b(RefCell|Cell|Mutex|RwLock|OnceCell|OnceLock|Atomic\w+|Lazy)<", fld["ty"]) or re.search(r"Atomic(Bool|U\d+|I\d+|Usize)", fld["ty"]):
                        cells.append("%s.%s" % (p, fld["name"]))
    allowed_cells = {"ide::def::semantics::Semantics.cache"}
    # counters of the parser (progress fuel, nesting level): they belong to a Parser value, which is built in parse_module, never
    # stored in another type and gone when parse_module returns - state of one parse, not of the analysis
    from lib import effects as _EF
    per_parse = set()
    for c in cells:
        adt = c.rsplit(".", 1)[0]
        if not adt.startswith("syntax::parser::"):
            continue
        built_in = {f_.path for f_, b_, s_ in _EF.constructions(F, adt, None, "")}
        held_by = [p2 for p2, a2 in F.adts.items() if p2 != adt and not p2.startswith("syntax::parser::") and
                   any(adt in fld["ty"] for v2 in a2["variants"] for fld in v2["fields"])]
        if built_in and all(x.startswith("syntax::parser::") for x in built_in) and not held_by:
            per_parse.add(c)
    res.ob("H2", "interior-mutability", "the only interior-mutable fields in ide/syntax are Semantics.cache (per request) and the counters of a Parser "
           "(built and dropped inside parse_module)", set(cells) <= allowed_cells | per_parse, where="crates/ide, crates/syntax",
           how="%s; per-parse: %s" % (sorted(cells), sorted(per_parse)))
    res.ob("H2", "semantics-not-stored", "Semantics (per-request cache) is not reachable from the fields of RootDatabase/AnalysisHost/Analysis", not holders,
           where="crates/ide/src/def/semantics.rs", how=str(holders) if holders else "no holder")
    # ---- H3
    roots = query_roots(F)
    res.floor("query implementations and Analysis methods (roots)", len(roots), 24)
    seen = F.reachable_from(roots)
    res.analysed["query_reachable_functions"] = len(seen)
    impure = []
    stat_reads = []
    for p in seen:
        f = F.fns[p]
        for b, t in f.calls():
            c = callee(t) or callee_def(t) or ""
            if c.startswith(IMPURE):
                impure.append((p, t["ln"], c))
        for op in __import__("lib.facts", fromlist=["x"]).all_operands(f):
            k = op.get("k")
            if k and k.get("def") in F.statics and not F.statics[k["def"]]["ty"].startswith("tracing_core::"):
                stat_reads.append((p, k["def"]))
    res.ob("H3", "no-ambient-inputs", "nothing reachable from a query implementation or an Analysis method calls into fs/env/time/process/thread/rand/tokio",
           not impure, where="crates/ide", how="%d reachable functions scanned" % len(seen) if not impure else str(impure[:3]))
    res.ob("H3", "no-static-reads", "query-reachable code reads no static (other than tracing call sites)", not stat_reads, where="crates/ide",
           how=str(stat_reads[:3]) if stat_reads else "none")
    # ---- H4a
    direct = [(f, b, t, h, recv) for f, b, t, h, recv in HI.hash_iteration_sites(F, in_query_crates)]
    # wrappers: functions that hand an unordered hash iterator to their caller
    wrappers = {}
    for f, b, t, h, recv in direct:
        if h != "RandomState":
            continue
        chain, sinks = HI.signature(F, f, b, t)
        last = chain[-1] if chain else ""
        if (not chain or last.split("::")[-1] in ("map", "filter", "filter_map", "cloned", "copied", "chain")) and \
                ("Iterator" in (f.d.get("output") or "") or "iter" in (f.d.get("output") or "").lower()):
            wrappers[f.path] = True
    changed = True
    while changed:
        changed = False
        for p, f in F.fns.items():
            if not in_query_crates(p) or p in wrappers or not f.blocks:
                continue
            for b, t in f.calls():
                if callee(t) in wrappers:
                    chain, sinks = HI.signature(F, f, b, t)
                    last = chain[-1] if chain else ""
                    if (not chain or last.split("::")[-1] in ("map", "filter", "filter_map", "cloned", "copied", "chain")) and \
                            "Iterator" in (f.d.get("output") or ""):
                        wrappers[p] = True
                        changed = True
    sites = []
    for f, b, t, h, recv in direct:
        sites.append((f, b, t, h, "direct"))
    for p, f in sorted(F.fns.items()):
        if not in_query_crates(p) or not f.blocks:
            continue
        for b, t in f.calls():
            if callee(t) in wrappers:
                sites.append((f, b, t, "RandomState", "via " + callee(t).rsplit("::", 2)[-2] + "::" + callee(t).rsplit("::", 1)[-1]))
    n_random = 0
    for f, b, t, h, how in sites:
        c = callee(t) or callee_def(t)
        ordn = [bb for bb, tt in f.calls() if (callee(tt) or callee_def(tt)) == c].index(b)
        key = "%s/%s/%d" % (f.path, FL.short(c), ordn)
        if h != "RandomState":
            res.ob("H4", "iter/" + key, "this iteration is over a deterministically hashed map (IntMap/nohash)", True, where=f.loc(t["ln"]),
                   how="hasher is not RandomState", nontrivial=False)
            continue
        n_random += 1
        if f.path in wrappers:
            res.ob("H4", "iter/" + key, "this function only hands the unordered iterator on; its callers are checked instead", True,
                   where=f.loc(t["ln"]), how="wrapper; callers: checked as 'via' sites", nontrivial=False)
            continue
        chain, sinks = HI.signature(F, f, b, t)
        sig = "%s | %s" % (" > ".join(chain), ",".join(sinks))
        last = chain[-1] if chain else ""
        verdict, why = False, ""
        lastm = last.split("::")[-1] if not last.startswith("collect->") else last
        if lastm in ("count", "any", "all", "sum", "max", "min", "collect->HashMap", "collect->HashSet", "collect->BTreeMap",
                     "collect->BTreeSet", "collect->IndexSet") and not sinks:
            verdict, why = True, "order-insensitive terminal %s" % lastm
        elif lastm in ("next", "for_each") and sinks and all(s in HI.ORDER_FREE_SINKS for s in sinks):
            verdict, why = True, "loop body only inserts into maps/sets (%s)" % sinks
        elif lastm == "collect->Vec":
            # the Vec must be sorted before use
            dest = None
            d = FL.Defs(f)
            cur = t["dest"]["l"]
            for b2, t2 in f.calls():
                if FL.short(callee(t2) or callee_def(t2)).endswith("collect") and f.local_ty(t2["dest"]["l"]).startswith("alloc::vec::Vec"):
                    if f.can_reach(b, [b2]):
                        dest = t2["dest"]["l"]
            # follow moves of the vec
            cand = {dest}
            for _ in range(4):
                for bb_, i_, s in f.stmts():
                    if s["k"] == "assign" and not s["place"]["p"] and s["rv"]["k"] == "use":
                        pl = op_place(s["rv"]["op"])
                        if pl is not None and not pl["p"] and pl["l"] in cand:
                            cand.add(s["place"]["l"])
            if any(sorted_afterwards(f, c_) for c_ in cand if c_ is not None):
                verdict, why = True, "collected into a Vec that is sorted afterwards"
        if not verdict and _selects_one_key(F, f, b, t, chain):
            verdict, why = True, "the consumer looks only at the entry whose key equals a value fixed before the iteration (keys are unique: at most one entry, whatever the order)"
        if not verdict:
            rv = reviewed.get("H4/iter/" + key)
            if rv is None:
                # the iteration moved between the function and one of its closures (`for_each(|..| ..)` <-> `for .. in`): an entry
                # of the same function family and callee whose own site is gone, with the same consumer chain and no new sink
                import re as _re
                base = _re.sub(r"(::\{closure#\d+\})+$", "", f.path)
                fam = {k_: v_ for k_, v_ in reviewed.items() if k_.startswith("H4/iter/" + base) and k_.rsplit("/", 2)[-2] == FL.short(c)}
                live = {"H4/iter/%s/%s/%d" % (f2.path, FL.short(callee(t2) or callee_def(t2)),
                                              [bb for bb, tt in f2.calls() if (callee(tt) or callee_def(tt)) == (callee(t2) or callee_def(t2))].index(b2))
                        for f2, b2, t2, _h, _w in sites}
                known_sinks = set()
                for v_ in fam.values():
                    known_sinks |= {x for x in v_.get("signature", "").split(" | ")[-1].split(",") if x}
                for k_, v_ in sorted(fam.items()):
                    if k_ not in live and v_.get("signature", "").split(" | ")[0] == " > ".join(chain) and set(sinks) <= known_sinks:
                        rv = dict(v_, signature=sig)
                        break
                if rv is None and base not in {_re.sub(r"(::\{closure#\d+\})+$", "", k_[len("H4/iter/"):].rsplit("/", 2)[0]) for k_ in reviewed}:
                    # the loop was extracted into a helper that did not exist when the sites were reviewed (`copy_modules(&mut into, &from)`):
                    # an orphaned entry of one of its callers, same callee, same consumer chain, no new sink
                    callers = {_re.sub(r"(::\{closure#\d+\})+$", "", p_) for p_, g_ in F.fns.items() if g_.blocks and
                               any((callee(t_) or "") == f.path for _b, t_ in g_.calls())}
                    for cb in sorted(callers):
                        fam2 = {k_: v_ for k_, v_ in reviewed.items() if k_.startswith("H4/iter/" + cb) and k_.rsplit("/", 2)[-2] == FL.short(c)}
                        ks2 = set()
                        for v_ in fam2.values():
                            ks2 |= {x for x in v_.get("signature", "").split(" | ")[-1].split(",") if x}
                        for k_, v_ in sorted(fam2.items()):
                            if rv is None and k_ not in live and v_.get("signature", "").split(" | ")[0] == " > ".join(chain) and set(sinks) <= ks2:
                                rv = dict(v_, signature=sig)
            if rv and rv.get("signature") == sig:
                res.ob("H4", "iter/" + key, "this iteration over a RandomState-hashed collection does not let the iteration order reach an answer",
                       True, where=f.loc(t["ln"]), how="reviewed: %s [consumers: %s]" % (rv["reason"], sig), reviewed=True)
                continue
            why = ("consumers changed since review: now [%s], reviewed [%s]" % (sig, rv.get("signature"))) if rv else \
                "unordered iteration feeds order-sensitive consumers [%s] (%s) and no reviewed entry exists" % (sig, how)
        res.ob("H4", "iter/" + key, "this iteration over a RandomState-hashed collection does not let the iteration order reach an answer",
               verdict, where=f.loc(t["ln"]), how=why)
    res.floor("iterations over RandomState-hashed collections in ide/syntax", n_random, 9)
    mi = F.fn("ide::base::ModuleMap::iter")
    from lib import effects as EF
    flds = sorted({e["field"] for e in EF.field_effects(mi, "ide::base::ModuleMap")})
    res.ob("H4", "module-map-iter-unique", "ModuleMap::iter walks the name->file map (one entry per module name), not the file->name map in which "
           "two files can carry the same name: what the reviewed copies in Package::visible_modules rely on", flds == ["files"], where=mi.loc(),
           how="fields read: %s" % flds)
    # ---- H4b raw intern ids: intern ids are numbers handed out in the order queries happened to run, so they differ
    # between a fresh analysis and one that has a history. Query code may carry them around and compare them for
    # equality; it may not look at the number (order, arithmetic, graph-node index, hash-independent position).
    raw = [(f.path, t["ln"], FL.short(callee(t) or callee_def(t))) for f, b, t in F.callers_of(
        lambda c: c.endswith("InternId::as_u32") or c.endswith("InternId::as_usize") or
        c.endswith("From<u32>>::from") and "InternId" in c or c.endswith("From<usize>>::from") and "InternId" in c)
        if in_query_crates(f.path) and "InternKey" not in (f.d.get("impl_trait") or "")]
    res.ob("H4", "raw-intern-ids", "query code never reads the number inside an intern id, nor makes an id from a number (ids are history-dependent: "
           "an order or a graph-node index taken from them differs between a fresh analysis and one with a history)", not raw,
           where="crates/ide/src", how="no InternId::as_u32/as_usize/from(number) outside the InternKey impls" if not raw else
           "raw id reads/constructions: %s" % sorted(set(raw))[:6])
    # ... nor orders ids: min/max/cmp/sort instantiated at InternId or at an interned-key type
    keytypes = set()
    for p_ in F.fns:
        m_ = re.match(r"^<(.+) as salsa::(?:interned::)?InternKey>::as_intern_id$", p_)
        if m_:
            keytypes.add(m_.group(1))
    ordered = []
    for p_, f in sorted(F.fns.items()):
        if not in_query_crates(p_) or not f.blocks or f.d.get("impl_trait"):
            continue
        for b, t in f.calls():
            full = (t.get("fn") or {}).get("full", "") or ""
            if not (("cmp::" in full and re.search(r"cmp::(min|max|Ord|PartialOrd|Reverse)", full)) or re.search(r"::(sort|sort_by_key|sort_unstable|binary_search)\b", full)):
                continue
            targs = " ".join((t.get("fn") or {}).get("targs") or [])
            if "salsa::InternId" in targs or "salsa::intern_id::InternId" in targs or any(re.search(r"(^|[ <,(&])" + re.escape(k) + r"($|[ >,)])", targs) for k in keytypes):
                ordered.append((p_, t["ln"], FL.short(callee(t) or callee_def(t))))
    res.ob("H4", "intern-ids-unordered", "query code never orders intern ids (min/max/cmp/sort on InternId or on an interned key): which of two ids is "
           "smaller depends on which query ran first", not ordered, where="crates/ide/src",
           how="no ordering operation on ids" if not ordered else "ordering on ids: %s" % ordered[:4])
    keys = [p_ for p_, f in F.fns.items() if "salsa::interned::InternKey>::as_intern_id" in p_ or "InternKey>::as_intern_id" in p_]
    res.floor("InternKey impls in crate ide (the intern machinery the rule is about exists)", len(keys), 5)
    # ---- H5
    ic = [(f.path, t["ln"], callee_def(t)) for f, b, t in F.callers_of(lambda c: "InternDatabase::intern_" in c and "lookup" not in c)
          if in_query_crates(f.path) and "GroupStorage" not in f.path and not (f.d.get("impl_trait") or "").startswith("ide::def::InternDatabase")]
    outside = [x for x in ic if x[0] != "ide::def::scope::module_scope_with_map_query" and not x[0].endswith("hir_def::Intern>::intern")]
    via_trait = [f.path for f, b, t in F.callers_of(lambda c: c.endswith("hir_def::Intern>::intern") or c.endswith("hir_def::Intern::intern"))
                 if in_query_crates(f.path)]
    res.ob("H5", "interning-one-place", "definitions are interned only in module_scope_with_map_query (ids are keyed by (file, index) of the current item tree)",
           not outside and not via_trait, where="crates/ide/src/def/scope.rs",
           how="%d intern calls" % len(ic) if not outside and not via_trait else "outside: %s via Intern::intern: %s" % (outside, via_trait))
    res.floor("intern calls in module_scope_with_map_query (positive control)",
              sum(1 for x in ic if x[0] == "ide::def::scope::module_scope_with_map_query"), 5)
    value_equality_rules(F, res)
    # a query cycle that can happen answers by recovery on a fresh host and panics when the same state is reached by an edit
    from rules import c10 as _c10
    _c10.cycles_are_cut(F, res, rule="H8")


def _selects_one_key(F, f, b, t, chain):
    """An iteration over the entries of a map whose consumer acts only on the entry whose KEY (field 0 of the item) equals a value
    that does not change during the iteration: `find(|(k, _)| *k == key)`, or a loop whose first decision is `if k != key
    { continue }` with nothing done on the way round. At most one entry qualifies, so the order cannot matter."""
    d = FL.Defs(f)
    last = chain[-1].split("::")[-1] if chain else ""

    def is_eq_call(t2):
        c = FL.short(callee(t2) or callee_def(t2) or "")
        return c.rsplit("::", 1)[-1] in ("eq", "ne") and len(t2["args"]) == 2

    if last in ("find", "position", "any", "find_map") and chain:
        # the predicate closure: returns the result of one equality between item.0 and a capture
        for b2, t2 in f.calls():
            if FL.short(callee(t2) or callee_def(t2) or "") != chain[-1] or not f.can_reach(b, [b2]):
                continue
            for a in t2["args"][1:]:
                o = d.origin_op(a)
                if o.get("k") != "agg" or "closure" not in o["rv"] or o["rv"]["closure"] not in F.fns:
                    continue
                cf = F.fns[o["rv"]["closure"]]
                dc = FL.Defs(cf)
                calls = [(bb, tt) for bb, tt in cf.calls()]
                eqs = [(bb, tt) for bb, tt in calls if is_eq_call(tt)]
                others = [tt for bb, tt in calls if not is_eq_call(tt) and FL.short(callee(tt) or callee_def(tt) or "").rsplit("::", 1)[-1] not in ("deref", "borrow", "as_ref", "clone")]
                if len(eqs) != 1 or others:
                    continue
                deps = [FL.depends(F, cf, dc, x) for x in eqs[0][1]["args"]]
                sides = [("item" if 2 in dp["args"] else "") + ("cap" if 1 in dp["args"] else "") for dp in deps]
                if sorted(sides) == ["cap", "item"] and _reads_field0(cf, dc, eqs[0][1]["args"][sides.index("item")]):
                    return True
        return False
    if last == "next":
        for b2, t2 in f.calls():
            if not FL.short(callee(t2) or callee_def(t2) or "").endswith("Iterator::next") or not f.can_reach(b, [b2]):
                continue
            loops = [f.natural_loop(tl, hd) for tl, hd in f.back_edges() if b2 in f.natural_loop(tl, hd)]
            if not loops:
                continue
            body = min(loops, key=len)
            item = t2["dest"]["l"]
            # the first equality test of the body
            for b3, t3 in f.calls():
                if b3 not in body or not is_eq_call(t3):
                    continue
                deps = [FL.depends(F, f, d, x) for x in t3["args"]]

                def from_item(x):
                    seen, st = set(), [x]
                    while st:
                        o = st.pop()
                        pl = (o.get("cp") or o.get("mv")) if isinstance(o, dict) else None
                        if not pl or pl["l"] in seen:
                            continue
                        if pl["l"] == item:
                            return True
                        seen.add(pl["l"])
                        for dd in d.defs.get(pl["l"], []):
                            if dd[2] == "assign":
                                rv = dd[3]["rv"]
                                for k_ in ("op", "a", "b"):
                                    if isinstance(rv.get(k_), dict):
                                        st.append(rv[k_])
                                if "place" in rv:
                                    st.append({"cp": rv["place"]})
                    return False
                fi = [from_item(x) for x in t3["args"]]
                if sorted(fi) != [False, True]:
                    continue
                # the switch on its answer: one edge leads back to the loop head without a call (`continue`)
                for sb in body:
                    st_ = f.term(sb)
                    if st_.get("k") != "switch":
                        continue
                    o = d.origin_op(st_["op"])
                    if o.get("k") == "call" and o.get("bb") == b3:
                        for _v, tgt in FL.switch_edges(st_):
                            x, hops, clean = tgt, 0, True
                            while x != b2 and hops < 12 and clean:
                                tx = f.term(x)
                                if tx["k"] == "call" and x != b2:
                                    clean = False
                                    break
                                nx = [y for y in f.succ(x) if y in body]
                                if len(nx) != 1:
                                    clean = False
                                    break
                                x, hops = nx[0], hops + 1
                            if clean and x == b2:
                                # nothing between the loop head and this test may act on other entries
                                pre = [bb for bb, tt in f.calls() if bb in body and bb not in (b2, b3) and f.dominates(bb, b3) and
                                       FL.short(callee(tt) or callee_def(tt) or "").rsplit("::", 1)[-1] not in ("deref", "borrow", "as_ref", "clone", "into_iter")]
                                if not pre:
                                    return True
        return False
    return False


def _reads_field0(cf, dc, op):
    """does the operand come out of field 0 of the closure's item argument"""
    seen, st = set(), [op]
    while st:
        o = st.pop()
        pl = (o.get("cp") or o.get("mv")) if isinstance(o, dict) else None
        if not pl or (pl["l"], json.dumps(pl["p"], sort_keys=True)) in seen:
            continue
        seen.add((pl["l"], json.dumps(pl["p"], sort_keys=True)))
        if any(isinstance(e, dict) and e.get("f") == 0 for e in pl["p"]):
            return True
        for dd in dc.defs.get(pl["l"], []):
            if dd[2] == "assign":
                rv = dd[3]["rv"]
                for k_ in ("op", "a", "b"):
                    if isinstance(rv.get(k_), dict):
                        st.append(rv[k_])
                if "place" in rv:
                    st.append({"cp": rv["place"]})
    return False



def value_equality_rules(F, res, rule="H6", rule2="H7"):
    """salsa keeps the *dependents'* memoised values when a recomputed value compares equal to the old one (back-dating). So the
    equality of a query value must distinguish everything a consumer can observe of it - in particular the order of an
    insertion-ordered container (IndexMap / IndexSet equality ignores order, their iteration exposes it)."""
    import re as _re
    shims = [p for p in F.fns if p.endswith("::__shim")]
    res.floor("salsa query shims", len(shims), 38)
    roots = set()
    for p in shims:
        for m in _re.finditer(r"\b((?:ide|syntax)::[A-Za-z0-9_:]+)", F.fns[p].local_ty(0) or ""):
            roots.add(m.group(1))
    eq_of = {}
    for p in F.fns:
        m = _re.match(r"^<((?:ide|syntax)::[A-Za-z0-9_:]+)(?:<.*>)? as core::cmp::PartialEq>::eq$", p)
        if m:
            eq_of[m.group(1)] = p
    seen, st, via = set(), [], {}
    for t in sorted(roots):
        if t in eq_of:
            st.append(eq_of[t])
            via[eq_of[t]] = [t]
    bad = []
    while st:
        p = st.pop()
        if p in seen:
            continue
        seen.add(p)
        f = F.fns[p]
        for q in [p] + list(F.closures_of(p)):
            for b, t in F.fns[q].calls():
                c = callee(t) or callee_def(t) or ""
                full = (t.get("fn") or {}).get("full") or c
                if _re.search(r"indexmap::(map::IndexMap|set::IndexSet)<.*as core::cmp::PartialEq", c) or \
                        _re.search(r"<indexmap::(map::IndexMap|set::IndexSet)<.*as core::cmp::PartialEq", full):
                    bad.append((via[p], f.loc(t["ln"]), full))
                # equality of a component type
                for m in _re.finditer(r"\b((?:ide|syntax)::[A-Za-z0-9_:]+)", full):
                    e = eq_of.get(m.group(1))
                    if e and e not in seen and "PartialEq" in full:
                        via[e] = via[p] + [m.group(1)]
                        st.append(e)
    res.floor("PartialEq impls reachable from query values", len(seen), 96)
    handwritten_equality_is_complete(F, res, seen, rule=rule2)
    keys = sorted({"/".join(v) for v, _, _ in bad})
    for k in keys:
        where = [w for v, w, _ in bad if "/".join(v) == k][0]
        res.ob(rule, "value-eq-order/%s" % k.replace("ide::", ""), "the equality salsa uses to back-date this query value distinguishes the iteration "
               "order of its insertion-ordered maps (otherwise a reordering edit leaves dependents with the old order: answers differ from a "
               "fresh analysis)", False, where=where, how="derived PartialEq compares an IndexMap/IndexSet field with the container's own "
               "order-insensitive `==`")
    res.ob(rule, "value-eq-order", "no equality reachable from a salsa query value compares an insertion-ordered container (IndexMap / IndexSet) "
           "with its order-insensitive `==`", not bad, where="crates/ide/src/def/scope.rs",
           how="%d query value types, %d PartialEq impls followed; offending: %s" % (len(roots), len(seen), keys))


NARROW_VIEWS = ("::keys", "::values", "::len", "::is_empty", "::first", "::last", "::get", "::contains_key", "::contains",
                "::into_keys", "::into_values", "::get_index", "::capacity")


def handwritten_equality_is_complete(F, res, eqs, rule="H7"):
    """H7: a hand-written PartialEq of a type inside a salsa query value decides what salsa may back-date. It must look at
    every field of the type (of every variant), and at each field as a whole - not through a narrowing view such as keys(),
    len() or first(). A field it ignores can change without the dependents of the query being recomputed."""
    import re as _re
    n = 0
    for p in sorted(eqs):
        f = F.fns[p]
        if (f.d.get("span") or {}).get("exp"):
            continue          # derived: complete by construction
        m = _re.match(r"^<((?:ide|syntax)::[A-Za-z0-9_:]+)(?:<.*>)? as core::cmp::PartialEq>::eq$", p)
        adt = F.adt(m.group(1)) if m else None
        if not adt:
            continue
        n += 1
        T = m.group(1)
        fields = {fl["name"] for v in adt["variants"] for fl in v["fields"] if not (fl.get("ty") or "").startswith("core::marker::PhantomData")}
        views = {}      # field -> set of callee names it is handed to (or "<direct>" when compared as a value)
        for q in [p] + list(F.closures_of(p)):
            g = F.fns[q]
            d = FL.Defs(g)

            def fld(op):
                o = d.origin_op(op)
                if o.get("k") == "rv" and o["rv"]["k"] == "ref":
                    o = d.origin_place(o["rv"]["place"])
                if o.get("k") == "field":
                    names = [e.get("n") for e in o.get("proj", []) if isinstance(e, dict) and (e.get("adt") or "") == T and e.get("n")]
                    return names[-1] if names else None
                return None
            for b, t in g.calls():
                c = callee(t) or callee_def(t) or ""
                for a in t["args"]:
                    x = fld(a)
                    if x:
                        views.setdefault(x, set()).add(c)
            for b, i, s in g.stmts():
                rv = s.get("rv") or {}
                if rv.get("k") == "bin" and rv["op"] in ("Eq", "Ne"):
                    for side in ("a", "b"):
                        x = fld(rv[side])
                        if x:
                            views.setdefault(x, set()).add("<direct>")
                # any other read of the field (matched, copied into a local that is compared later)
                for e in ((rv.get("place") or {}).get("p") or []) + [e2 for o_ in ([rv.get("op")] if isinstance(rv.get("op"), dict) else [])
                                                                         for e2 in ((o_.get("cp") or o_.get("mv") or {}).get("p") or [])]:
                    if isinstance(e, dict) and (e.get("adt") or "") == T and e.get("n"):
                        views.setdefault(e["n"], set())
        unread = sorted(fields - set(views))
        narrow = sorted(x for x, cs in views.items() if cs and all(any(c.endswith(nv) for nv in NARROW_VIEWS) for c in cs))
        res.ob(rule, "eq-complete/%s" % T.replace("ide::", ""), "the hand-written equality of %s compares every field, each as a whole" % T.rsplit("::", 1)[-1],
               not unread and not narrow, where=f.loc(),
               how="fields never read: %s; fields compared only through a narrowing view: %s" % (unread, {x: sorted(FL.short(c) for c in views[x]) for x in narrow})
               if unread or narrow else "%d fields, all read and none only through keys()/len()/.." % len(fields))
        # a pairing that stops at the shorter side: `a.iter().zip(b.iter()).all(|(x, y)| x == y)` calls a prefix of the other equal -
        # a declaration appended to a module changes nothing for salsa. Iterator::eq, slice and container `==` compare the lengths.
        trunc = []
        for q in F.with_helpers(p, depth=2, stop=[e for e in eqs if e != p]):
            g = F.fns.get(q)
            if g is None or not g.blocks:
                continue
            zips = [t for _b, t in g.calls() if (callee_def(t) or callee(t) or "").endswith(("Iterator::zip", "iter::zip", "::zip_eq")) and
                    not (callee_def(t) or callee(t) or "").endswith("::zip_eq")]
            if not zips:
                continue
            dg = FL.Defs(g)
            len_cmp = False
            for _b, _i, st_ in g.stmts():
                rv = st_.get("rv") or {}
                if rv.get("k") == "bin" and rv["op"] in ("Eq", "Ne"):
                    os_ = [dg.origin_op(rv[side]) for side in ("a", "b")]
                    if all(o.get("k") == "call" and (callee(o["t"]) or callee_def(o["t"]) or "").rsplit("::", 1)[-1] in ("len", "count") for o in os_):
                        len_cmp = True
            if not len_cmp:
                trunc.append("%s line %s" % (FL.short(q), zips[0].get("ln")))
        res.ob(rule, "eq-no-truncating-pairing/%s" % T.replace("ide::", ""), "the hand-written equality of %s does not compare two sequences through a pairing "
               "that stops at the shorter one (`zip`) without comparing their lengths" % T.rsplit("::", 1)[-1], not trunc, where=f.loc(),
               how="zip without a length comparison in %s" % trunc if trunc else "no zip in the equality and its helpers, or the lengths are compared beside it")
    res.floor("hand-written PartialEq impls among the query value types", n, 1)


def every_part_of_a_change_is_applied(F, res, rule="H9"):
    """H9: a Change carries up to three things - a package graph, a partition into source roots, file texts. Change::apply hands
    each to its salsa setter whenever it is there: the decisions above a setter call are presence tests (`if let Some(..)`, a
    loop's `next()`) and nothing else. An early return for an "empty" change (whose emptiness test forgets the package graph),
    or any other condition in front of a setter, drops an input the rest of the server believes was applied; every later
    answer is computed on the old input while a fresh analysis uses the new one."""
    from lib import inline as IL
    ap0 = F.fn("ide::base::Change::apply")
    ap = IL.inlined(F, ap0, want=lambda p: p.startswith("ide::base::Change::") and "{closure" not in p, depth=3)
    d = FL.Defs(ap)
    setters = [(b, t) for b, t in ap.calls() if (callee(t) or callee_def(t) or "").rsplit("::", 1)[-1].startswith("set_") and
               "SourceDatabase" in (callee(t) or callee_def(t) or "")]
    res.floor("salsa setters called by Change::apply", len(setters), 5)
    for b, t in setters:
        name = (callee(t) or callee_def(t) or "").rsplit("::", 1)[-1]
        gs = FL.gates(F, ap, [b], d)
        def loop_exit(g, b=b):
            # the end of an inner loop (its `next()` answered None) in front of a setter of the enclosing loop: the deciding block
            # lies in a loop that the setter is not part of
            if g.get("allowed") != ["None"]:
                return False
            return any(g.get("bb") in lp and b not in lp for lp in (ap.natural_loop(tl, hd) for tl, hd in ap.back_edges()))
        bad = [(FL.short(g.get("callee") or ""), g.get("allowed")) for g in gs if g.get("allowed") not in (["Some"], ["Continue"], ["Ok"]) and not loop_exit(g)]
        n_same = [bb for bb, tt in setters if (callee(tt) or callee_def(tt) or "").rsplit("::", 1)[-1] == name].index(b)
        res.ob(rule, "apply/%s/%d" % (name, n_same), "Change::apply reaches %s whenever the part of the change it is for is present (only presence tests "
               "decide)" % name, not bad, where=ap0.loc(t["ln"]), how="decisions above the call: %s; other than presence tests: %s" % (
                   [(FL.short(g.get("callee") or ""), g.get("allowed")) for g in gs], bad))


def source_root_ids_are_stable(F, res, rule="H10"):
    """H10: "the same workspace gives the same answers in every run". A SourceRootId is the position of a root in the list the
    server hands to Change::set_roots. Server::lower_vfs builds that list: it must not take its order from a RandomState-hashed
    collection (ids dealt differently in every run and re-dealt at every structural change, while files that are not
    registered again keep the id they had - the package graph then names another root). The list comes from an insertion-ordered
    map / vector filled in the order of the configuration."""
    from lib import hashiter as HI
    lv = "glas::server::Server::lower_vfs"
    f = F.fn(lv)
    sites = [(g, b, t, h) for g, b, t, h, _r in HI.hash_iteration_sites(F, lambda p: p.startswith(lv)) if h == "RandomState"]
    # what the result is collected from
    d = FL.Defs(f)
    src = []
    for b, t in f.calls():
        if FL.short(callee(t) or callee_def(t) or "").endswith("::collect") and "SourceRoot" in str(f.local_ty(t["dest"]["l"]) or ""):
            dep = FL.depends(F, f, d, t["args"][0], use_bb=b)
            src = sorted(FL.short(c) for c in dep["calls"] if c.rsplit("::", 1)[-1] in ("into_iter", "iter", "drain", "into_values", "values"))
    res.ob(rule, "lower_vfs/configuration-order", "the list of source roots (whose positions are the SourceRootIds) is not taken out of a hash map",
           not sites and bool(src), where=f.loc(), how="iterations over RandomState-hashed collections in lower_vfs: %s; the result is collected from %s" % (
               ["line %d" % t["ln"] for g, b, t, h in sites], src))
