"""C08 — Rename refuses invalid names, foreign symbols and ambiguous spellings."""
from lib import flow as FL
from lib.facts import callee, callee_def, op_local

META = {
    "level": "other",
    "rule": "V1 name class per Definition variant (path-sensitive walk of rename's match); "
            "V2 exactly-one-token gate; V3 locality gate on prepare_rename and rename; "
            "V4 sibling agreement of the gate sets; V5 server forwards new_name / maps Err; V6 a package's locality is computed from its own root path (build/packages) only; V7 both dependency tables of gleam.toml are followed. "
            "An obligation is non-trivial when its verdict needed a path or dominance argument. V3 also: the package whose locality is asked is that of Definition::module(..) of find_def's result, not of the cursor's file. V8 every TextEdit of rename is built under an is_local test of the package of the file the use was found in. V9 is_local is computed from the text of the root path (no file-system call); V10 lower_vfs deals files to the longest matching root. V11 the per-module locality test is built on Package::is_local of the module\u2019s own package. V12 the name classes are those of the lexer's table. V13 = C05/S20 (a module qualifier is recorded as one whether or not its member resolves: rename must not take it for a same-named function).",
    "explanation": "Decides the validation/gating clauses of C08 for every input at once by reading "
                   "the MIR of ide::ide::rename::{rename,prepare_rename,find_def} and the LSP handler: "
                   "each Definition variant must reach success only through a comparison of the lexed "
                   "new-name token with the identifier class the property's table requires, or be "
                   "refused; success must be dominated by 'first token is Some, second is None', by the "
                   "alias refusal in find_def and by Package::is_local; prepare_rename and rename must "
                   "have the same gates. V15 the regex attributes of the name and number tokens match ASCII only (logos compiles \\d, \\w in Unicode mode).",
    "not_decided": "that the edit set itself never touches a dependency when the symbol is local but "
                   "used from a dependency (behavioural).",
    "trusted_base": ["rustc MIR + callee resolution", "GleamLexer tokenises exactly as logos specifies"],
    "assumptions": ["Definition variants are the ones in ide::def::semantics::Definition (read from ADT facts)"],
}

DEF = "ide::def::semantics::Definition"
RENAME = "ide::ide::rename::rename"
PREPARE = "ide::ide::rename::prepare_rename"
FIND_DEF = "ide::ide::rename::find_def"

# the property's table: which identifier class a new name must have, per symbol kind
ORACLE = {
    "Function": "IDENT", "ModuleConstant": "IDENT", "Field": "IDENT", "Local": "IDENT",
    "Adt": "U_IDENT", "TypeAlias": "U_IDENT", "Variant": "U_IDENT",
    "Module": None, "BuiltIn": None,
}


def name_class_walk(F, fn, res):
    defs = FL.Defs(fn)
    oks = set(FL.ok_blocks(fn))
    if not oks:
        res.anchor_missing("V1", RENAME + " has an Ok(..) return")
        return
    dmap = F.discr_map(DEF)
    inv = {n: d for d, n in dmap.items()}

    def classify_switch(b, t):
        l = op_local(t["op"])
        if l is None:
            return None
        o = defs.origin(l)
        if o["k"] == "rv" and o["rv"]["k"] == "discr" and o["rv"]["of"] == DEF:
            return ("def",)
        if o["k"] == "rv" and o["rv"]["k"] == "un" and o["rv"]["op"] == "Not":
            inner = op_local(o["rv"]["a"])
            o2 = defs.origin(inner) if inner is not None else {"k": "unknown"}
            r = cmp_call(o2)
            if r:
                return ("cmp", r[0], not r[1])
            return None
        r = cmp_call(o)
        if r:
            return ("cmp", r[0], r[1])
        return None

    def cmp_call(o):
        """(kind, result_true_means_equal) for a PartialEq::{eq,ne} call comparing the lexed
        token kind with a constant SyntaxKind"""
        if o["k"] != "call":
            return None
        c = callee_def(o["t"]) or ""
        if not (c.endswith("PartialEq::ne") or c.endswith("PartialEq::eq")):
            return None
        ks = [FL.kind_of_operand(fn, defs, a) for a in o["t"]["args"]]
        consts = [k for k in ks if k]
        if len(consts) != 1:
            return None
        other = o["t"]["args"][0 if ks[1] else 1]
        src = defs.origin_op(other, FL.PASS_THROUGH)
        base = src
        while base.get("k") == "field":
            base = base["base"]
        if base.get("k") != "call" or "GleamLexer" not in (callee(base["t"]) or ""):
            return None
        return consts[0], c.endswith("::eq")

    for vname, d in sorted(inv.items(), key=lambda x: x[1]):
        def on_switch(b, t, facts, d=d):
            cs = classify_switch(b, t)
            if cs is None:
                return None
            if cs[0] == "def":
                for v, s in t["targets"]:
                    if v == d:
                        return [(s, facts)]
                return [(t["otherwise"], facts)]
            _, kind, true_means_eq = cs
            out = []
            for v, s in FL.switch_edges(t):
                truth = (v != 0) if v != "otherwise" else True
                eq = truth == true_means_eq
                out.append((s, set(facts) | {("eq" if eq else "ne", kind)}))
            return out
        hits = FL.explore(fn, 0, set(), on_switch, lambda b: b in oks)
        want = ORACLE.get(vname, "any")
        where = fn.loc()
        if want is None:
            res.ob("V1", "rename/%s" % vname,
                   "rename of a %s is refused on every path (no Ok reachable)" % vname,
                   not hits, how="%d paths reach Ok" % len(hits), where=where)
            continue
        bad = []
        for b, facts in hits:
            eqs = {k for r, k in facts if r == "eq"}
            if want == "any":
                if not eqs:
                    bad.append(sorted(facts))
            elif want not in eqs:
                bad.append(sorted(facts))
        res.ob("V1", "rename/%s" % vname,
               "every path on which rename of a %s returns Ok has compared the single lexed token "
               "of the new name with SyntaxKind::%s and found it equal" % (vname, want if want != "any" else "<some class>"),
               bool(hits) and not bad,
               how=("no path reaches Ok at all" if not hits else
                    ("%d of %d success paths lack the comparison (facts on such a path: %s)"
                     % (len(bad), len(hits), bad[0] if bad else ""))) if (bad or not hits)
               else "%d success paths, all guarded" % len(hits),
               where=where)
    res.analysed["V1_variants"] = sorted(inv)


# what counts as "the file belongs to a local package": the package's flag, or the per-module test built on it (V11)
LOCAL_TESTS = ("Package::is_local", "hir::Module::is_local")


def gate_set(F, fn, targets, depth=0):
    """gates for reaching targets, with same-module helper calls expanded one level"""
    out = []
    for g in FL.gates(F, fn, targets):
        out.append(g)
        c = g.get("callee") or ""
        if depth < 2 and c.startswith("ide::ide::rename::") and c in F.fns and g["kind"] == "enum":
            h = F.fns[c]
            want = g["allowed"]
            tb = []
            if want == ["Continue"] or want == ["Ok"] or want == ["Some"]:
                tb = FL.ok_blocks(h) or FL.blocks_assigning_return(
                    h, lambda rv: FL.is_variant_agg(rv, "option::Option", "Some"))
            elif want == ["Left"]:
                tb = blocks_building(h, "Either", "Left")
            if tb:
                for g2 in gate_set(F, h, tb, depth + 1):
                    g2 = dict(g2)
                    g2["inside"] = c
                    out.append(g2)
    return out


def blocks_building(fn, adt_short, variant):
    out = []
    for b, i, s in fn.stmts():
        rv = s.get("rv")
        if rv and rv["k"] == "agg" and rv.get("agg") == "adt" and rv["adt"].endswith(adt_short) \
                and rv["variant"] == variant:
            out.append(b)
    return out


def sem_gates(F, fn, res, rule):
    """Map structural gates to the property's vocabulary."""
    oks = FL.ok_blocks(fn)
    gs = gate_set(F, fn, oks)
    sem = {}
    for g in gs:
        c = g.get("callee") or ""
        if c == FIND_DEF and g["allowed"] == ["Continue"]:
            sem["definition-found"] = g
        elif c == FIND_DEF and g["allowed"] == ["Left"]:
            sem["not-aliased"] = g
        elif c.endswith(LOCAL_TESTS) and g["allowed"] == [True]:
            sem["local-package"] = g
        elif g.get("enum") == DEF and "Module" not in g["allowed"] and "BuiltIn" not in g["allowed"]:
            sem["not-module-or-builtin"] = g
        elif c.endswith("Definition::module") and g["allowed"] in (["Continue"], ["Some"]):
            sem["has-module"] = g
    return sem, gs


def locality_of_definition(F, fn, g):
    """does the receiver of the gating Package::is_local call derive (data dependence) from Definition::module(..) of find_def's result?"""
    holder = F.fns[g["inside"]] if g.get("inside") else fn
    d = FL.Defs(holder)
    dep = FL.depends(F, holder, d, g["call_t"]["args"][0])
    calls = set(dep["calls"])
    if g.get("inside") and "Definition::module" not in calls and dep["args"]:
        # the helper was handed the module / definition: look at what the caller passed
        dc = FL.Defs(fn)
        for b, t in fn.calls():
            if callee(t) == g["inside"]:
                for n in dep["args"]:
                    if n - 1 < len(t["args"]):
                        sub = FL.depends(F, fn, dc, t["args"][n - 1])
                        calls |= {"caller:" + c for c in sub["calls"]}
    has_mod = "Definition::module" in calls or "caller:Definition::module" in calls
    from_find = any(c.endswith("find_def") for c in calls) or any(
        c.endswith("find_def") for c in FL.depends(F, fn, FL.Defs(fn), g["call_t"]["args"][0])["calls"]) if not g.get("inside") else True
    return has_mod and from_find, "receiver derives from: %s" % sorted(c for c in calls if "module" in c.lower() or "find_def" in c or "package" in c.lower())


def name_tokens_are_ascii(F, res, rule="V15"):
    """V15: rename decides "a valid identifier of the right class" by lexing the new name: one IDENT / U_IDENT token and nothing else.
    What those tokens are is written in the regex attributes of SyntaxKind, and logos compiles them in Unicode mode: `\\d` is every
    decimal digit of Unicode (`area\u0663`, `v\uff11`), `\\w` every letter, a negated class everything else. Gleam's names are
    ASCII: the patterns of the name tokens (and of the numbers, which the same argument holds for) are built from literal ASCII
    characters and ASCII ranges only - no Perl class (\\d \\w \\s and their negations), no \\p{..}, no negated bracket class, no
    dot, no non-ASCII literal, no case-insensitive flag."""
    import re as _re
    va = [x for x in F.units["syntax-rlib"].get("variant_attrs", []) if x[0] == "SyntaxKind"]
    if not va:
        res.anchor_missing(rule, "attributes of SyntaxKind variants")
        return
    NAMES = ("IDENT", "U_IDENT", "DISCARD_IDENT", "INTEGER", "FLOAT")
    n, bad = 0, []
    for _e, v, txt in va:
        if v not in NAMES or not txt.lstrip("#[").startswith("regex"):
            continue
        m = _re.search(r'regex\s*[\(\[]\s*(r#*"(.*?)"#*|"((?:[^"\\]|\\.)*)")', txt, _re.S)
        if not m:
            bad.append("%s: pattern not found in %s" % (v, txt))
            continue
        n += 1
        raw = m.group(1).startswith("r")
        pat = m.group(2) if raw else m.group(3)
        if not raw:
            pat = pat.replace("\\\\", "\\")      # a normal string literal spells a backslash twice
        why = []
        if _re.search(r"\\[dDwWsSpPbB]", pat):
            why.append("a Perl / Unicode class (%s)" % _re.search(r"\\[dDwWsSpPbB](\{[^}]*\})?", pat).group(0))
        if "[^" in pat:
            why.append("a negated class")
        if _re.search(r"(?<!\\)\.", _re.sub(r"\[[^\]]*\]", "", pat)):
            why.append("a dot outside a bracket class")
        if "(?i" in pat or "ignore" in txt:
            why.append("a case-insensitive match")
        if any(ord(ch) > 127 for ch in pat) or _re.search(r"\\[ux]\{?[0-9a-fA-F]{3,}", pat):
            why.append("a non-ASCII literal")
        if why:
            bad.append("%s %r: %s" % (v, pat, ", ".join(why)))
    res.floor("regex attributes of the name and number tokens", n, 5)
    res.ob(rule, "name-tokens/ascii-only", "the patterns of IDENT, U_IDENT, DISCARD_IDENT (and of the number tokens) match ASCII characters only: a new name with a "
           "non-ASCII digit or letter is not one identifier token", not bad, where="crates/syntax/src/kind.rs",
           how="%d patterns, literal ASCII characters and ranges only" % n if not bad else "; ".join(bad))


def run(F, res, tier):
    name_tokens_are_ascii(F, res)
    rename = F.fn(RENAME)
    prepare = F.fn(PREPARE)
    find_def = F.fn(FIND_DEF)
    res.analysed["functions"] = [RENAME, PREPARE, FIND_DEF]

    # ---- V1
    name_class_walk(F, rename, res)

    # ---- V2 exactly one token
    defs = FL.Defs(rename)
    gs = FL.gates(F, rename, FL.ok_blocks(rename), defs)
    first = [g for g in gs if (g.get("callee") or "").endswith("GleamLexer as core::iter::traits::iterator::Iterator>::next")
             and g["kind"] == "enum" and g["allowed"] in (["Continue"], ["Some"])]
    res.ob("V2", "rename/first-token-some",
           "rename's success is dominated by `lexer.next()` yielding a token (empty/whitespace-only names are refused)",
           bool(first), where=rename.loc(first[0]["ln"]) if first else rename.loc(),
           how="gate found" if first else "no dominating Some-test on GleamLexer::next")
    second = []
    for g in gs:
        if (g.get("callee") or "").endswith("Option::<T>::is_none") and g["allowed"] == [True] or \
                (g.get("callee") or "").endswith("Option::<T>::is_some") and g["allowed"] == [False]:
            src = defs.origin_op(g["call_t"]["args"][0])
            if src.get("k") == "call" and (callee(src["t"]) or "").endswith("GleamLexer as core::iter::traits::iterator::Iterator>::next"):
                if not first or src["bb"] != first[0].get("call_bb"):
                    second.append(g)
        if (g.get("callee") or "").endswith("GleamLexer as core::iter::traits::iterator::Iterator>::next") and g["kind"] == "enum" \
                and g["allowed"] == ["None"]:
            second.append(g)
    res.ob("V2", "rename/second-token-none",
           "rename's success is dominated by a second `lexer.next()` being None (multi-token names are refused)",
           bool(second), where=rename.loc(second[0]["ln"]) if second else rename.loc(),
           how="gate found" if second else "no dominating None-test on a second GleamLexer::next")
    # same lexer, constructed from the new_name parameter
    lex_new = [(b, t) for b, t in rename.calls() if (callee(t) or "").endswith("GleamLexer::new")]
    ok = False
    for b, t in lex_new:
        o = defs.origin_op(t["args"][0])
        if o.get("k") == "arg" and rename.debug_name(o["n"]) == "new_name" or o.get("k") == "arg" and o["n"] == 3:
            ok = True
    res.ob("V2", "rename/lexes-new-name", "the lexer in rename is constructed from the new_name parameter itself",
           ok, where=rename.loc(), how="GleamLexer::new(arg new_name)" if ok else "GleamLexer::new argument does not originate in the parameter")

    # ---- V3 + V4
    sem_p, gs_p = sem_gates(F, prepare, res, "V3")
    sem_r, gs_r = sem_gates(F, rename, res, "V3")
    for fname, fn, sem in (("prepare_rename", prepare, sem_p), ("rename", rename, sem_r)):
        g = sem.get("local-package")
        res.ob("V3", "%s/locality-gate" % fname,
               "every path to Ok in %s passes Package::is_local(..) == true (symbols of dependencies are refused)" % fname,
               g is not None, where=fn.loc(g["ln"]) if g else fn.loc(),
               how="dominating gate at bb%d" % g["bb"] if g else
               "no Package::is_local test dominates the Ok return; gates present: %s"
               % [FL.gate_summary(x) for x in (gs_p if fn is prepare else gs_r)])
        # ... and the package asked is the one the *definition* lives in (a dependency's symbol can be reached from a local file)
        if g:
            okp, howp = locality_of_definition(F, fn, g)
            res.ob("V3", "%s/locality-of-the-definition" % fname,
                   "the package whose locality gates %s is the package of the module the resolved definition lives in (Definition::module of "
                   "find_def's result), not of the file the cursor is in" % fname, okp, where=fn.loc(g["ln"]), how=howp)
    vocab = ["definition-found", "not-aliased", "not-module-or-builtin", "local-package"]
    for v in vocab:
        if v == "not-module-or-builtin":
            # in rename this gate is a multi-way match handled by V1; accept V1's refusal there
            in_r = v in sem_r or all(o.status != "failed" for o in res.obs
                                     if o.rule == "V1" and o.key in ("rename/Module", "rename/BuiltIn"))
        else:
            in_r = v in sem_r
        in_p = v in sem_p
        if v == "local-package" and not in_r and not in_p:
            continue
        res.ob("V4", "agree/%s" % v,
               "prepare_rename and rename agree on the gate '%s' (prepare accepts exactly when rename would)" % v,
               in_r == in_p and in_r, where="%s / %s" % (prepare.loc(), rename.loc()),
               how="prepare_rename:%s rename:%s" % (in_p, in_r))

    # alias refusal inside find_def (N3 of C07 shares it)
    lefts = blocks_building(find_def, "Either", "Left")
    gl = FL.gates(F, find_def, lefts) if lefts else []
    alias = [g for g in gl if g["kind"] == "bool" and (g.get("call_def") or "").endswith(("PartialEq::ne", "PartialEq::eq"))]
    good = False
    for g in alias:
        srcs = [FL.Defs(find_def).origin_op(a, FL.PASS_THROUGH + ("::from", "::text", "::new")) for a in g["call_t"]["args"]]
        names = set()
        for s in srcs:
            b = s
            while b.get("k") == "field":
                b = b["base"]
            if b.get("k") == "call":
                names.add(callee(b["t"]) or callee_def(b["t"]))
            for v in s.get("via", []):
                names.add(v)
        if any("Definition::name" in (n or "") for n in names):
            want_eq = (g["call_def"].endswith("::ne") and g["allowed"] == [False]) or \
                      (g["call_def"].endswith("::eq") and g["allowed"] == [True])
            good = good or want_eq
    res.ob("V4", "find_def/alias-refusal",
           "find_def returns Left(def) only when the token text equals def.name() (alias spellings are refused)",
           good, where=find_def.loc(), how="dominating comparison with Definition::name" if good else
           "no dominating equality test between the token text and Definition::name; gates: %s" % [FL.gate_summary(x) for x in gl])

    # ---- V5 server side
    v5(F, res)
    v6(F, res)
    edits_only_in_local_files(F, res)
    locality_comes_from_the_registered_path(F, res)
    module_locality_implies_package_locality(F, res)
    name_classes_of_the_lexer(F, res)
    from rules import c01 as _c01
    _c01.lexer_reads_its_whole_input(F, res, rule="V14")   # the one-token test of a new name lexes the name itself, whole
    # prepare_rename/rename refuse a module qualifier: they see it as one only through the recorded module resolution
    from rules import c05 as _c05q
    _c05q.module_qualifier_is_always_recorded(F, res, rule="V13")


# gleam.toml tables whose entries `gleam deps download` puts under build/packages (Gleam manifest format)
MANIFEST_DEP_TABLES = ("dependencies", "dev-dependencies")


def v6(F, res, rule6="V6", rule7="V7"):
    """V6: which packages are foreign is decided from each package's OWN root path (…/build/packages/<name>), by
    nothing the caller passes in and by nothing about the package that happens to depend on it."""
    ag0 = F.fn("glas::server::Server::assemble_graph")
    # a predicate of the server module that the decision was factored into (`is_fetched_package_root(&Path)`) is part of it
    from lib import inline as _IL
    # .. a free function or an associated function of the server without a receiver that answers bool (`Self::is_fetched_package_root(&Path)`)
    def _pred(p_):
        if not p_.startswith("glas::server::") or p_ == ag0.path or "{closure" in p_:
            return False
        if not p_.startswith("glas::server::Server::"):
            return True
        g_ = F.fns.get(p_)
        return g_ is not None and str(g_.local_ty(0)) == "bool" and g_.d.get("arg_count") == 1 and "Path" in str(g_.local_ty(1))
    ag = _IL.inlined(F, ag0, want=_pred, depth=1)
    d = FL.Defs(ag)
    adds = [(b, t) for b, t in ag.calls() if FL.short(callee(t) or callee_def(t)) == "PackageGraph::add_package"]
    if not adds:
        res.anchor_missing(rule6, "PackageGraph::add_package call in Server::assemble_graph")
        return
    # V7: every table of gleam.toml whose entries gleam fetches into build/packages is followed — a fetched package that
    # is never registered has no package of its own, its files fall to the enclosing (local) root package and become
    # renameable
    lits = set()
    for p_ in F.with_closures(ag.path):
        f_ = F.fns[p_]
        for b_, i_, s_ in f_.stmts():
            rv_ = s_.get("rv") or {}
            for key in ("op", "a", "b"):
                o_ = rv_.get(key)
                if isinstance(o_, dict) and isinstance(o_.get("k"), dict) and "str" in o_["k"]:
                    lits.add(o_["k"]["str"])
        for b_, t_ in f_.calls():
            for a_ in t_["args"]:
                if isinstance(a_.get("k"), dict) and "str" in a_["k"]:
                    lits.add(a_["k"]["str"])
    for table in MANIFEST_DEP_TABLES:
        res.ob(rule7, "assemble_graph/follows/%s" % table, "assemble_graph reads the `%s` table of gleam.toml (packages fetched for it live under "
               "build/packages and must be registered as foreign packages)" % table, table in lits, where=ag.loc(),
               how="gleam.toml keys read: %s" % sorted(x for x in lits if x.replace("-", "").isalpha() and len(x) < 20))
    names = [x.get("name") for x in ag.d.get("debug", [])]
    for i, (b, t) in enumerate(adds):
        dep = FL.depends(F, ag, d, t["args"][-1], use_bb=b)
        argn = {}
        for dbg in ag.d.get("debug", []):
            pl = dbg.get("place") or {}
            if isinstance(pl, dict) and not pl.get("p") and pl.get("l") in dep["args"]:
                argn[pl["l"]] = dbg.get("name")
        params = sorted(argn.get(a, "_%d" % a) for a in dep["args"])
        ok = params == ["root_path"] and {"packages", "build"} <= dep["strs"] and any(c.endswith("Path::ends_with") or c.endswith("Path::components") or c.endswith("Path::starts_with") for c in dep["calls"])
        res.ob(rule6, "assemble_graph/locality-from-own-path/%d" % i,
               "the `is_local` flag a package is registered with is computed from that package's own root path (its parent directories being "
               "`build/packages`) and from no other parameter", ok, where=ag.loc(t["ln"]),
               how="depends on parameters %s, path literals %s" % (params, sorted(x for x in dep["strs"] if len(x) < 20)))


def v5(F, res):
    h = F.fn("glas::handler::rename")
    hc = [f for f in F.with_closures(h.path)]
    called = False
    for p in hc:
        f = F.fns[p]
        for b, t in f.calls():
            if (callee(t) or "") == "ide::ide::Analysis::rename":
                called = True
                d = FL.Defs(f)
                o = d.origin_op(t["args"][2], FL.PASS_THROUGH + ("Deref>::deref", "::as_str"))
                base = o
                while base.get("k") == "field":
                    base = base["base"]
                projs = [e.get("n") for e in o.get("proj", [])] if o.get("k") == "field" else []
                ok = "new_name" in projs and base.get("k") in ("arg", "field", "unknown", "multi", "call")
                res.ob("V5", "handler/new-name-forwarded",
                       "handler::rename passes params.new_name unchanged to Analysis::rename",
                       ok, where=f.loc(t["ln"]), how="argument is field path %s" % projs)
    if not called:
        res.anchor_missing("V5", "call of ide::ide::Analysis::rename in glas::handler::rename")
    cap = F.fn("glas::capabilities::negotiate_capabilities")
    found = False
    for b, i, s in cap.stmts():
        rv = s.get("rv")
        if rv and rv["k"] == "agg" and rv.get("agg") == "adt" and rv["adt"].endswith("RenameOptions"):
            idx = rv["fields"].index("prepare_provider")
            d = FL.Defs(cap)
            o = d.origin_op(rv["ops"][idx])
            val = None
            if o["k"] == "agg" and o["rv"]["variant"] == "Some":
                o2 = d.origin_op(o["rv"]["ops"][0])
                if o2["k"] == "const":
                    val = o2["c"].get("bits")
            found = True
            res.ob("V5", "capabilities/prepare-provider", "the server advertises prepareProvider: true",
                   val == "1" or val == 1, where=cap.loc(s["ln"]), how="prepare_provider = Some(%s)" % val)
    if not found:
        res.anchor_missing("V5", "RenameOptions literal in glas::capabilities::negotiate_capabilities")


def edits_only_in_local_files(F, res, rule="V8"):
    """V8: "no edit ever touches a file of a dependency". The usage search covers the whole package graph (it has to: C06/R5), and
    a dependency can use a local symbol (a package under build/packages that depends back on the root). So every TextEdit
    rename builds must sit under a test Package::is_local(..) == true of the package of the *file the edit goes into* -
    the locality gate on the definition (V3) says nothing about where the uses are."""
    rn = F.fn(RENAME)
    fam = [RENAME] + sorted(p_ for p_ in F.fns if p_.startswith(RENAME + "::{closure") and F.fns[p_].blocks)
    sites = []
    for q in fam:
        g = F.fns[q]
        for b, i, s in g.stmts():
            rv = s.get("rv") or {}
            if rv.get("k") == "agg" and rv.get("agg") == "adt" and (rv.get("adt") or "").endswith("TextEdit"):
                sites.append((q, b, s["ln"]))
    res.floor("TextEdit construction sites in rename", len(sites), 1)

    def gated(q, b):
        g = F.fns[q]
        d = FL.Defs(g)
        for gt in FL.gates(F, g, [b], d):
            if (gt.get("callee") or "").endswith(LOCAL_TESTS) and gt["allowed"] == [True]:
                dep = FL.depends(F, g, d, gt["call_t"]["args"][0])
                # the test on the definition's own module (V3) is another one: this one is about the file a use was found in
                if "Definition::module" not in dep["calls"]:
                    return True
        return False
    n_ok = 0
    for q, b, ln in sites:
        ok = False
        cur, blk = q, b
        for _ in range(4):
            if gated(cur, blk):
                ok = True
                break
            par = F.fns[cur].d.get("direct_parent")
            if cur == RENAME or par not in F.fns:
                break
            nb = None
            for b2, i2, s2 in F.fns[par].stmts():
                rv2 = s2.get("rv") or {}
                if rv2.get("k") == "agg" and rv2.get("closure") == cur:
                    nb = b2
            if nb is None:
                break
            cur, blk = par, nb
        n_ok += ok
        res.ob(rule, "edit-in-local-file/%d" % sites.index((q, b, ln)), "the TextEdit built here goes into a file whose own package was tested to be local",
               ok, where=rn.loc(ln), how="a Package::is_local(..) == true test on the file's package encloses the construction" if ok else
               "no locality test of the edited file's package between the usage search and this edit (only the definition's package is tested)")


def locality_comes_from_the_registered_path(F, res, rule="V9", rule10="V10"):
    """V9/V10: `is_local` is what every locality gate reads (V3, V8). It is decided in Server::assemble_graph from the *shape* of
    the package's root path (<..>/build/packages/<dep> is a dependency), and the files are dealt to the roots in
    Server::lower_vfs by longest matching prefix. Both steps are part of "no edit ever touches a file of a dependency":
      V9  the flag handed to add_package depends on the text of the path only: on no call that asks the file system
          (canonicalize, read_link, metadata ..): a dependency reached through a symbolic link would lose its shape and become local;
      V10 lower_vfs tries the roots longest first (a sort by length, or a max_by_key over the matching ones): with another order
          an enclosing project's root swallows build/packages/<dep> of a project nested in it, and the dependency's files belong
          to a local package."""
    ag = F.fn("glas::server::Server::assemble_graph")
    d = FL.Defs(ag)
    FSCALLS = ("canonicalize", "read_link", "metadata", "symlink_metadata", "exists", "try_exists", "is_dir", "is_file", "is_symlink", "read_dir")
    adds = [(b, t) for b, t in ag.calls() if (callee(t) or "").endswith("PackageGraph::add_package")]
    okp, why = bool(adds), []
    for b, t in adds:
        dep = FL.depends(F, ag, d, t["args"][-1])
        fs = sorted(c for c in dep["calls"] if c.rsplit("::", 1)[-1] in FSCALLS or c.startswith("fs::"))
        if fs:
            okp = False
            why.append("is_local at line %d depends on %s" % (t["ln"], fs))
    res.ob(rule, "assemble_graph/locality-from-path-text", "the is_local flag of a package is computed from the text of its root path alone (no call "
           "that resolves links or asks the file system takes part)", okp, where=ag.loc(), how="; ".join(why) or "%d add_package sites, flag depends on path text only" % len(adds))
    lv = F.fn("glas::server::Server::lower_vfs")
    dl = FL.Defs(lv)
    srt = []
    for b, t in lv.calls():
        c = FL.short(callee(t) or callee_def(t) or "").rsplit("::", 1)[-1]
        if c in ("sort_by_key", "sort_by", "sort_unstable_by_key", "sort_unstable_by", "sort_by_cached_key", "max_by_key", "min_by_key", "max_by"):
            # the key of the order is a length
            lens = False
            for ta in (t.get("fn") or {}).get("targs", []) or []:
                for cp in F.closures_of(lv.path):
                    sp = F.fns[cp].d.get("span") or {}
                    if ("%s:" % sp.get("lo")) in ta or str(sp.get("lo")) in ta:
                        lens = lens or any(FL.short(callee(t2) or callee_def(t2) or "").rsplit("::", 1)[-1] in ("len", "count") for _b2, t2 in F.fns[cp].calls())
            if lens:
                srt.append(b)
    # the loop that deals the files (the insertion into a FileSet) comes after the ordering
    ins = [b for b, t in lv.calls() if (callee(t) or "").endswith("FileSet::insert")]
    ok10 = bool(srt) and bool(ins) and all(any(lv.dominates(s_, i) for s_ in srt) or any(lv.can_reach(h, [s_]) for s_ in srt for h in [i] if False) for i in ins)
    # max_by_key form: the chosen root originates from the selection itself
    res.ob(rule10, "lower_vfs/longest-root-first", "lower_vfs orders (or selects) the candidate roots by their length before it deals a file to the first "
           "match", ok10, where=lv.loc(), how="orderings by a length: %d, FileSet insertions: %d, each after one: %s" % (len(srt), len(ins), ok10))


def module_locality_implies_package_locality(F, res, rule="V11"):
    """V11: the gates of V3/V8 may ask hir::Module::is_local instead of Package::is_local. That test has to be at least as
    strict: its answer depends on Package::is_local of the module's own package (so a module of a dependency is never local),
    and it may only add refusals - here: a file below a `build/packages` directory is not local whatever the package graph
    says (a package there that no gleam.toml lists has no entry in the graph and would count as part of the enclosing
    local package)."""
    p = "ide::def::hir::Module::is_local"
    if p not in F.fns:
        res.ob(rule, "module-is-local", "the locality gates look at the file, not only at its package: a file below build/packages whose package is not in "
               "the package graph (a stale download, a dependency of a path dependency, an unreadable gleam.toml) belongs to the enclosing local "
               "source root and would be edited", False, where="crates/ide/src/def/hir.rs", how="hir::Module::is_local does not exist: the gates ask Package::is_local alone")
        return
    # every locality gate of rename asks the per-module test
    direct = []
    for q in sorted(F.fns):
        if q.startswith("ide::ide::rename::") and F.fns[q].blocks:
            for b, t in F.fns[q].calls():
                if (callee(t) or "").endswith("Package::is_local"):
                    direct.append("%s line %d" % (FL.short(q), t["ln"]))
    res.ob(rule, "rename-asks-the-module", "rename and prepare_rename ask Module::is_local (package and path), never Package::is_local alone", not direct,
           where="crates/ide/src/ide/rename.rs", how="direct Package::is_local calls: %s" % direct)
    f = F.fn(p)
    d = FL.Defs(f)
    # the path test may live in a private helper of the module (`lies_in_build_packages(path)`): it takes part in what follows
    UNIT = [q for q in F.with_helpers(p, depth=1, stop=("ide::def::hir::Package::", "ide::def::hir::Module::package", "ide::base::"))
            if q == p or q.startswith(p + "::") or (q.startswith("ide::def::hir::") and "Package::" not in q and "Module::" not in q) or
            (q.startswith("ide::def::hir::Module::") and F.fns[q].d.get("vis") != "pub" and q != p)]
    # ... or be handed over as a function item: `.map_or(false, lies_in_build_packages)`
    for q in list(UNIT):
        for _b, t in F.fns[q].calls():
            for a in t["args"]:
                k = a.get("k") if isinstance(a, dict) else None
                if isinstance(k, dict) and "fn" in k:
                    tg = k["fn"].get("res") or k["fn"].get("def") or ""
                    if tg.startswith("ide::def::hir::") and tg in F.fns and F.fns[tg].blocks and tg not in UNIT:
                        UNIT += [tg] + [c for c in F.closures_of(tg) if c in F.fns]
    dep = {"calls": set(), "strs": set(), "args": set()}
    for b in f.return_blocks():
        pass
    # the returned bool: every assignment to _0
    for b, i, s in f.stmts():
        if s["k"] == "assign" and s["place"]["l"] == 0 and not s["place"]["p"]:
            rv = s["rv"]
            for key in ("op", "a", "b"):
                if isinstance(rv.get(key), dict):
                    x = FL.depends(F, f, d, rv[key], use_bb=b)
                    for k in dep:
                        dep[k] |= x[k]
            # a constant `false`/`true` assigned under a branch depends on what the branch tests
            for gb, _v in FL.edge_conditions(f, [b]):
                x = FL.depends(F, f, d, f.term(gb)["op"])
                for k in dep:
                    dep[k] |= x[k]
    for b, t in f.calls():
        if t["dest"]["l"] == 0 and not t["dest"]["p"]:
            dep["calls"].add(FL.short(callee(t) or callee_def(t) or ""))
            for a in t["args"]:
                x = FL.depends(F, f, d, a)
                for k in dep:
                    dep[k] |= x[k]
    pkg = any(c.endswith("Package::is_local") for c in dep["calls"])
    own = any(c.endswith("Module::package") or c.endswith("file_source_root") for c in dep["calls"])
    strs = set(dep["strs"])
    for cp in UNIT:
        cf = F.fns[cp]
        for _b, _i, s_ in cf.stmts():
            rv = s_.get("rv") or {}
            for o in [rv.get("op"), rv.get("a"), rv.get("b")] + list(rv.get("ops", []) or []):
                if isinstance(o, dict) and isinstance(o.get("k"), dict) and "str" in o["k"]:
                    strs.add(o["k"]["str"])
        for _b, t in cf.calls():
            for a in t["args"]:
                if isinstance(a, dict) and isinstance(a.get("k"), dict) and "str" in a["k"]:
                    strs.add(a["k"]["str"])
    # the path test looks at the whole path of the file: nothing cuts a prefix off before (a test on the part below the module's
    # own source root misses a fetched package that *is* a source root of its own - `<app>/build/packages/dep` registered as a root
    # without an entry in the package graph)
    shortened = sorted({FL.short(c) for cp in UNIT for _b, t in F.fns[cp].calls()
                        for c in [callee(t) or callee_def(t) or ""] if c.rsplit("::", 1)[-1] in ("strip_prefix", "file_name", "skip", "nth", "last", "root_path")})
    res.ob(rule, "module-is-local/whole-path", "Module::is_local tests the file's whole path for a build/packages directory (no prefix is stripped first)",
           not shortened, where=f.loc(), how="calls that shorten or re-base the path: %s" % shortened)
    # the directory is looked for component by component (Path::ancestors / components / ends_with / starts_with): a test on the path
    # as text (`contains`, `find`, `matches`) also fires on src/build/packages.gleam and on my-build/packages-old/
    textual = sorted({FL.short(c) for cp in UNIT for _b, t in F.fns[cp].calls()
                      for c in [callee(t) or callee_def(t) or ""]
                      if c.rsplit("::", 1)[-1] in ("contains", "find", "rfind", "matches", "match_indices", "split", "starts_with", "ends_with", "to_str",
                                                    "to_string_lossy", "to_string", "display") and
                      ("str::" in c or c.startswith("str") or "Path::to_str" in c or "to_string" in c or "Path::display" in c)})
    res.ob(rule, "module-is-local/by-component", "Module::is_local looks for the build/packages directory among the components of the path, not in its text",
           not textual, where=f.loc(), how="textual operations on the path: %s" % textual)
    paths = sorted(x for x in strs if "build/packages" in x.replace("\\", "/"))
    res.ob(rule, "module-is-local", "hir::Module::is_local answers from Package::is_local of the module's own package and from the file's path (below "
           "build/packages = fetched dependency); it can only refuse more than the package flag", pkg and own and bool(paths), where=f.loc(),
           how="answer depends on Package::is_local: %s, on the module's own package: %s; path literals tested: %s" % (pkg, own, paths))


# Gleam's name classes (the oracle, like the precedence table of C04/G1): lowercase names are [a-z][a-z0-9_]*, discard names
# start with `_`, uppercase names are [A-Z][A-Za-z0-9]* - no underscore. One lexeme per interesting shape.
NAME_LEXEMES = {
    "IDENT": ["a", "abc", "snake_case_1", "x9", "a_"],
    "U_IDENT": ["A", "Foo", "FooBar9", "X1y"],
    "DISCARD_IDENT": ["_", "_x", "_unused_1"],
    "BAD_IDENT": ["fooBar", "aB", "get_X"],
    "BAD_U_IDENT": ["Foo_bar", "Z_1", "Zed_x", "A_"],
}


def name_classes_of_the_lexer(F, res, rule="V12"):
    """V12: rename accepts a new name when it is exactly one token of the class the symbol needs, so the classes are whatever
    the lexer's table says. Evaluated on an oracle list: every well-formed lowercase / uppercase / discard name is one token
    of its class, and every ill-formed one (camelCase for a value, an underscore inside a type name) is one token of the
    corresponding BAD_ class - never of a valid class (maximal munch over the #[regex] table of SyntaxKind; on a tie a rule
    with `priority = 0` loses, as in logos). A U_IDENT rule that swallows `_` makes `Zed_x` a valid new name for a type."""
    import re as _re
    va = F.units["syntax-rlib"].get("variant_attrs", [])
    pats = {}
    for e, v, txt in va:
        if e != "SyntaxKind":
            continue
        m = _re.search(r'#\[regex[\(\[]\s*r?#*"(.*?)"#*\s*(?:,\s*(.*?))?[\)\]]\]$', txt)
        if m:
            pats.setdefault(v, []).append((m.group(1).replace("\\\\", "\\"), "priority" in (m.group(2) or "") and _re.search(r"priority\s*=\s*0\b", m.group(2) or "") is not None))
    if not all(k in pats for k in ("IDENT", "U_IDENT")):
        res.anchor_missing(rule, "#[regex] rules of IDENT / U_IDENT")
        return
    n = 0
    for kind, lexemes in sorted(NAME_LEXEMES.items()):
        for lx in lexemes:
            best = {}
            for k, ps in pats.items():
                for p_, low in ps:
                    try:
                        m = _re.match(p_, lx)
                    except _re.error:
                        continue
                    if m and len(m.group(0)) > 0:
                        cur = best.get(k)
                        if cur is None or len(m.group(0)) > cur[0]:
                            best[k] = (len(m.group(0)), low)
            top = max((v[0] for v in best.values()), default=0)
            winners = {k: v for k, v in best.items() if v[0] == top}
            if len(winners) > 1 and any(not v[1] for v in winners.values()):
                winners = {k: v for k, v in winners.items() if not v[1]}
            n += 1
            # ties with kinds that are no name classes (`_` is also matched by the digits-and-underscores rule) are logos' business;
            # among the name classes the winner must be the expected one
            ok = top == len(lx) and set(winners) & set(NAME_LEXEMES) == {kind}
            res.ob(rule, "name/%s/%s" % (kind, lx), "`%s` is lexed as one %s token" % (lx, kind), ok, where="crates/syntax/src/kind.rs",
                   how="longest match %d of %d characters by %s" % (top, len(lx), sorted(winners)))
    res.floor("oracle names classified", n, 15)
