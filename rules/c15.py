"""C15 — No message sequence can take the server down (panic reachability on the unguarded main loop, typestate of forgotten files)."""
from lib.report import lookup_reviewed as RP_lookup
from lib.inventory import guards_hold
from lib import flow as FL
from lib import panics as PN
from lib import report as R
from lib import locks as LK
from lib.facts import callee, callee_def, op_place, op_local

META = {
    "level": "other",
    "technique": "static analysis: call-graph reachability of panic-capable constructs from the unguarded notification/event handlers, with mechanical discharge rules and a reviewed-instances table; use-after-forget typestate; must-pass-through on the failure edge; who-registers-what for the panic guard",
    "rule": "M1 every panic-capable construct (unwrap/expect, indexing, slicing, asserting library APIs, MIR overflow/bounds "
            "asserts, explicit panics) reachable from a notification or event handler - which run on the main loop without a panic "
            "guard - is discharged by a stated rule, matches a reviewed entry, or is reported; M2 a FileId is not used after the "
            "document was forgotten; M3 an unappliable edit forgets the document and is not applied; M4 every request route except "
            "the lifecycle ones goes through request_snap, whose task body is with_catch_unwind and which answers from one await; M5 no "
            "handler re-acquires a lock it holds or waits for the analysis host while holding the document store (shared with C16/W1). "
            "One obligation per site. Verifier-style: a new unjustified site is reported. M7 a self-recursive function reachable from the handlers is cut by a visited set that is asked with the key it is filled with. M8 = C13/D8; the response future of a request is an entry of M1. M12 every disk read of the server library is length-limited (the reviewed `Text too long` expect). M11 = C13/D2 (each change of a notification is converted with the line map of the text after the previous one: else a valid later change is applied somewhere else). M10 lower_vfs deals a file to a root only behind a prefix test (the invariant the reviewed strip_prefix(..).expect(..) of module_name relies on). M9 = C10/Q9 (a request that walks 2^depth steps keeps its snapshot and the next edit blocks the main loop for ever). M14/M15 = C10 Q14/Q15 (the same, for the two exponential walks of the inferencer).",
    "explanation": "The main loop has no CatchUnwindLayer (lib.rs: TODO), so any panic in a notification/event handler ends the "
                   "process. Engine G lists every panic-capable construct reachable from those handlers through crates glas and ide "
                   "(closures handed to spawn functions run elsewhere and are cut), and demands a justification for each. The "
                   "check rejects what it cannot justify, like a borrow checker; the reviewed table keeps today's tree exact. M20 = C14 U12 (engine U: String::drain / slicing at a non-byte count panics on the unguarded main loop).",
    "not_decided": "panics deep inside dependencies that the asserting-API table does not list; protocol-level liveness; files vanishing from disk (I/O).",
    "trusted_base": ["the asserting-API table in lib/panics.py (read from the sources in the cargo registry)", "rustc MIR + callee resolution",
                     "tokio catches panics of spawned tasks; with_catch_unwind catches panics of request tasks"],
    "assumptions": ["calls into dependencies that are not in the asserting-API table do not panic"],
}

S = "glas::server::Server::"
ENTRIES = ["on_did_open", "on_did_close", "on_did_change", "on_did_save", "on_did_change_configuration",
           "on_did_change_watched_files", "on_initialized", "on_set_package_graph", "on_update_config", "on_update_diagnostics"]
SPAWN = lambda c: "tokio::task" in c or c.endswith("spawn_with_snapshot") or "spawn_blocking" in c or c.endswith("::spawn") or "thread::spawn" in c  # noqa: E731


def unguarded_reach(F, entries):
    cg = F.callgraph()
    det = set()
    for p, f in F.fns.items():
        if p.startswith("glas::") and f.blocks:
            det |= PN.detached_closures(F, f, SPAWN)
    # closures nested inside detached closures
    more = True
    while more:
        more = False
        for p in list(F.fns):
            par = F.fns[p].d.get("direct_parent")
            if F.fns[p].kind == "Closure" and par in det and p not in det:
                det.add(p)
                more = True
    seen = {}
    st = []
    for e in entries:
        if e in F.fns and e not in det:
            seen[e] = None
            st.append(e)
    while st:
        p = st.pop()
        for c in sorted(cg.get(p, ())):
            if c in det or c in seen:
                continue
            seen[c] = p
            st.append(c)
    return seen, det


def discharge(F, f, b, kind, detail, defs):
    t = f.term(b)
    mac = t.get("mac") or []
    if any("tracing" in m or "event!" in m or "level_enabled" in m or "log!" in m or "$crate::log" in m for m in mac):
        return "tracing/log macro expansion: static call-site metadata (FieldSet lookups cannot fail)"
    if kind == "assert" and detail in ("MisalignedPointerDereference", "NullPointerDereference"):
        return "pointer check rustc inserts in debug builds on a pointer it has just obtained from the allocator (vec!/Box expansion)"
    if kind == "assert" and detail in ("ResumedAfterPanic", "ResumedAfterReturn"):
        return "coroutine state check generated by rustc; unreachable unless the future is polled after completion"
    if kind == "api" and detail in ("Result::unwrap", "Result::expect"):
        o = defs.origin_op(t["args"][0])
        if o.get("k") == "call" and LK.acquisition(o["t"]):
            return "lock poisoning only: the lock is poisoned only if a thread panicked while holding a write/mutex guard, i.e. after another violation"
    if kind == "api" and detail == "TextRange::new":
        for g in FL.gates(F, f, [b], defs):
            if (g.get("call_def") or "").endswith(("PartialOrd::le", "PartialOrd::lt", "PartialOrd::ge", "PartialOrd::gt")):
                return "dominated by an ordering check of its two arguments (start <= end)"
    if kind == "api" and detail in ("Option::unwrap", "Option::expect"):
        o = defs.origin_op(t["args"][0], ("Option::<T>::and_then", "Option::<T>::map"))
        if o.get("k") == "call":
            src = callee(o["t"])
            recv = defs.origin_op(o["t"]["args"][0]).get("l") if o["t"]["args"] else None
            for g in FL.gates(F, f, [b], defs):
                c = g.get("callee") or ""
                ok_pol = (c.endswith("Option::<T>::is_none") and g["allowed"] == [False]) or \
                         (c.endswith("Option::<T>::is_some") and g["allowed"] == [True])
                if ok_pol:
                    q = defs.origin_op(g["call_t"]["args"][0])
                    if q.get("k") == "call" and callee(q["t"]) == src and \
                            (defs.origin_op(q["t"]["args"][0]).get("l") if q["t"]["args"] else None) == recv:
                        return "dominated by a test that the same query (%s on the same value) is Some" % FL.short(src)
    if kind == "assert" and detail == "Overflow":
        why = _counter_increment(F, f, b, t, defs)
        if why:
            return why
    if kind == "assert" and detail == "Overflow":
        why = _offset_plus_char_len(F, f, b, t, defs)
        if why:
            return why
    if kind == "api" and detail == "String::drain":
        why = _drain_of_a_tested_prefix(F, f, b, t, defs)
        if why:
            return why
    if kind == "api" and detail == "Vec::remove":
        why = _remove_at_found_position(F, f, b, t, defs)
        if why:
            return why
    if kind == "api" and detail == "Index::index[str]":
        gs = FL.gates(F, f, [b], defs)
        if any((g.get("callee") or "").endswith("str::is_char_boundary") and g["allowed"] == [True] for g in gs) and \
                any((g.get("call_def") or "").endswith(("PartialOrd::le", "PartialOrd::ge")) for g in gs):
            return "slicing dominated by a length check and by is_char_boundary checks of the offsets"
    return None


def _offset_plus_char_len(F, f, b, t, defs):
    """`offset + c.len_utf8()` where offset is the position char_indices() gave for a character of a str, or a sum of len_utf8() of
    characters of one str counted up from 0: a str is at most isize::MAX bytes long, a character at most 4 - no usize overflow"""
    co = defs.origin_op(t["cond"]) if "cond" in t else {}
    base = co
    while base.get("k") == "field":
        base = base["base"]
    if not (base.get("k") == "rv" and base["rv"]["k"] == "bin" and base["rv"]["op"] == "AddWithOverflow"):
        return None
    rv = base["rv"]
    sides = [rv["a"], rv["b"]]

    def is_char_len(op):
        o = defs.origin_op(op) if isinstance(op, dict) and "k" not in op else {}
        return o.get("k") == "call" and (callee(o["t"]) or callee_def(o["t"]) or "").endswith("char::len_utf8")
    lens = [x for x in sides if is_char_len(x)]
    if len(lens) != 1:
        return None
    other = sides[0] if sides[1] is lens[0] else sides[1]
    pl = op_place(other) if isinstance(other, dict) else None
    if pl is None or f.local_ty(pl["l"]) != "usize":
        return None
    o = defs.origin_op(other)
    bo = o
    while bo.get("k") == "field":
        bo = bo["base"]
    if bo.get("k") == "call":
        full = ((bo["t"].get("fn") or {}).get("full") or "") + " " + " ".join(str(x) for x in ((bo["t"].get("fn") or {}).get("targs") or []))
        if "CharIndices" in full and (callee_def(bo["t"]) or callee(bo["t"]) or "").endswith(("Iterator::next", "Iterator::find", "Iterator::last")) and "Enumerate" not in full:
            return "a character's byte offset in a str (from char_indices) plus its UTF-8 length: at most isize::MAX + 4"
    # an accumulator: every definition is `= 0` or `= itself + len_utf8()`
    l = pl["l"]
    for _ in range(4):
        dd = defs.whole_defs(l)
        if len(dd) == 1 and dd[0][2] == "assign" and dd[0][3]["rv"]["k"] == "use" and op_place(dd[0][3]["rv"]["op"]) is not None \
                and not op_place(dd[0][3]["rv"]["op"])["p"]:
            l = op_place(dd[0][3]["rv"]["op"])["l"]
        else:
            break
    seen_add = False
    for dd in defs.whole_defs(l):
        if dd[2] != "assign":
            return None
        r2 = dd[3]["rv"]
        if r2["k"] == "use" and isinstance(r2["op"].get("k"), dict) and str(r2["op"]["k"].get("bits")) == "0":
            continue
        o2 = defs.origin_rv(r2, None, dd[0], 0, ())
        b2 = o2
        while b2.get("k") == "field":
            b2 = b2["base"]
        if b2.get("k") == "rv" and b2["rv"].get("op") == "AddWithOverflow":
            pa, pb = (op_place(b2["rv"][k_]) if isinstance(b2["rv"][k_], dict) else None for k_ in ("a", "b"))
            if (pa is not None and pa["l"] == l and not pa["p"] and is_char_len(b2["rv"]["b"])) or \
                    (pb is not None and pb["l"] == l and not pb["p"] and is_char_len(b2["rv"]["a"])):
                seen_add = True
                continue
        return None
    if seen_add and sum(1 for _b, tt in f.calls() if (callee(tt) or callee_def(tt) or "").endswith("str::chars")) == 1:
        return "a sum of UTF-8 lengths of characters of one str, counted up from 0: at most the length of the str (<= isize::MAX)"
    return None


def _remove_at_found_position(F, f, b, t, defs):
    """`v.remove(i)` where i is what `v.iter().position(..)` (or find_position) just answered for the same vector and nothing in
    between can have changed it: the index is in bounds"""
    if len(t["args"]) < 2:
        return None
    o = defs.origin_op(t["args"][1], ("Try>::branch",))
    bo = o
    for _ in range(3):
        while bo.get("k") == "field":
            bo = bo["base"]
        if bo.get("k") == "call" and (callee_def(bo["t"]) or callee(bo["t"]) or "").endswith("Try::branch") and bo["t"]["args"]:
            bo = defs.origin_op(bo["t"]["args"][0])
        else:
            break
    while bo.get("k") == "field":
        bo = bo["base"]
    if bo.get("k") != "call":
        return None
    nm = (callee_def(bo["t"]) or callee(bo["t"]) or "").rsplit("::", 1)[-1]
    if nm not in ("position", "find_position"):
        return None
    # the vector searched and the vector removed from: the same local (through refs, deref and iter)
    def root(op):
        cur = op
        for _ in range(8):
            oo = defs.origin_op(cur, ("Deref>::deref", "DerefMut>::deref_mut", "::iter", "IntoIterator>::into_iter", "::as_slice", "::as_mut_slice"))
            if oo.get("k") == "rv" and oo["rv"]["k"] == "ref":
                pl = oo["rv"]["place"]
                if pl["p"] in ([], ["*"]):
                    if not pl["p"]:
                        return pl["l"]
                    cur = {"cp": {"l": pl["l"], "p": []}}
                    continue
                return None
            if oo.get("k") in ("arg",):
                return ("arg", oo["n"])
            if oo.get("k") == "local":
                return oo.get("l")
            return oo.get("l") if oo.get("k") == "unknown" else None
        return None
    r1, r2 = root(bo["t"]["args"][0]), root(t["args"][0])
    if r1 is None or r1 != r2:
        return None
    pb = bo["bb"]
    if not f.dominates(pb, b):
        return None
    # no other call between the search and the removal takes the vector mutably
    for b2, t2 in f.calls():
        if b2 in (b, pb) or not (f.can_reach(pb, [b2]) and f.can_reach(b2, [b])):
            continue
        for a in t2["args"]:
            oa = defs.origin_op(a) if isinstance(a, dict) and "k" not in a else {}
            if oa.get("k") == "rv" and oa["rv"]["k"] == "ref" and oa["rv"].get("mut") and root(a) == r1:
                return None
    return "the index was just answered by %s over the same vector and nothing between the search and the removal changes it" % nm


def _drain_of_a_tested_prefix(F, f, b, t, defs):
    """`text.drain(..k)` with a constant k behind a test that the text starts with a constant pattern of exactly k bytes
    (`starts_with(c)` true / `strip_prefix(c)` Some): k is in bounds and on a character boundary"""
    if len(t["args"]) < 2:
        return None
    o = defs.origin_op(t["args"][1])
    if o.get("k") != "agg" or not str(o["rv"].get("adt") or "").endswith("RangeTo") or len(o["rv"].get("ops") or []) != 1:
        return None

    def const_of(op):
        k = op.get("k") if isinstance(op, dict) else None
        if not isinstance(k, dict):
            oo = defs.origin_op(op) if isinstance(op, dict) else {}
            k = oo.get("c") if oo.get("k") == "const" else None
        return k if isinstance(k, dict) else None
    ke = const_of(o["rv"]["ops"][0])
    if ke is None or "bits" not in ke:
        # `'\u{feff}'.len_utf8()` of a constant character
        oe = defs.origin_op(o["rv"]["ops"][0])
        if oe.get("k") == "call" and (callee(oe["t"]) or callee_def(oe["t"]) or "").endswith("char::len_utf8"):
            kc = const_of(oe["t"]["args"][0])
            if kc is not None and kc.get("ty") == "char":
                ke = {"bits": len(chr(int(kc["bits"])).encode("utf-8"))}
    if ke is None or "bits" not in ke:
        return None
    end = int(ke["bits"])
    for g in FL.gates(F, f, [b], defs):
        c = g.get("callee") or ""
        ct = g.get("call_t")
        if ct is None or len(ct["args"]) < 2:
            continue
        ok_pol = (c.endswith("str::starts_with") and g["allowed"] == [True]) or (c.endswith("str::strip_prefix") and g["allowed"] in (["Some"], [True]))
        if not ok_pol:
            continue
        kp = const_of(ct["args"][1])
        if kp is None:
            continue
        n = None
        if kp.get("ty") == "char" and "bits" in kp:
            n = len(chr(int(kp["bits"])).encode("utf-8"))
        elif isinstance(kp.get("str"), str):
            n = len(kp["str"].encode("utf-8"))
        if n == end:
            return "the %d bytes drained are the constant prefix the text was just tested to start with" % end
    return None


def _counter_increment(F, f, b, t, defs):
    """`n += 1` on a usize counter that starts at 0 and is only ever incremented, inside a loop driven by an iterator:
    the loop would need 2^64 iterations over items that exist in memory"""
    co = defs.origin_op(t["cond"]) if "cond" in t else {}
    base = co
    while base.get("k") == "field":
        base = base["base"]
    if not (base.get("k") == "rv" and base["rv"]["k"] == "bin" and base["rv"]["op"] == "AddWithOverflow"):
        return None
    rv = base["rv"]
    kb = rv["b"].get("k") if isinstance(rv["b"], dict) else None
    pa = op_place(rv["a"]) if isinstance(rv["a"], dict) else None
    if not (isinstance(kb, dict) and str(kb.get("bits")) == "1" and pa is not None):
        return None
    # a 64-bit counter that is read from a field, counted up by one and written back (a generation / sequence number): one step per
    # event the process handles; 2^64 events do not happen in the lifetime of a process
    if isinstance(kb, dict) and kb.get("ty") == "u64" and pa["p"] and any(isinstance(e, dict) and "f" in e for e in pa["p"]):
        return "increment by one of a u64 sequence number kept in a field (2^64 steps are out of reach for a running process)"
    # chase copies back to the counter variable
    l = pa["l"]
    for _ in range(4):
        dd = defs.whole_defs(l)
        if len(dd) == 1 and dd[0][2] == "assign" and dd[0][3]["rv"]["k"] == "use" and op_place(dd[0][3]["rv"]["op"]) is not None \
                and not op_place(dd[0][3]["rv"]["op"])["p"]:
            l = op_place(dd[0][3]["rv"]["op"])["l"]
        else:
            break
    if f.local_ty(l) != "usize":
        return None
    for dd in defs.whole_defs(l):
        if dd[2] != "assign":
            return None
        r2 = dd[3]["rv"]
        if r2["k"] == "use" and isinstance(r2["op"].get("k"), dict) and str(r2["op"]["k"].get("bits")) == "0":
            continue                                    # = 0
        o2 = defs.origin_rv(r2, None, dd[0], 0, ())
        b2 = o2
        while b2.get("k") == "field":
            b2 = b2["base"]
        if b2.get("k") == "rv" and b2["rv"].get("op") == "AddWithOverflow":
            k3 = b2["rv"]["b"].get("k") if isinstance(b2["rv"]["b"], dict) else None
            p3 = op_place(b2["rv"]["a"]) if isinstance(b2["rv"]["a"], dict) else None
            if isinstance(k3, dict) and str(k3.get("bits")) == "1" and p3 is not None and p3["l"] == l and not p3["p"]:
                continue                                # = counter + 1 (this or another increment of the same counter)
        return None
    for tl, hd in f.back_edges():
        body = f.natural_loop(tl, hd)
        if b not in body:
            continue
        for x in body:
            tx = f.term(x)
            if tx["k"] == "call" and FL.short(callee(tx) or callee_def(tx)).endswith("Iterator::next"):
                return "increment of a usize counter that starts at 0, once per item of an iterator (2^64 in-memory items are impossible)"
    return None


def run(F, res, tier):
    from rules import c14 as _c14u
    _c14u.text_positions_are_counted_in_bytes(F, res, rule="M20", crates=('glas',))   # engine U: String::drain / slicing at a non-byte count panics on the unguarded main loop
    reviewed = R.load_reviewed().get("C15", {})
    from lib.inventory import Inventory
    INV = Inventory(F, reviewed, "M1/", discharged=lambda f_, b_, k_, dt_, df_: discharge(F, f_, b_, k_, dt_, df_))
    entries = [S + e for e in ENTRIES]
    for e in entries:
        if e not in F.fns:
            res.anchor_missing("M1", e)
    # the response future of a request (request_snap's async block, and the closure that spawns the task) is polled by the main loop
    # itself: what it calls after the guarded task has finished (error_to_response, ..) runs unguarded too
    entries += sorted(p for p in F.fns if p.startswith("glas::server::RouterExt::request_snap::{closure"))
    seen, det = unguarded_reach(F, entries)
    res.analysed.update({"entry_points": len(entries), "reachable_functions": len(seen), "detached_task_closures": len(det)})
    res.floor("functions reachable from the unguarded handlers", len(seen), 100)
    n = 0
    for p in sorted(seen):
        f = F.fns[p]
        if not f.blocks:
            continue
        defs = None
        for b, kind, detail, ln, key, exp in PN.sites_in(f):
            n += 1
            if defs is None:
                defs = FL.Defs(f)
            full = "%s/%s" % (p, key)
            why = discharge(F, f, b, kind, detail, defs)
            path = " <- ".join(x.rsplit("::", 1)[-1] for x in reversed(F.path_to(seen, p)[-4:]))
            desc = "the %s (%s) at this site cannot fire for any client message" % (kind, detail)
            if why:
                res.ob("M1", full, desc, True, where=f.loc(ln), how="discharged: " + why)
                continue
            rv = RP_lookup(reviewed, "M1/" + full, FL.guard_signature(F, f, b, defs))
            if rv:
                guards = FL.guard_signature(F, f, b, defs)
                if guards_hold(rv.get("guards", []), guards, {v.get("name") for v in (f.d.get("debug") or [])}):
                    res.ob("M1", full, desc, True, where=f.loc(ln), how="reviewed: %s [guards: %s]" % (rv["reason"], guards), reviewed=True)
                elif INV.renumbered(f, key.rsplit("/", 1)[0], guards):
                    res.ob("M1", full, desc, True, where=f.loc(ln), reviewed=True,
                           how="reviewed under another ordinal of the same function (a site was added or removed before it); its recorded conditions hold here")
                else:
                    res.ob("M1", full, desc, False, where=f.loc(ln),
                           how="the conditions guarding this reviewed site changed since it was reviewed: now %s, reviewed with %s (reason then: %s)"
                           % (guards, rv.get("guards", []), rv["reason"]))
                continue
            rn = INV.renumbered(f, key.rsplit("/", 1)[0], FL.guard_signature(F, f, b, defs))
            if rn:
                res.ob("M1", full, desc, True, where=f.loc(ln), reviewed=True,
                       how="reviewed under another ordinal of the same function; its recorded conditions hold here: " + rn["reason"])
                continue
            mv, mv_from = INV.moved(f, b, key.rsplit("/", 1)[0], FL.guard_signature(F, f, b, defs))
            if mv:
                res.ob("M1", full, desc, True, where=f.loc(ln), reviewed=True,
                       how="reviewed in %s before the code was moved here (every recorded condition still holds here or at each call of this function): %s" % (mv_from.rsplit("::", 1)[-1], mv["reason"]))
                continue
            res.ob("M1", full, desc, False, where=f.loc(ln),
                   how="panic-capable construct reachable on the unguarded main loop (%s) and neither discharged nor reviewed" % path)
    res.floor("panic-capable sites reachable from the unguarded handlers", n, 60)
    m2_m3(F, res)
    m4(F, res)
    # M5: a handler that takes the document-store lock twice, or waits for the analysis while holding it, stops answering
    from rules import c16
    c16.lock_rules(F, res, w1="M5", w3="M5")
    notifications_cannot_stop_the_loop(F, res)
    recursion_is_cut(F, res, seen)
    # a request that never ends keeps its snapshot: the next edit blocks the main loop in request_cancellation() for ever
    from rules import c10 as _c10q
    _c10q.no_double_descent(F, res, rule="M9")
    _c10q.inference_is_memoised(F, res, rule="M14")
    _c10q.same_class_is_a_no_op(F, res, rule="M15")
    _c10q.display_is_budgeted(F, res, rule="M16")   # the stack of a worker thread: an overflow there aborts the process
    _c10q.recursion_follows_nesting_not_length(F, res, rule="M18")
    _c10q.instantiation_shares_what_the_type_shares(F, res, rule="M19")
    files_lie_below_their_root(F, res)
    disk_reads_are_bounded(F, res)
    client_named_paths_are_read_as_regular_files(F, res)
    _c13x2 = __import__("rules.c13", fromlist=["x"])
    _c13x2.edits_use_the_current_line_map(F, res, rule="M11")
    from rules import c13 as _c13x
    _c13x.file_ids_are_slot_keys(F, res, rule="M8")


def m2_m3(F, res):
    h = F.fn(S + "on_did_change")
    d = FL.Defs(h)
    # M2: after a call to Vfs::remove_uri no call may use the FileId obtained before it
    rem = [b for b, t in h.calls() if callee(t) == "glas::vfs::Vfs::remove_uri"]
    from rules import c13
    units = c13.change_units(F, h)
    users = []
    for b, t in h.calls():
        c = callee(t) or ""
        if c in ("glas::vfs::Vfs::change_file_content", "glas::vfs::Vfs::line_map_for_file", "glas::vfs::Vfs::content_for_file",
                 "glas::convert::from_range") or c in units:
            users.append(b)
    # closures created in the handler that use the file id are called in the loop
    bad = [(r, u) for r in rem for u in users if h.can_reach(r, [u]) and r != u]
    res.ob("M2", "on_did_change/no-use-after-forget", "after the document was removed from the Vfs, on_did_change does not use its FileId again "
           "(line_map_for_file / change_file_content would index a freed slab slot)", bool(rem) and not bad, where=h.loc(),
           how="remove_uri sites %d, later uses reachable: %d" % (len(rem), len(bad)))
    # M3: on the failure edge both opened_files.remove and vfs.remove_uri are called
    clos = [F.fns[c] for c in units]
    apply_units = [c.path for c in clos if any(callee(t) == "glas::vfs::Vfs::change_file_content" for b, t in c.calls())]
    apply_blocks = [b for b, t in h.calls() if callee(t) == "glas::vfs::Vfs::change_file_content" or callee(t) in apply_units]
    APPLY_NAMES = {"Vfs::change_file_content"} | {FL.short(c) for c in apply_units}
    checked = False
    if rem:
        rm_open = [b for b, t in h.calls() if FL.short(callee(t) or callee_def(t)) == "HashMap::remove"]
        ok = any(h.dominates(a, r) or h.dominates(r, a) for a in rm_open for r in rem)
        # the branch that forgets the document is taken on a test of the splice's (or the per-change unit's) outcome
        for g in FL.gates(F, h, rem, d):
            ops = [g["call_t"]["args"][0]] if g.get("call_t") and g["call_t"]["args"] else []
            names = {FL.short(g.get("callee") or "")}
            tl = op_local(h.term(g["bb"]).get("op", {})) if h.term(g["bb"])["k"] == "switch" else None
            if tl is not None:
                ops.append({"cp": {"l": tl, "p": []}})
            for o in ops:
                names |= FL.depends(F, h, d, o, use_bb=g["bb"])["calls"]
            if names & APPLY_NAMES:
                checked = True
        res.ob("M3", "on_did_change/forget-on-failure", "when a change cannot be applied, the document is removed from opened_files and from the Vfs",
               ok and checked, where=h.loc(), how="opened_files.remove sites %d, the forgetting branch tests the outcome of the splice: %s" % (len(rm_open), checked))
    after_forget = [(r, a) for r in rem for a in apply_blocks if r != a and h.can_reach(r, [a])]
    res.ob("M3", "on_did_change/apply-only-in-closure", "the splice happens only in the per-change unit of work (loop body, closure or helper) whose outcome "
           "is tested, never on the path that has just forgotten the document", bool(apply_blocks) and (checked or not rem) and not after_forget, where=h.loc(),
           how="splice sites %d, outcome tested: %s, reachable after the forget: %d" % (len(apply_blocks), checked, len(after_forget)))
    # range validation (the repaired defects stay repaired)
    fr = F.fn("glas::convert::from_range")
    dfr = FL.Defs(fr)
    news = [b for b, t in fr.calls() if FL.short(callee(t) or callee_def(t)) == "TextRange::new"]
    okv = False
    for b in news:
        for g in FL.gates(F, fr, [b], dfr):
            if (g.get("call_def") or "").endswith(("PartialOrd::le", "PartialOrd::ge", "PartialOrd::lt", "PartialOrd::gt")):
                okv = True
    res.ob("M3", "from_range/start-le-end", "convert::from_range builds the TextRange only after checking start <= end", okv or not news, where=fr.loc(),
           how="ordering test dominates TextRange::new" if okv else "no ordering test before TextRange::new")
    fp = F.fn("glas::convert::from_pos")
    dfp = FL.Defs(fp)
    conv = [(b, t) for b, t in fp.calls() if callee(t) == "glas::vfs::LineMap::pos_for_line_col"]
    line_ok = col_ok = bool(conv)
    for b, t in conv:
        sig = FL.guard_signature(F, fp, b, dfp)
        if not any("LineMap::last_line" in g for g in sig):
            line_ok = False
        co = dfp.origin_op(t["args"][2])
        if not (co.get("k") == "call" and FL.short(callee(co["t"]) or callee_def(co["t"])) == "Ord::min" and
                any(dfp.origin_op(a).get("k") == "call" and (callee(dfp.origin_op(a)["t"]) or "").endswith("LineMap::end_col_for_line") for a in co["t"]["args"])):
            col_ok = False
    res.ob("M3", "from_pos/line-validated", "a client position is converted only after its line was checked against the document's last line (an edit at a "
           "line the document does not have is rejected, not applied at offset 0)", line_ok, where=fp.loc(), how="guards: %s" % [FL.guard_signature(F, fp, b, dfp) for b, t in conv])
    res.ob("M3", "from_pos/column-clamped", "a character past the end of its line is clamped to the line's end (LSP) instead of spilling into the next lines",
           col_ok, where=fp.loc(), how="column argument = min(character, end_col_for_line(line)): %s" % col_ok)
    from rules import c13 as _c13
    cf = _c13.vfs_view(F, "change_file_content")
    dcf = FL.Defs(cf)
    slices = [b for b, kind, detail, ln, key, exp in PN.sites_in(cf) if detail == "Index::index[str]"]
    okb = okl = len(slices) >= 2
    for b in slices:
        gs = FL.gates(F, cf, [b], dcf)
        if not any((g.get("callee") or "").endswith("str::is_char_boundary") and g["allowed"] == [True] for g in gs):
            okb = False
        if not any((g.get("call_def") or "").endswith(("PartialOrd::le", "PartialOrd::ge")) for g in gs):
            okl = False
    res.ob("M3", "change_file_content/length-check", "both slicings in change_file_content are dominated by the `del_range.end() <= len` check", okl,
           where=cf.loc(), how="slicing sites %d" % len(slices))
    res.ob("M3", "change_file_content/char-boundary-check", "both slicings are dominated by is_char_boundary checks of the offsets", okb,
           where=cf.loc(), how="slicing sites %d" % len(slices))
    sv = F.fn(S + "set_vfs_file_content")
    dsv = FL.Defs(sv)
    unwraps = [b for b, t in sv.calls() if FL.short(callee(t) or callee_def(t)) in ("Option::unwrap", "Option::expect")
               and not t.get("exp")]
    okp = bool(unwraps)
    for b in unwraps:
        gs = FL.gates(F, sv, [b], dsv)
        def from_as_path(g):
            if not g.get("call_t") or not g["call_t"]["args"]:
                return False
            o = dsv.origin_op(g["call_t"]["args"][0])
            return o.get("k") == "call" and (callee(o["t"]) or "").endswith("VfsPath::as_path")
        if not any((g.get("callee") or "").endswith("VfsPath::as_path") and g["allowed"] in (["Some"], [False]) or
                   ((g.get("callee") or "").endswith("Option::<T>::is_none") and g["allowed"] == [False]) or
                   ((g.get("callee") or "").endswith("Option::<T>::is_some") and g["allowed"] == [True] and from_as_path(g)) for g in gs):
            okp = False
    res.ob("M3", "set_vfs_file_content/non-file-uris", "set_vfs_file_content unwraps vpath.as_path() only after checking that the document is a file",
           okp or not unwraps, where=sv.loc(), how="unwrap sites %d, all dominated by an as_path() test: %s" % (len(unwraps), okp))


def m4(F, res):
    nr = F.fn(S + "new_router")
    routed = []
    for b, t in nr.calls():
        c = callee(t) or callee_def(t) or ""
        ta = (t.get("fn") or {}).get("targs") or []
        if FL.short(c) == "Router::request":
            routed.append(("request", ta[2] if len(ta) > 2 else "?", t["ln"]))
        if FL.short(c) == "RouterExt::request_snap":
            routed.append(("request_snap", ta[1] if len(ta) > 1 else "?", t["ln"]))
    direct = [r for r in routed if r[0] == "request"]
    snaps = [r for r in routed if r[0] == "request_snap"]
    res.floor("routes registered through request_snap", len(snaps), 11)
    lifecycle_ok = all(any(x in r[1] for x in ("Initialize", "Shutdown", "Formatting")) for r in direct)
    res.ob("M4", "routes/all-requests-guarded", "every request route except initialize/shutdown/formatting is registered through request_snap",
           lifecycle_ok, where=nr.loc(), how="direct routes: %s" % [r[1].rsplit("::", 1)[-1] for r in direct])
    # request_snap's task body is with_catch_unwind
    rs = [p for p in F.fns if p.startswith("glas::server::RouterExt::request_snap")]
    guarded = False
    one_await = False
    for p in rs:
        f = F.fns[p]
        for b, t in f.calls():
            if callee(t) == "glas::server::with_catch_unwind" or (callee_def(t) or "") == "glas::server::with_catch_unwind":
                guarded = True
        if f.d.get("is_coroutine"):
            polls = [b for b, t in f.calls() if FL.short(callee(t) or callee_def(t)) == "Future::poll"]
            one_await = len(polls) == 1
    res.ob("M4", "request_snap/catch-unwind", "the task body request_snap spawns is with_catch_unwind(..) around the handler", guarded,
           where="crates/glas/src/server.rs", how="with_catch_unwind called in %s" % [p.rsplit("::", 2)[-1] for p in rs])
    res.ob("M4", "request_snap/one-await", "the response future awaits exactly one task (the request is answered once)", one_await,
           where="crates/glas/src/server.rs", how="yield points in the response future: %s" % one_await)
    wc = F.fn("glas::server::with_catch_unwind")
    cu = [t for b, t in wc.calls() if FL.short(callee(t) or callee_def(t)) in ("panic::catch_unwind", "panicking::catch_unwind") or (callee_def(t) or "").endswith("panic::catch_unwind")]
    res.ob("M4", "with_catch_unwind/catches", "with_catch_unwind runs the handler inside std::panic::catch_unwind", len(cu) == 1, where=wc.loc(),
           how="catch_unwind calls %d" % len(cu))


def notifications_cannot_stop_the_loop(F, res):
    """M6: the main loop ends when a notification handler answers ControlFlow::Break. async-lsp's router does that for a
    notification without a handler (Error::Routing) and for one whose parameters do not deserialize (Error::Deserialize):
    `textDocument/willSave`, or a didChange with line -1, would end the process. Some layer of the service stack has to
    turn these two into Continue, and the stack built in run_server_stdio has to contain that layer."""
    ERR = "async_lsp::Error"
    absorbers = []
    protocol = []
    for p, f in sorted(F.fns.items()):
        if not (p.startswith("<glas::") and p.endswith("as async_lsp::LspService>::notify")) or not f.blocks:
            continue
        d = FL.Defs(f)
        dm = F.discr_map(ERR) if ERR in F.adts else {}
        cont = [b for b, i, s in f.stmts() if s["k"] == "assign" and s["rv"]["k"] == "agg" and
                (s["rv"].get("adt") or "").endswith("ControlFlow") and s["rv"].get("variant") == "Continue"]
        kinds = set()
        for b in cont:
            for g in FL.gates(F, f, [b], d):
                if g.get("kind") == "enum" and (g.get("enum") or "").endswith("async_lsp::Error"):
                    kinds |= set(g["allowed"])
                # the same test factored into a predicate of the crate (`if is_droppable(&err)`): the variants for which it says true
                pc = g.get("callee") or ""
                if pc.startswith("glas::") and pc in F.fns and F.fns[pc].blocks and g["allowed"] == [True]:
                    pf = F.fns[pc]
                    dpf = FL.Defs(pf)
                    trues = [b2 for b2, i2, s2 in pf.stmts() if s2["k"] == "assign" and s2["place"]["l"] == 0 and not s2["place"]["p"] and
                             s2["rv"]["k"] == "use" and str((s2["rv"]["op"].get("k") or {}).get("bits")) == "1"]
                    for b2 in trues:
                        for g2 in FL.gates(F, pf, [b2], dpf):
                            if g2.get("kind") == "enum" and (g2.get("enum") or "").endswith("async_lsp::Error"):
                                kinds |= set(g2["allowed"])
        # async_lsp is not a workspace crate, so its enum is known by discriminant only: in async-lsp 0.0.5 (Cargo.lock)
        # `Error` is ServiceStopped=0, Deserialize=1, Response=2, Protocol=3, Io=4, Eof=5, Routing=6
        if {"Deserialize", "Routing"} <= kinds or {"1", "6"} <= kinds:
            absorbers.append(p)
            if "Protocol" in kinds or "3" in kinds:
                protocol.append(p)
    res.ob("M6", "notify/absorbs-routing-and-deserialize", "a service layer of glas maps a notification's Error::Routing (no handler) and "
           "Error::Deserialize (ill-typed parameters) to ControlFlow::Continue, so neither can end the main loop",
           bool(absorbers), where="crates/glas/src", how="layers that do: %s" % [a.split(" as ")[0].lstrip("<") for a in absorbers] if absorbers else
           "no LspService::notify in crate glas turns these errors into Continue (async-lsp's router answers Break for both)")
    if absorbers:
        rs = F.fn("glas::run_server_stdio")
        names = {a.split(" as ")[0].lstrip("<").split("<")[0] for a in absorbers}
        used = False
        for q in F.with_closures(rs.path):
            for b, t in F.fns[q].calls():
                full = (t.get("fn") or {}).get("full", "")
                if "layer" in full.lower() and any(n.rsplit("::", 1)[0] in full for n in names):
                    used = True
        res.ob("M6", "notify/layer-in-the-stack", "the service stack built by run_server_stdio contains that layer", used, where=rs.loc(),
               how="found in the ServiceBuilder chain: %s" % used)
        # the lifecycle layer answers a notification that does not fit its state (a second `initialized`) with Error::Protocol
        # and Break, without asking the layers below it: the absorbing layer has to sit outside it and absorb that error too
        outer = False
        for q in F.with_closures(rs.path):
            g = F.fns[q]
            def applied(t):      # the layer a ServiceBuilder::layer call adds (its last type argument; the first is the stack so far)
                ta = (t.get("fn") or {}).get("targs") or []
                return ta[-1] if FL.short(callee(t) or callee_def(t) or "").endswith("ServiceBuilder::layer") and ta else ""
            tol = [b for b, t in g.calls() if any(n.rsplit("::", 1)[0] in applied(t) for n in names)]
            life = [b for b, t in g.calls() if "LifecycleLayer" in applied(t)]
            if tol and life and all(g.dominates(a, b) and a != b for a in tol for b in life):
                outer = True
        res.ob("M6", "notify/absorbs-lifecycle-protocol-errors", "the absorbing layer also maps Error::Protocol to Continue and is applied outside "
               "async-lsp's LifecycleLayer (a second `initialized` notification does not end the main loop)", bool(protocol) and outer, where=rs.loc(),
               how="layers that absorb Protocol: %s; applied before (= outside) LifecycleLayer: %s" % ([a.split(" as ")[0].lstrip("<") for a in protocol], outer))


def recursion_is_cut(F, res, seen, rule="M7"):
    """M7: a function of crate glas that is reachable from the unguarded handlers and calls itself while following references the
    user wrote (path dependencies of gleam.toml) must cut cycles: it keeps a visited set, and every recursive call is made
    only after a lookup of that set, *with the key the set is filled with*, came back empty. (A lookup with another key does
    not cut a cycle: `dep = { path = "" }` under a key that is not the package's name recursed until the stack overflowed.)"""
    cg = F.callgraph()
    rec = sorted(p for p in seen if p.startswith(("glas::", "<glas::")) and "{closure" not in p and p in cg.get(p, ()))
    res.floor("self-recursive functions of crate glas reachable from the handlers", len(rec), 1)
    for p in rec:
        f = F.fns[p]
        d = FL.Defs(f)
        calls = [(b, t) for b, t in f.calls() if callee(t) == p]
        ins = [(b, t) for b, t in f.calls() if FL.short(callee(t) or callee_def(t) or "") in ("HashMap::insert", "HashSet::insert", "IndexSet::insert", "IndexMap::insert")]

        def sig(op):
            dep = FL.depends(F, f, d, op)
            return (frozenset(dep["strs"]), frozenset(c for c in dep["calls"] if c not in ("Deref::deref", "Clone::clone", "Into::into", "From::from", "SmolStr::as_str")))
        # visited sets: containers (a parameter or local of the function) that are both filled and asked
        ok_all, why = bool(calls), []
        for b, t in calls:
            cut = False
            for g in FL.gates(F, f, [b], d):
                c = FL.short(g.get("callee") or "")
                if c not in ("HashMap::get", "HashSet::contains", "HashMap::contains_key", "IndexSet::contains", "IndexMap::get") or \
                        g["allowed"] not in (["None"], [False]):
                    continue
                ksig = sig(g["call_t"]["args"][1])
                cont = d.origin_op(g["call_t"]["args"][0])
                for ib, it in ins:
                    if FL.origin_key(d.origin_op(it["args"][0])) == FL.origin_key(cont) and sig(it["args"][1]) == ksig:
                        cut = True
            if not cut:
                ok_all = False
                why.append("recursive call at line %d is not gated by an empty lookup of the visited set under the key it is filled with" % t["ln"])
        res.ob(rule, "recursion/" + p.rsplit("::", 1)[-1], "the recursion of %s is cut by its visited set: every recursive call happens only after a lookup "
               "with the inserted key found nothing" % p.rsplit("::", 1)[-1], ok_all, where=f.loc(),
               how="; ".join(why) if why else "%d recursive calls, each behind such a lookup" % len(calls))


def files_lie_below_their_root(F, res, rule="M10"):
    """M10: Change::apply computes a module name by stripping the root's path from the file's (`strip_prefix(..).expect(..)`, a
    reviewed M1 site on the unguarded main loop). What makes that safe is established in another function: Server::lower_vfs
    deals a file to a root only if the root's path is a prefix of the file's. The insertion into a root's FileSet is reached
    only behind a prefix test: Path::starts_with / strip_prefix, or a component-wise comparison (`zip(..).all(..)`) together
    with a comparison of the two lengths (zip stops at the shorter side: without the length test a file whose path is an
    ancestor of a root's - `…/notes` next to `…/notes/draft.gleam` - lands in that root and the server dies)."""
    lv = F.fn("glas::server::Server::lower_vfs")
    units = [lv] + [F.fns[c] for c in F.closures_of(lv.path)]
    ins = [(b, t) for b, t in lv.calls() if (callee(t) or "").endswith("FileSet::insert")]
    d = FL.Defs(lv)

    def is_len(f_, d_, op):
        o = d_.origin_op(op)
        return o.get("k") == "call" and FL.short(callee(o["t"]) or callee_def(o["t"]) or "").rsplit("::", 1)[-1] in ("len", "count")

    def evidence(f_, d_, gs):
        starts = allz = lens = False
        for g in gs:
            c = FL.short(g.get("callee") or "")
            # a prefix test on *paths* (component-wise); `str::starts_with` on the printed paths lets `/ws/app` claim the files of `/ws/app2`
            is_path = c.startswith(("Path::", "PathBuf::")) or "path::Path" in (g.get("callee") or "")
            if is_path and (c.rsplit("::", 1)[-1] in ("starts_with",) and g["allowed"] == [True] or c.rsplit("::", 1)[-1] == "strip_prefix" and g["allowed"] in (["Ok"], ["Continue"])):
                starts = True
            if c.endswith("Iterator::all") and g["allowed"] == [True]:
                allz = True
            o = g.get("origin") or {}
            if o.get("k") == "rv" and o["rv"].get("k") == "bin" and o["rv"].get("op") in ("Gt", "Lt", "Ge", "Le") and \
                    is_len(f_, d_, o["rv"]["a"]) and is_len(f_, d_, o["rv"]["b"]):
                lens = True
            # the test lives in a closure handed to find / position / filter / any
            if c.rsplit("::", 1)[-1] in ("find", "position", "filter", "any", "find_map") and g["allowed"] in (["Some"], [True]):
                for ta in (g["call_t"].get("fn") or {}).get("targs", []) or []:
                    for cf in units[1:]:
                        if str((cf.d.get("span") or {}).get("lo")) in ta and "{closure@" in ta:
                            dc = FL.Defs(cf)
                            s2, a2, l2 = evidence(cf, dc, FL.gates(F, cf, [b for b in cf.return_blocks()], dc))
                            # a closure that answers with the value of one expression has no gates: look at what it computes
                            calls = {FL.short(callee(t2) or callee_def(t2) or "").rsplit("::", 1)[-1] for _b2, t2 in cf.calls()}
                            cmpl = any(s_.get("rv", {}).get("k") == "bin" and s_["rv"].get("op") in ("Gt", "Lt", "Ge", "Le") and
                                       is_len(cf, dc, s_["rv"]["a"]) and is_len(cf, dc, s_["rv"]["b"]) for _b3, _i3, s_ in cf.stmts() if s_.get("rv"))
                            pcalls = {FL.short(callee(t2) or callee_def(t2) or "") for _b2, t2 in cf.calls()}
                            starts = starts or s2 or any(x.startswith(("Path::", "PathBuf::")) and x.rsplit("::", 1)[-1] in ("starts_with", "strip_prefix") for x in pcalls)
                            allz = allz or a2 or "all" in calls
                            lens = lens or l2 or cmpl
        return starts, allz, lens
    ok, why = bool(ins), []
    for b, t in ins:
        starts, allz, lens = evidence(lv, d, FL.gates(F, lv, [b], d))
        if not (starts or (allz and lens)):
            ok = False
            why.append("insertion at line %d: starts_with/strip_prefix test %s, component-wise all() %s, length comparison %s" % (t["ln"], starts, allz, lens))
    res.ob(rule, "lower_vfs/file-below-root", "a file is dealt to a source root only if the root's path is a prefix of the file's path (what "
           "module_name's strip_prefix(..).expect(..) relies on)", ok, where=lv.loc(), how="; ".join(why) or "%d insertions, each behind a prefix test" % len(ins))


def disk_reads_are_bounded(F, res, rule="M12"):
    """M12: LineMap::normalize panics (`Text too long`, a reviewed M1 site on the unguarded main loop) for a text of 4 GiB or
    more. What the client sends is bounded by didOpen's MAX_FILE_LEN test and by the transport; what the *server* reads from
    disk (watched-file events, package files, gleam.toml) is bounded only if every read is: in the server library no text is
    read with fs::read_to_string / fs::read, and every Read::read_to_string reads through `Take` (a length-limited reader)."""
    unbounded, bounded = [], 0
    for p, f in sorted(F.fns.items()):
        if not p.startswith(("glas::", "<glas::")) or not f.blocks:
            continue
        for b, t in f.calls():
            fn_ = t.get("fn") or {}
            c = FL.short(callee(t) or callee_def(t) or "")
            full = fn_.get("full") or ""
            if c in ("fs::read_to_string", "fs::read") or c.endswith("::fs::read_to_string"):
                unbounded.append("%s line %d: %s" % (FL.short(p), t["ln"], c))
            elif c.rsplit("::", 1)[-1] in ("read_to_string", "read_to_end") and "Read" in (fn_.get("def") or "") + full:
                if "io::Take<" in full or any("io::Take<" in x for x in fn_.get("targs") or []):
                    bounded += 1
                else:
                    unbounded.append("%s line %d: %s on %s" % (FL.short(p), t["ln"], c, (fn_.get("targs") or ["?"])[0]))
    res.ob(rule, "disk-reads/bounded", "every text the server library reads from disk is read through a length-limited reader (a file of 4 GiB named by "
           "a watched-files event cannot reach LineMap::normalize)", not unbounded and bounded > 0, where="crates/glas/src/server.rs",
           how="; ".join(unbounded) or "%d read(s), all through io::Take" % bounded)


def client_named_paths_are_read_as_regular_files(F, res, rule="M13"):
    """M13: a notification can name any path. Opening a FIFO (or /dev/stdin) blocks for ever, on the main loop: no message
    is handled again. Wherever a handler of the main loop stores a text read from a path that came out of the message
    (uri.to_file_path()), the read goes through a function that looks at the file type first (FileType::is_file) - the
    reader the watched-files handler has always used. The reload added to didClose did not (found by a round-7 agent)."""
    from rules import c13 as _c13
    is_guard = lambda f: any((callee(t) or callee_def(t) or "").endswith("FileType::is_file") for q in F.with_closures(f) if q in F.fns for _b, t in F.fns[q].calls())
    guarded_readers = {p for p in F.fns if p.startswith(("glas::", "<glas::")) and F.fns[p].blocks and "{closure" not in p and is_guard(p)}
    n = 0
    for p, f in sorted(F.fns.items()):
        if not p.startswith(S) or not f.blocks or "{closure" in p:
            continue
        d = None
        for b, t in f.calls():
            c = callee(t) or ""
            if c not in (S + "set_vfs_file_content", "glas::vfs::Vfs::set_path_content") or len(t["args"]) < 3:
                continue
            d = d or FL.Defs(f)
            dep = FL.depends(F, f, d, t["args"][2])
            reads = {x for x in dep["calls"] if x.endswith(("read_to_string", "read_source", "fs::read")) or any(x == FL.short(g) for g in guarded_readers)}
            if not reads:
                continue
            from_message = any(x.rsplit("::", 1)[-1] in ("to_file_path", "to_vfs_path") for x in dep["calls"])
            if not from_message:
                continue
            n += 1
            ok = any(x == FL.short(g) for g in guarded_readers for x in dep["calls"]) or is_guard(p)
            res.ob(rule, "regular-file/%s" % FL.short(p), "a path named by the client is read only after its file type was looked at (a FIFO would block "
                   "the main loop for good)", ok, where=f.loc(t["ln"]), how="the text depends on %s; readers that check the file type: %s" % (
                       sorted(reads), sorted(FL.short(g) for g in guarded_readers)))
    res.floor("main-loop handlers that store a text read from a client-named path", n, 1)
