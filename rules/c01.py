"""C01 — Syntax tree is lossless for every input text (counting proof, premises L1-L8)."""
import re

from lib import pcache
from lib import flow as FL
from lib import teval
from lib.facts import callee, callee_def, op_place, op_local
from rules import parser_model as PM

META = {
    "level": "proof",
    "technique": "static analysis: counting proof whose premises are checked on rustc MIR (def-use, dominance, who-may-write-field, enum tabulation)",
    "rule": "L1 lexer drops nothing; L2 GleamLexer::next forwards every logos token with its span; L3 parse_module "
            "filters exactly the trivia; L4 pos/Advance have one writer; L5 events only grow, one pop; L6 module() "
            "returns only at end of input; L7 every build_tree arm eats a run of trivia (Advance: run + 1); L8 eat_token "
            "emits count tokens in order. Each premise is split into the MIR facts that establish it. L9 (= C02/P4, P5) the progress guard of Parser::nth cannot fire, so a tree is built for every text.",
    "explanation": "Let R be the raw token list and N its non-trivia subsequence. L3-L6: parsing produces exactly |N| "
                   "Advance events and pos ends at |N|. L7-L8: processing the events in order, the tree builder's "
                   "cursor never skips a raw token: Open arms move over trivia only, the k-th Advance emits the pending "
                   "trivia and the k-th element of N, the final flush emits the remaining trivia. Hence the leaves are "
                   "exactly R in order and tokens.get(pos).unwrap() never fails. L1-L2: R tiles the input. Every premise "
                   "is an obligation decided on the MIR; the proof level is claimed only when all are discharged. L10 = C14 U12 (engine U: no token range or lexer advance is counted in characters or UTF-16 units). L11 = C02 P2 (a parser loop that stands still ends in the progress guard: no tree).",
    "not_decided": "logos' and rowan's own behaviour (trusted); inputs of 4 GiB or more (excluded by parse_module's assert).",
    "trusted_base": ["logos 0.12: tokens are non-empty, contiguous and cover the input; a bool callback returning false yields the #[error] token",
                     "rowan 0.15 GreenNodeBuilder concatenates token texts in insertion order",
                     "rustc MIR construction and callee resolution"],
    "assumptions": ["std iterator adaptors take_while/count/filter/collect behave as documented"],
}

SK = "syntax::kind::SyntaxKind"
BT = "syntax::parser::Parser::build_tree"
EAT = BT + "::{closure#0}"
LOC = "crates/syntax/src/parser.rs"


def split_args(s):
    out, depth, cur, q = [], 0, "", None
    i = 0
    while i < len(s):
        ch = s[i]
        if q:
            cur += ch
            if ch == "\\" and q == '"' and i + 1 < len(s):
                cur += s[i + 1]
                i += 1
            elif ch == q:
                q = None
        elif ch == '"':
            # raw strings r#"..."#: take to the closing quote+hashes
            m = re.match(r'r(#*)"$', cur[-(cur[::-1].find("r") + 1):] + '"') if False else None
            q = '"'
            cur += ch
        elif ch in "([{":
            depth += 1
            cur += ch
        elif ch in ")]}":
            depth -= 1
            cur += ch
        elif ch == "," and depth == 0:
            out.append(cur.strip())
            cur = ""
        else:
            cur += ch
        i += 1
    if cur.strip():
        out.append(cur.strip())
    return out


def lexer_callback_view(F):
    """lex_string with the private helpers of the lexer module it calls spliced in (`closing_quote_end(rest)`): the rules about the
    callback speak about what it does, wherever a maintainer has put the loop"""
    from lib import inline as IL
    ls = F.fn("syntax::lexer::lex_string")
    helpers = {c for _b, t in ls.calls() for c in [callee(t) or ""] if c.startswith("syntax::lexer::") and c in F.fns and F.fns[c].blocks and
               c != ls.path and "GleamLexer" not in c and "{closure" not in c}
    if not helpers:
        return ls
    return IL.inlined(F, ls, want=lambda p: p in helpers or (p.startswith("syntax::lexer::") and "GleamLexer" not in p and p != ls.path), depth=2)


def lexer_bump_unit(F, res, rule="L1"):
    """lex_string advances the lexer by a BYTE length: every value that flows into Lexer::bump comes from byte
    quantities (char::len_utf8, str/slice len, char_indices offsets), never from a character count.
    (Lexer::bump panics on an offset that is past the end or inside a character: C02 shares this rule.)"""
    ls = lexer_callback_view(F)
    d = FL.Defs(ls)
    bumps = [(b, t) for b, t in ls.calls() if FL.short(callee(t) or callee_def(t)) == "Lexer::bump"]
    contributing = set()
    for b, t in bumps:
        seen_l, st = set(), [t["args"][1]]
        while st:
            op = st.pop()
            pl = op_place(op)
            if pl is None or pl["l"] in seen_l:
                continue
            seen_l.add(pl["l"])
            for dd in d.defs.get(pl["l"], []):
                if dd[2] == "call":
                    contributing.add(FL.short(callee(dd[3]) or callee_def(dd[3])))
                    st.extend(dd[3]["args"])
                else:
                    rv = dd[3]["rv"]
                    for key in ("op", "a", "b"):
                        if isinstance(rv.get(key), dict):
                            st.append(rv[key])
                    if "place" in rv:
                        st.append({"cp": rv["place"]})
                    st.extend(rv.get("ops", []))
    byte_src = {c for c in contributing if c in ("char::len_utf8", "str::len", "[T]::len", "str::as_bytes", "CharIndices::next", "Iterator::next")
                and c != "Iterator::next"} | {c for c in contributing if c.endswith("len_utf8") or c.endswith("::len")}
    char_cnt = {c for c in contributing if "Enumerate" in c or c.endswith("::count") or c.endswith("chars().count")}
    res.ob(rule, "lex_string-bumps-bytes", "lex_string advances the lexer by a byte length (len_utf8 / len of bytes), never by a character count",
           bool(bumps) and bool(byte_src) and not char_cnt, where=ls.loc(),
           how="values flowing into Lexer::bump come from %s" % sorted(contributing))


def lexer_rules(F, res):
    va = [x for x in F.units["syntax-rlib"].get("variant_attrs", []) if x[0] == "SyntaxKind"]
    if not va:
        res.anchor_missing("L1", "attributes of SyntaxKind variants")
        return
    kinds = F.variants(SK)
    by = {}
    for _, v, txt in va:
        by.setdefault(v, []).append(txt)
    bad = []
    callbacks = set()
    n = 0
    for v, txts in sorted(by.items()):
        for txt in txts:
            m = re.match(r"#\[(\w+)\s*[\(\[](.*)[\)\]]\]$", txt, re.S)
            name = m.group(1) if m else txt.strip("#[]")
            if v == "":
                if name == "logos":
                    # options of the derive that do not touch the token stream: the type of the lexer's `extras` (state the callbacks
                    # may keep), named sub-patterns, the path of the crate, the source type
                    opts = [x.strip().replace(" ", "") for x in re.split(r",(?![^()\[\]]*[)\]])", m.group(2) if m else "") if x.strip()]
                    if not m or not all(re.match(r"(extras|subpattern\w*|crate|type\w*|source)\b\s*=?", o) for o in opts):
                        bad.append("enum-level %s" % txt)
                continue
            if name in ("token", "regex"):
                n += 1
                # everything after the pattern literal
                body = m.group(2)
                # the pattern is the first string literal (possibly raw); cut it off
                pm_ = re.match(r'\s*(r#*".*?"#*|"(?:[^"\\]|\\.)*")\s*(?:,(.*))?$', body, re.S)
                rest = (pm_.group(2) or "") if pm_ else body
                for extra in [x for x in rest.split(",") if x.strip()]:
                    e = extra.strip()
                    if re.match(r"priority\s*=\s*\d+$", e):
                        continue
                    callbacks.add(e)
                    if "skip" in e or "Skip" in e or "Filter" in e or "|" in e:
                        bad.append("%s: %s" % (v, txt))
            elif name == "error":
                n += 1
                if v != "ERROR":
                    bad.append("#[error] on %s" % v)
            elif name in ("doc", "allow", "cfg"):
                pass
            else:
                bad.append("unexpected attribute %s on %s" % (txt, v))
    res.ob("L1", "no-skip", "no lexer rule of SyntaxKind skips or filters input (no logos::skip / Filter / Skip callback, no enum-level #[logos(skip)])",
           not bad, where="crates/syntax/src/kind.rs", how="%d #[token]/#[regex]/#[error] rules read from the expanded AST; offending: %s" % (n, bad))
    res.ob("L1", "callbacks", "the only lexer callback is lex_string", callbacks <= {"lex_string"}, where="crates/syntax/src/kind.rs",
           how="callbacks: %s" % sorted(callbacks))
    ls = F.fn("syntax::lexer::lex_string")
    res.ob("L1", "lex_string-bool", "lex_string returns bool (false turns the input into the #[error] token, nothing is dropped)",
           ls.d.get("output") == "bool", where=ls.loc(), how="returns %s" % ls.d.get("output"))
    lexer_bump_unit(F, res)
    res.ob("L1", "error-variant", "#[error] is attached to ERROR", any("#[error]" in t for t in by.get("ERROR", [])),
           where="crates/syntax/src/kind.rs", how=str(by.get("ERROR")))
    res.ob("L1", "eof-not-lexed", "kind EOF carries no lexer rule (so eof() and nth()==EOF mean end of input)",
           not any(re.match(r"#\[(token|regex|error)", t) for t in by.get("EOF", [])), where="crates/syntax/src/kind.rs",
           how=str(by.get("EOF", [])))
    res.floor("lexer rules on SyntaxKind", n, 70)


def lexer_next(F, res):
    from lib import inline as IL
    # with private helpers of the lexer module inlined (the span -> range conversion may be a helper)
    nx = IL.inlined(F, F.fn("<syntax::lexer::GleamLexer as core::iter::traits::iterator::Iterator>::next"),
                    want=lambda p: p.startswith("syntax::lexer::") and "lex_string" not in p, depth=2)
    d = FL.Defs(nx)
    inner_next = [(b, t) for b, t in nx.calls() if (callee(t) or callee_def(t) or "").startswith("<logos::lexer::Lexer")
                  and (callee_def(t) or "").endswith("Iterator::next") or (callee(t) or "").endswith("Iterator>::next") and "logos" in (callee(t) or "")]
    res.ob("L2", "one-inner-next", "GleamLexer::next calls the logos lexer's next() exactly once and has no loop",
           len(inner_next) == 1 and not nx.back_edges(), where=nx.loc(), how="%d calls, %d back edges" % (len(inner_next), len(nx.back_edges())))
    somes = FL.blocks_assigning_return(nx, lambda rv: FL.is_variant_agg(rv, "option::Option", "Some"))
    gs = FL.gates(F, nx, somes, d) if somes else []
    fwd = [g for g in gs if "logos" in (g.get("callee") or "") and g["allowed"] in (["Continue"], ["Some"])]
    res.ob("L2", "some-iff-inner-some", "it returns Some exactly on the path where the inner next() returned Some",
           bool(somes) and bool(fwd), where=nx.loc(), how="gates: %s" % [FL.gate_summary(g) for g in gs])
    nones = [b for b in nx.reachable() if any(s["k"] == "assign" and s["place"]["l"] == 0 and FL.is_variant_agg(s["rv"], "option::Option", "None")
                                              for s in nx.blocks[b]["stmts"])]
    # an explicit `return None` is the same thing when it sits on the None edge of the inner next() (`let Some(k) = .. else { return None }`)
    own = []
    for b in nones:
        gated = [g for g in FL.gates(F, nx, [b], d) if "logos" in (g.get("callee") or "") and g["allowed"] in (["None"], ["Break"])]
        if not gated:
            own.append(b)
    res.ob("L2", "no-early-none", "it never returns None on its own (only by propagating the inner None, with `?` or on the None edge of the inner call)",
           not own, where=nx.loc(), how="explicit None returns: %d, of them not on the inner call's None edge: %d" % (len(nones), len(own)))
    # LexToken { kind: inner.next(), range: TextRange::new(try_from(span.start), try_from(span.end)) }
    ok_kind = ok_range = False
    for b, i, s in nx.stmts():
        rv = s.get("rv")
        if rv and rv["k"] == "agg" and rv.get("adt") == "syntax::lexer::LexToken":
            names = rv["fields"]
            ko = d.origin_op(rv["ops"][names.index("kind")], FL.PASS_THROUGH)
            base = ko
            while base.get("k") == "field":
                base = base["base"]
            ok_kind = base.get("k") == "call" and "logos" in (callee(base["t"]) or "") and (callee(base["t"]) or "").endswith("next")
            ro = d.origin_op(rv["ops"][names.index("range")])
            if ro.get("k") == "call" and (callee(ro["t"]) or "").endswith("TextRange::new"):
                parts = []
                for a in ro["t"]["args"]:
                    o = d.origin_op(a, ("Result::<T, E>::unwrap", "TryFrom<usize>>::try_from"))
                    pr = [e.get("n") for e in o.get("proj", [])] if o.get("k") == "field" else []
                    bb_ = o
                    while bb_.get("k") == "field":
                        bb_ = bb_["base"]
                    parts.append((pr[-1] if pr else None, (callee(bb_["t"]) or "").rsplit("::", 1)[-1] if bb_.get("k") == "call" else None))
                ok_range = parts == [("start", "span"), ("end", "span")]
    res.ob("L2", "kind-from-inner", "the token's kind is the value the inner next() returned", ok_kind, where=nx.loc(),
           how="def-use traced" if ok_kind else "kind does not originate in inner.next()")
    res.ob("L2", "range-from-span", "the token's range is TextRange::new(span().start, span().end) of the same lexer",
           ok_range, where=nx.loc(), how="def-use traced" if ok_range else "range does not originate in inner.span()")


def parse_module_rules(F, res, rule="L3"):
    pm = F.fn("syntax::parser::parse_module")
    d = FL.Defs(pm)
    lit = [s for b, i, s in pm.stmts() if s.get("rv", {}).get("k") == "agg" and s["rv"].get("adt") == PM.PA]
    if len(lit) != 1:
        res.anchor_missing(rule, "Parser literal in parse_module")
        return
    rv = lit[0]["rv"]
    names = rv["fields"]

    def chain(op):
        """callee names from the operand back to its source"""
        out = []
        o = d.origin_op(op)
        hops = 0
        while o.get("k") == "call" and hops < 12:
            hops += 1
            c = callee(o["t"]) or callee_def(o["t"]) or "?"
            out.append(c)
            if not o["t"]["args"]:
                break
            o = d.origin_op(o["t"]["args"][0])
        return out, o
    ch_raw, src_raw = chain(rv["ops"][names.index("tokens_raw")])
    ok_raw = [PM.short(c) for c in ch_raw] == ["Iterator::collect", "GleamLexer::new"] and src_raw.get("k") == "arg"
    res.ob(rule, "tokens_raw", "tokens_raw = GleamLexer::new(src).collect() (every lexed token, nothing else)",
           ok_raw, where=pm.loc(), how="chain %s from %s" % ([PM.short(c) for c in ch_raw], src_raw.get("k")))
    ch_tok, src_tok = chain(rv["ops"][names.index("tokens")])
    sh = [PM.short(c) for c in ch_tok]
    ok_tok = sh[:4] == ["Iterator::collect", "Iterator::filter", "IntoIterator::into_iter", "Clone::clone"] and \
        sh[4:] == ["Iterator::collect", "GleamLexer::new"]
    # the same written as a loop: `let mut tokens = Vec::new(); for &tok in &tokens_raw { if tok.kind.is_trivia() { continue } tokens.push(tok) }`
    loop_form = False
    if not ok_tok and sh == ["Vec::new"]:
        tl = d.origin_op(rv["ops"][names.index("tokens")]).get("l")
        pushes = []
        for b, t in pm.calls():
            if PM.short(callee(t) or callee_def(t)) == "Vec::push":
                ro = d.origin_op(t["args"][0])
                base_ = ro
                while base_.get("k") == "field":
                    base_ = base_["base"]
                if ro.get("l") == tl or base_.get("l") == tl or d.origin_op(t["args"][0]).get("bb") == d.origin_op(rv["ops"][names.index("tokens")]).get("bb"):
                    pushes.append((b, t))
        if len(pushes) == 1:
            b, t = pushes[0]
            dep_item = FL.depends(F, pm, d, t["args"][1])
            from_raw = any(c.endswith("Iterator::next") for c in dep_item["calls"]) and any(c.endswith("GleamLexer::new") for c in dep_item["calls"])
            gs = FL.gates(F, pm, [b], d)
            not_trivia = any((g.get("callee") or "") == SK + "::is_trivia" and g["allowed"] == [False] for g in gs)
            in_loop = any(b in pm.natural_loop(tl_, hd_) for tl_, hd_ in pm.back_edges())
            only_gate = [g for g in gs if (g.get("callee") or "").startswith("syntax::")]
            loop_form = from_raw and not_trivia and in_loop and len(only_gate) == 1
    res.ob(rule, "tokens-filtered-copy", "tokens = the elements of tokens_raw, in order, that pass the filter (iterator chain or push loop)",
           ok_tok or loop_form, where=pm.loc(), how="chain %s%s" % (sh, "; push loop over tokens_raw gated by !is_trivia" if loop_form else ""))
    # the filter predicate is exactly !kind.is_trivia()
    clos = [F.fns[c] for c in F.closures_of(pm.path)]
    ok_pred = False
    for cf in clos:
        calls = [callee(t) for b, t in cf.calls()]
        rets = [s for b, i, s in cf.stmts() if s["k"] == "assign" and s["place"]["l"] == 0]
        if calls == [SK + "::is_trivia"] and len(rets) == 1 and rets[0]["rv"]["k"] == "un" and rets[0]["rv"]["op"] == "Not":
            dd = FL.Defs(cf)
            o = dd.origin_op(rets[0]["rv"]["a"])
            arg_ok = False
            if o.get("k") == "call":
                ao = dd.origin_op(o["t"]["args"][0])
                arg_ok = ao.get("k") == "field" and ao["proj"][-1].get("n") == "kind"
            ok_pred = arg_ok
    res.ob(rule, "filter-is-not-trivia", "the filter predicate is `!t.kind.is_trivia()`", ok_pred and len(clos) == 1 or loop_form,
           where=pm.loc(), how="%d closure(s) in parse_module%s" % (len(clos), "; loop form: the push is gated by is_trivia() == false only" if loop_form else ""))
    for fld, want in (("pos", ("const", "0")), ("events", ("call", "Vec::new")), ("errors", ("call", "Vec::new"))):
        o = d.origin_op(rv["ops"][names.index(fld)])
        got = (o.get("k"), str(o["c"].get("bits")) if o.get("k") == "const" else PM.short(callee(o["t"])) if o.get("k") == "call" else None)
        res.ob(rule, "init-" + fld, "the parser starts with %s = %s" % (fld, want[1]), got == want, where=pm.loc(), how="found %s" % (got,))
    so = d.origin_op(rv["ops"][names.index("src")])
    res.ob(rule, "init-src", "Parser.src is parse_module's own src parameter", so.get("k") == "arg" and so["n"] == 1, where=pm.loc(), how=str(so.get("k")))
    # module(&mut p) then build_tree(p) on the same parser
    order = [(b, callee(t)) for b, t in pm.calls() if callee(t) in ("syntax::parser::module", BT)]
    ok_order = [c for _, c in order] == ["syntax::parser::module", BT] and pm.dominates(order[0][0], order[1][0])
    same = False
    if ok_order:
        plocal = lit[0]["place"]["l"]
        o1 = d.origin_op([t for b, t in pm.calls() if callee(t) == "syntax::parser::module"][0]["args"][0])
        o2 = d.origin_op([t for b, t in pm.calls() if callee(t) == BT][0]["args"][0])
        same = o1.get("l") == plocal and o2.get("l") == plocal
    res.ob(rule, "module-then-build_tree", "parse_module runs module(&mut p) and then p.build_tree() on the same parser",
           ok_order and same, where=pm.loc(), how="calls %s, same parser local: %s" % ([c.rsplit("::", 1)[-1] for _, c in order], same))


def module_rules(F, res):
    m = F.fn("syntax::parser::module")
    d = FL.Defs(m)
    gs = FL.gates(F, m, m.return_blocks(), d)
    eofg = [g for g in gs if g.get("callee") == PM.P + "eof" and g["allowed"] == [True]]
    res.ob("L6", "module-returns-at-eof", "module() returns only after eof() was true, so pos == tokens.len() when parsing ends",
           bool(eofg), where=m.loc(), how="gates %s" % [FL.gate_summary(g) for g in gs])
    fins = [(b, t) for b, t in m.calls() if callee(t) == PM.P + "finish_node"]
    okf = len(fins) == 1 and FL.kind_of_operand(m, d, fins[0][1]["args"][2]) == "SOURCE_FILE" and \
        all(m.dominates(fins[0][0], r) for r in m.return_blocks())
    after = [callee(t) for b, t in m.calls() if fins and b != fins[0][0] and m.can_reach(fins[0][0], [b])]
    res.ob("L5", "module-ends-with-source-file-close", "module()'s last event is the Close of SOURCE_FILE (the one build_tree pops)",
           okf and not after, where=m.loc(), how="finish_node(SOURCE_FILE) dominates return; calls after it: %s" % after)
    starts = [(b, t) for b, t in m.calls() if callee(t) == PM.P + "start_node"]
    res.ob("L5", "module-opens-root-first", "module() opens the root node before anything else",
           len(starts) == 1 and all(m.dominates(starts[0][0], b) for b, t in m.calls()), where=m.loc(), how="%d start_node" % len(starts))


def emitter(F):
    """the callable build_tree uses to copy raw tokens into the green tree: its closure, or a function it calls, that
    calls GreenNodeBuilder::token"""
    c = [p for p in F.with_helpers(BT, depth=1) if p != BT and F.fns[p].blocks and
         any((callee(t) or "").endswith("GreenNodeBuilder::token") for b, t in F.fns[p].calls())]
    return c[0] if len(c) == 1 else None


def build_tree_rules(F, res):
    from lib import inline as IL
    EATP = emitter(F)
    if EATP is None:
        res.anchor_missing("L7", "the one closure/function of build_tree that calls GreenNodeBuilder::token")
        return
    et0 = F.fn(EATP)
    is_clos = et0.kind == "Closure"

    def counts_runs(p):
        f_ = F.fns.get(p)
        return p != EATP and p.startswith("syntax::parser::") and f_ is not None and \
            any((callee_def(t) or "").endswith("Iterator::count") for b, t in f_.calls())
    # run-length helpers (the n_tokens! macro written as a function) are looked through
    bt = IL.inlined(F, F.fn(BT), want=counts_runs, depth=1)
    d = FL.Defs(bt)
    # which parameter of the emitter is the count: the end of the 0..n range it iterates
    det = FL.Defs(et0)
    count_arg = None
    for b, t in et0.calls():
        if (callee_def(t) or "").endswith("IntoIterator::into_iter"):
            o = det.origin_op(t["args"][0])
            if o.get("k") == "agg" and o["rv"]["adt"].endswith("ops::range::Range"):
                hi = det.origin_op(o["rv"]["ops"][1])
                if hi.get("k") == "arg":
                    count_arg = hi["n"]
    ev = PM.EV
    dm = {n: dv for dv, n in F.discr_map(ev).items()}
    # the switch on the Event discriminant
    sw = None
    for b in sorted(bt.reachable()):
        t = bt.term(b)
        if t["k"] == "switch":
            l = op_local(t["op"])
            o = d.origin(l) if l is not None else {}
            if o.get("k") == "rv" and o["rv"]["k"] == "discr" and o["rv"]["of"] == ev:
                sw = (b, t)
    if sw is None:
        res.anchor_missing("L7", "match on Event in build_tree")
        return
    swb, swt = sw
    arm = {}
    for v, tgt in swt["targets"]:
        arm[[n for n, dv in dm.items() if dv == v][0]] = tgt
    # the loop: header = the block calling IntoIter::next
    loop_exit = None
    for b in sorted(bt.reachable()):
        t = bt.term(b)
        if t["k"] == "switch":
            l = op_local(t["op"])
            o = d.origin(l) if l is not None else {}
            if o.get("k") == "rv" and o["rv"]["k"] == "discr" and "Option" in o["rv"]["of"]:
                src = d.origin_place(o["rv"]["place"])
                if src.get("k") == "call" and (callee(src["t"]) or "").endswith("Iterator>::next"):
                    for v, tgt in t["targets"]:
                        if v == 0:
                            loop_exit = tgt
    pure = teval.Pure(F)
    kinds = F.variants(SK)
    trivia = {k for k in kinds if pure.call(SK + "::is_trivia", [("e", SK, k)]) == 1}

    def classify(b, t):
        """(+1?, predicate fn, range ok) of an eat_token call"""
        if is_clos:
            tup = d.origin_op(t["args"][1])
            if tup.get("k") != "agg":
                return None
            n = d.origin_op(tup["rv"]["ops"][0])
        else:
            if count_arg is None:
                return None
            n = d.origin_op(t["args"][count_arg - 1])
        plus = 0
        base = n
        while base.get("k") == "field":
            base = base["base"]
        if base.get("k") == "rv" and base["rv"]["k"] == "bin" and base["rv"]["op"] == "AddWithOverflow":
            k = base["rv"]["b"].get("k")
            plus = int(k["bits"]) if k and "bits" in k else None
            n = d.origin_op(base["rv"]["a"])
        elif base.get("k") == "rv":
            return None
        if n.get("k") != "call" or not (callee_def(n["t"]) or "").endswith("Iterator::count"):
            return None
        tw = d.origin_op(n["t"]["args"][0])
        if tw.get("k") != "call" or not (callee_def(tw["t"]) or "").endswith("Iterator::take_while"):
            return None
        rng = d.origin_op(tw["t"]["args"][0])
        rng_ok = False
        if rng.get("k") == "agg" and rng["rv"]["adt"].endswith("ops::range::Range"):
            s0 = d.origin_op(rng["rv"]["ops"][0])
            s1 = d.origin_op(rng["rv"]["ops"][1])
            rng_ok = (bt.debug_name(s0.get("l", -1)) == "pos" or s0.get("k") in ("multi",) and bt.debug_name(s0.get("l")) == "pos") and \
                s1.get("k") == "call" and PM.short(callee(s1["t"]) or callee_def(s1["t"])).endswith("::len")
        cl = d.origin_op(tw["t"]["args"][1])
        pred = None
        if cl.get("k") == "agg" and "closure" in cl["rv"]:
            cf = F.fns.get(cl["rv"]["closure"])
            if cf is not None:
                cs = [callee(t2) for _, t2 in cf.calls() if (callee(t2) or "").startswith(SK + "::")]
                if len(cs) == 1:
                    pred = cs[0]
                elif not cs:
                    # the predicate is a function pointer handed to a run-length helper: read it at the helper's call
                    for idx in range(0, 6):
                        pf, po = FL.upvar_origin(F, cl["rv"]["closure"], idx)
                        if pf is None or po.get("k") != "arg":
                            continue
                        marks = [(b2, t2) for b2, t2 in bt.calls() if t2.get("inlined") == pf.path and bt.dominates(b2, n["bb"])]
                        if not marks:
                            continue
                        b2, t2 = max(marks, key=lambda x: len(bt.dominators().get(x[0], ())))
                        if po["n"] - 1 < len(t2["args"]):
                            a = t2["args"][po["n"] - 1]
                        else:
                            # the helper is itself a closure (`let count_tokens = |from, pred: fn(SyntaxKind) -> bool| ..`): its call
                            # carries the arguments as one tuple behind the closure
                            tup = d.origin_op(t2["args"][-1]) if t2["args"] else {}
                            ops_ = tup["rv"]["ops"] if tup.get("k") == "agg" else []
                            if not (0 <= po["n"] - 2 < len(ops_)):
                                continue
                            a = ops_[po["n"] - 2]
                        kdef = (a.get("k") or {}).get("def") if isinstance(a.get("k"), dict) else None
                        if kdef is None:
                            ao = d.origin_op(a)
                            if ao.get("k") == "const":
                                kdef = (ao["c"] or {}).get("def") or ((ao["c"] or {}).get("fn") or {}).get("def")
                            elif ao.get("k") == "rv" and ao["rv"]["k"] == "cast" and isinstance(ao["rv"]["op"].get("k"), dict):
                                kdef = ao["rv"]["op"]["k"].get("def")
                        if kdef and kdef.startswith(SK + "::"):
                            pred = kdef
        return plus, pred, rng_ok

    eats = [(b, t) for b, t in bt.calls() if callee(t) == EATP]
    res.floor("eat_token call sites in build_tree", len(eats), 6)
    region = {}
    for name, tgt in arm.items():
        region[name] = {b for b in bt.reachable() if bt.can_reach(tgt, [b], avoid=[swb])} if tgt is not None else set()
    after = {b for b in bt.reachable() if loop_exit is not None and bt.can_reach(loop_exit, [b], avoid=[swb])}
    counts = {"Open": 0, "Close": 0, "Advance": 0, "after": 0}
    for b, t in eats:
        where = [n for n in ("Open", "Close", "Advance") if b in region.get(n, ()) and b not in after]
        w = where[0] if len(where) == 1 else ("after" if b in after else "?")
        counts[w] = counts.get(w, 0) + 1
        c = classify(b, t)
        ord_ = [x[0] for x in eats].index(b)
        if c is None:
            res.ob("L7", "eat/%d" % ord_, "the count passed to eat_token is a run length computed by n_tokens!", False,
                   where=bt.loc(t["ln"]), how="count operand not of the form take_while(pos..len, pred).count() [+1]")
            continue
        plus, pred, rng_ok = c
        q = {k for k in kinds if pred and pure.call(pred, [("e", SK, k)]) == 1}
        # Open arms may stop early (the rest is picked up later); the Advance arm and the final flush must take
        # ALL pending trivia, else the "+1" token is a trivia token / trailing trivia are lost
        sub = (q == trivia if w in ("Advance", "after") else q <= trivia) and bool(pred)
        want_plus = 1 if w == "Advance" else 0
        res.ob("L7", "eat/%d/%s" % (ord_, w),
               "in the %s arm eat_token gets take_while(pos..len, %s).count()%s and %s admits %s"
               % (w, (pred or "?").rsplit("::", 1)[-1], " + 1" if want_plus else "", (pred or "?").rsplit("::", 1)[-1],
                  "exactly the trivia kinds" if w in ("Advance", "after") else "only trivia kinds"),
               sub and rng_ok and plus == want_plus and w != "?" and w != "Close", where=bt.loc(t["ln"]),
               how="pred=%s admits %s; range pos..len: %s; +%s" % (pred, sorted(q), rng_ok, plus))
    # which Open-arm flush is the general one (every kind of node that has no arm of its own in the match on the node kind)
    open_info = []
    ksw = [b for b in sorted(region.get("Open", ())) if bt.term(b)["k"] == "switch" and bt.term(b).get("ty") == "u16"]
    for b, t in eats:
        if b in region.get("Open", ()) and b not in after:
            c = classify(b, t)
            pred = c[1] if c else None
            q = {k for k in kinds if pred and pure.call(pred, [("e", SK, k)]) == 1}
            general = False
            for sb in ksw:
                tt = bt.term(sb)
                explicit = [x for _v, x in tt["targets"] if x != tt["otherwise"]]
                if b == tt["otherwise"] or bt.can_reach(tt["otherwise"], [b], avoid=explicit + [swb]):
                    general = True
            open_info.append({"line": t["ln"], "pred": pred, "all_trivia": q == trivia, "general": general or not ksw})
    res.analysed["open_flushes"] = open_info
    res.ob("L7", "advance-one-eat", "the Advance arm calls eat_token exactly once (pending trivia + exactly one token)",
           counts["Advance"] == 1, where=bt.loc(), how=str(counts))
    res.ob("L7", "close-eats-nothing", "the Close arm eats no token", counts["Close"] == 0, where=bt.loc(), how=str(counts))
    res.ob("L7", "final-flush", "after the event loop one more trivia run is flushed before the root is finished",
           counts["after"] == 1, where=bt.loc(), how=str(counts))
    fin_after = [b for b, t in bt.calls() if (callee(t) or "").endswith("GreenNodeBuilder::finish_node") and b in after]
    flush_bb = [b for b, t in eats if b in after]
    res.ob("L7", "flush-before-finish", "the final flush precedes builder.finish_node()/finish()",
           len(fin_after) == 1 and len(flush_bb) == 1 and bt.dominates(flush_bb[0], fin_after[0]), where=bt.loc(),
           how="finish_node after loop: %d" % len(fin_after))
    # trivia predicates used in Open arms must also cover whitespace so no raw token is stranded before a node start:
    # not needed for losslessness (stranded trivia are flushed by the next Advance/final flush).
    # ---- L8 eat_token itself
    et = et0
    de = FL.Defs(et)
    be = et.back_edges()
    toks = [(b, t) for b, t in et.calls() if (callee(t) or "").endswith("GreenNodeBuilder::token")]
    incs = []
    for b, i, s in et.stmts():
        if s["k"] == "assign" and s["place"]["p"] == ["*"]:
            o = de.origin_rv(s["rv"], None, b, 0, ())
            base = o
            while base.get("k") == "field":
                base = base["base"]
            if base.get("k") == "rv" and base["rv"].get("op") == "AddWithOverflow":
                k = base["rv"]["b"].get("k")
                pa = op_place(base["rv"]["a"])
                if k and str(k.get("bits")) == "1" and pa and pa["l"] == s["place"]["l"] and pa["p"] == ["*"]:
                    incs.append((b, s["place"]["l"]))
    ok_loop = len(be) == 1 and len(toks) == 1 and len(incs) == 1
    in_body = False
    if ok_loop:
        body = et.natural_loop(*be[0])
        in_body = toks[0][0] in body and incs[0][0] in body and et.dominates(toks[0][0], be[0][0]) and et.dominates(incs[0][0], be[0][0])
    res.ob("L8", "eat_token/one-token-one-step", "each iteration of eat_token emits exactly one builder.token and advances *pos by 1",
           ok_loop and in_body, where=et.loc(), how="loops %d, token calls %d, `*pos += 1` %d" % (len(be), len(toks), len(incs)))
    # iterates 0..n with n = its first parameter
    ok_n = False
    for b, t in et.calls():
        if (callee_def(t) or "").endswith("IntoIterator::into_iter"):
            o = de.origin_op(t["args"][0])
            if o.get("k") == "agg" and o["rv"]["adt"].endswith("ops::range::Range"):
                lo = de.origin_op(o["rv"]["ops"][0])
                hi = de.origin_op(o["rv"]["ops"][1])
                ok_n = lo.get("k") == "const" and str(lo["c"].get("bits")) == "0" and hi.get("k") == "arg" and hi["n"] == (2 if is_clos else count_arg)
    res.ob("L8", "eat_token/n-iterations", "eat_token iterates exactly 0..n for the count it was given", ok_n, where=et.loc(),
           how="range 0..param" if ok_n else "iteration range not recognised")
    # token read at *pos; kind and text from that same token; text = src[range]
    ok_tok = False
    if toks:
        t = toks[0][1]
        ko = de.origin_op(t["args"][1], ("Into<U>>::into",))
        to = de.origin_op(t["args"][2], ("Index<text_size::range::TextRange> for str>::index", "::index"))

        def tokbase(o):
            prs = []
            while o.get("k") == "field":
                prs = [e.get("n") for e in o["proj"]] + prs
                o = o["base"]
            return o, prs
        kb, kp = tokbase(ko)
        ok_k = kb.get("k") == "call" and (callee(kb["t"]) or "").endswith("Option::<T>::unwrap") and kp[-1:] == ["kind"]
        # the text: index(src, range) with range = same token's .range
        ok_t = False
        for b2, t2 in et.calls():
            if "Index<text_size::range::TextRange>" in (callee(t2) or callee_def(t2) or ""):
                ro = de.origin_op(t2["args"][1])
                rb, rp = tokbase(ro)
                ok_t = rb.get("k") == "call" and rb.get("bb") == kb.get("bb") and rp[-1:] == ["range"]
        getidx = False
        for b2, t2 in et.calls():
            if (callee(t2) or "").endswith("[T]::get"):
                io = de.origin_op(t2["args"][1])
                getidx = io.get("k") == "arg" and io["n"] == 4 or (io.get("k") == "field" and False)
                pl = op_place(t2["args"][1])
                if pl is not None:
                    dd = de.whole_defs(pl["l"])
                    if len(dd) == 1 and dd[0][2] == "assign" and dd[0][3]["rv"]["k"] == "use":
                        sp = op_place(dd[0][3]["rv"]["op"])
                        getidx = sp is not None and sp["p"] == ["*"] and sp["l"] == (incs[0][1] if incs else -1)
        ok_tok = ok_k and ok_t and getidx
    res.ob("L8", "eat_token/emits-token-at-pos", "the emitted token is tokens_raw[*pos]: its kind, and src[its range] as text",
           ok_tok, where=et.loc(), how="def-use traced" if ok_tok else "shape not recognised")
    # n_tokens! predicates index the same vector by the scanned position (closure bodies)
    # the vector both closures read is tokens_raw moved out of self
    tr = [e for e in __import__("lib.effects", fromlist=["x"]).field_effects(F.fn(BT), PM.PA) if e["field"] == "tokens_raw"]
    res.ob("L8", "build_tree/uses-tokens_raw", "build_tree walks tokens_raw (the unfiltered list), moved out of the parser once",
           len(tr) == 1 and tr[0]["how"] == "move", where=bt.loc(), how=str([(e["how"], e["ln"]) for e in tr]))


def lexer_reads_its_whole_input(F, res, rule="L2"):
    """The ranges the lexer reports are offsets into the text it was handed; the tree builder slices the text parse_module was handed
    with them, and rename judges a new name by lexing it. Both lean on GleamLexer::new lexing exactly its argument: the text given to
    the generated lexer is the parameter itself - nothing stripped, trimmed or sliced off first (a byte order mark dropped here shifts
    every token by three bytes for the builder and makes a name with a byte order mark in front one valid identifier for rename)."""
    f = F.fns.get("syntax::lexer::GleamLexer::new")
    if f is None or not f.blocks:
        res.anchor_missing(rule, "syntax::lexer::GleamLexer::new")
        return
    d = FL.Defs(f)
    mk = [(b, t) for b, t in f.calls() if FL.short(callee(t) or callee_def(t) or "").rsplit("::", 1)[-1] in ("lexer", "lexer_with_extras")]
    ok, how = bool(mk), []
    for b, t in mk:
        o = d.origin_op(t["args"][0])
        direct = o.get("k") == "arg" and o.get("n") == 1
        how.append("line %s: input is %s" % (t["ln"], "the parameter itself" if direct else
                                             ("the answer of %s" % FL.short(callee(o["t"]) or callee_def(o["t"]) or "?") if o.get("k") == "call" else o.get("k"))))
        ok = ok and direct
    res.ob(rule, "lexer/lexes-its-argument", "GleamLexer::new hands the generated lexer the text it was given, whole", ok, where=f.loc(), how="; ".join(how) or "no lexer constructed")


def leaves_start_with_their_token(F, res, rule):
    """A node begins at its first token: before build_tree starts a node of a kind that has no arm of its own (every kind but the
    ones that take their doc comments in), it has emitted *all* pending trivia. The one-token nodes - NAME, NAME_REF, TYPE_NAME, LABEL,
    LITERAL - are read through `first token` accessors, and a comment in front of a documented field or parameter would otherwise be
    that first token: `VariantField::label().text()` answers the comment. (Losslessness does not need this: C01 asks only that the
    predicate admits nothing but trivia.)"""
    from lib import report as _R
    tmp = _R.Result("tmp")
    try:
        build_tree_rules(F, tmp)
    except Exception as e:  # noqa
        res.anchor_missing(rule, "build_tree could not be analysed: %r" % (e,))
        return
    info = tmp.analysed.get("open_flushes") or []
    gen = [x for x in info if x["general"]]
    res.ob(rule, "build_tree/nodes-start-at-their-first-token", "the general Open arm of build_tree flushes every pending trivia token before it starts the node "
           "(only the kinds that have an arm of their own keep doc comments for the inside)", bool(gen) and all(x["all_trivia"] for x in gen),
           where="crates/syntax/src/parser.rs", how="general flush sites: %s" % [(x["line"], (x["pred"] or "?").rsplit("::", 1)[-1], x["all_trivia"]) for x in gen])


def run(F, res, tier):
    _lv = pcache.results(F).get("loop_viol") or {}
    res.ob("L11", "parser-loops-progress", "every loop of the parser consumes a token per iteration (C02/P2): a loop that stands still ends in the progress guard's panic and no tree is built for the text", not _lv,
           where="crates/syntax/src/parser.rs", how="loops that can go round without consumption: %s" % sorted(_lv)[:6] if _lv else "all loops progress")
    from rules import c14 as _c14u
    _c14u.text_positions_are_counted_in_bytes(F, res, rule="L10", crates=('syntax',))   # engine U: a token range or a lexer advance counted in characters loses the tail of every non-ASCII token
    R = pcache.results(F)
    res.analysed.update({"functions": ["syntax::parser::parse_module", "syntax::parser::module", BT, EAT,
                                       "GleamLexer::next", "Parser::{bump,nth,eof,start_node,start_node_before,finish_node,error}"],
                         "lexer_rules": len(R["lex_kinds"])})
    lexer_rules(F, res)
    lexer_next(F, res)
    lexer_reads_its_whole_input(F, res)
    parse_module_rules(F, res)
    PM.check_field_writers(F, res, "L4", with_fuel=False)
    PM.check_model(F, res, "L4m", with_fuel=False)
    module_rules(F, res)
    build_tree_rules(F, res)
    # Advance count = |N|: bump is the only producer and the only mover (L4), and every bump is preceded by !eof (C02/P1)
    bad = [k for k in R["panic_sites"] if "|" + PM.P + "bump|" in k]
    res.ob("L6", "bump-never-past-end", "no bump() is reachable at end of input (pos never exceeds tokens.len())", not bad,
           where=LOC, how="engine P: %d contexts, EOF excluded at all %d bump sites" % (R["contexts"], len(R["bumps"])) if not bad else str(bad))


    # there is a tree at all: parse_module's one deliberate panic (the progress guard in Parser::nth) cannot fire (C02/P4, P5)
    from rules import c02 as _c02
    NS = _c02.nesting_status(F, R)
    init, refill = _c02.fuel_constants(F)
    shallow = init is not None and refill is not None and R["la_abs"] < min(init, refill)
    res.ob("L9", "tree-for-every-text", "parse_module builds a tree for every text: the look-ahead budget covers the largest run of look-aheads between "
           "two consumed tokens, at the surface and on the way back out of the deepest nesting the guard admits (C02/P4, P5a, P5b)",
           NS["ok"] and shallow, where="crates/syntax/src/parser.rs",
           how="%s x %s + %s + %s = %s vs fuel %s; nesting guard and cuts: %s" % (NS["limit"], NS["heaviest_level"], NS["non_recursive_tails"], NS["head"],
                                                                               NS["bound"], NS["fuel"], NS["ok"]))


def thorough(F, res):
    from lib import pcache as _pc
    _pc.crosscheck(F, res)
