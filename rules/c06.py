"""C06 — Find-references and go-to-definition are inverse views (one classifier, candidate kinds, token-exact names)."""
import re

from lib import flow as FL
from lib import teval
from lib.facts import op_local, callee, callee_def

META = {
    "level": "other",
    "technique": "static analysis: who-may-call (one classifier), enum tabulation of can_cast over all node kinds vs the classifier's dispatch, call-graph reachability (no node-text stringification behind Definition::name), set-typed result collection",
    "rule": "R1 goto_definition, references, highlight_related, rename, hover, semantic highlighting and all FindUsages::found_* obtain their "
            "Definition from classify_node, and the per-kind classifiers are called from classify_node only; every call of the sink in a found_* function is preceded by classify_node on every path; R2 the node kinds the search "
            "casts a hit's parent to equal the kinds classify_node dispatches on; R3 Definition::name (the text the search compares tokens "
            "with) never stringifies a syntax node; every Definition variant that classify_name can produce for a binder has an arm; R4 "
            "results are collected through a set and highlight restricts the same search to the current file. One obligation per function/kind. R5 the search scope covers every module file of every package unless the definition is local. R6 = C05/S9 node identity; R4 also: a set that filters the references is keyed by (file, range).",
    "explanation": "The usage search keeps a hit only if a token at the offset has text == def.name() and classify_node(parent) == def; "
                   "go-to-definition is classify_node at the cursor. The two views can only be inverse if they share one classifier, "
                   "look at the same node kinds, and the name is the text of one identifier token. These necessary conditions are "
                   "decided on the MIR for all programs; completeness of the search scope is behavioural and not decided. R12 = C14 U12 (engine U: the search range ends at the byte length). R4 also: a deduplication by key function keeps the file. R13 = C07 N19.",
    "not_decided": "completeness of the search scope; that classify_node is correct for every syntactic position.",
    "trusted_base": ["rustc MIR + callee resolution", "rowan: SyntaxToken::text is the token's exact text"],
    "assumptions": [],
}

SEM = "ide::def::semantics::"
CLASSIFY = SEM + "classify_node"
FEATURES = ["ide::ide::goto_definition::goto_definition", "ide::ide::references::references",
            "ide::ide::highlight_related::highlight_related", "ide::ide::rename::find_def",
            "ide::ide::semantic_highlighting::highlight", "ide::ide::hover::hover"]
FOUND = ["found_name", "found_name_ref", "found_type_name", "found_label"]
SK = "syntax::kind::SyntaxKind"


def found_functions(F):
    """the methods of FindUsages that report a hit: they invoke the sink (a `&mut dyn FnMut(FileId, TextRange) -> bool`
    parameter). Four on the reviewed tree (found_name, found_name_ref, found_type_name, found_label)."""
    out = []
    for p, f in sorted(F.fns.items()):
        if p.startswith("ide::def::search::FindUsages::") and "{closure" not in p and f.blocks and \
                any("FnMut" in str(i_) for i_ in f.d.get("inputs", [])) and \
                any("fnop" in t or (callee_def(t) or "").endswith("FnMut::call_mut") or (callee(t) or "").endswith("call_mut") for b, t in f.calls()):
            out.append(p.rsplit("::", 1)[-1])
    return out or FOUND


def cast_types(F, fn):
    """AST node types a function tries to cast a node to (match_ast! arms)"""
    out = []
    for b, t in fn.calls():
        c = callee(t) or callee_def(t) or ""
        m = re.match(r"^<(syntax::ast::\w+) as rowan::ast::AstNode>::cast$", c)
        if m:
            out.append(m.group(1))
    return out


def run(F, res, tier):
    from rules import c07 as _c07alt
    _c07alt.binders_of_alternatives_are_one_variable(F, res, rule="R13")   # every binder of the variable is among its references
    from rules import c14 as _c14u
    _c14u.text_positions_are_counted_in_bytes(F, res, rule="R12", crates=('ide',))   # engine U: the range the usage search looks at ends at the last byte of the file, not at its character count
    # ---- R1
    for p in FEATURES:
        f = F.fn(p)
        fs = [F.fns[x] for x in F.with_helpers(p, depth=1, stop=[SEM])]
        calls = [callee(t) for ff in fs for b, t in ff.calls()]
        res.ob("R1", "feature/" + p.rsplit("::", 1)[-1], "%s classifies the node under the cursor with classify_node" % p.rsplit("::", 1)[-1],
               CLASSIFY in calls, where=f.loc(), how="calls classify_node: %s" % (CLASSIFY in calls))
    for n in found_functions(F):
        f = F.fn("ide::def::search::FindUsages::" + n)
        fs = [F.fns[x] for x in F.with_helpers(f.path, depth=1, stop=[SEM])]
        calls = [callee(t) for ff in fs for b, t in ff.calls()]
        eq = any((callee_def(t) or "").endswith(("PartialEq::eq", "PartialEq::ne")) or (callee(t) or "").endswith(("PartialEq>::eq", "PartialEq>::ne"))
                 for ff in fs for b, t in ff.calls())
        res.ob("R1", "search/" + n, "FindUsages::%s keeps a candidate only if classify_node(candidate) equals the searched definition" % n,
               CLASSIFY in calls and eq, where=f.loc(), how="classify_node: %s, equality test: %s" % (CLASSIFY in calls, eq))
        # every hit: no path reaches a sink call without having classified the candidate
        from lib import inline as IL
        fi = IL.inlined(F, f, depth=1)
        cls = [b for b, t in fi.calls() if callee(t) == CLASSIFY]
        sinks = [(b, t) for b, t in fi.calls() if "fnop" in t or (callee_def(t) or "").endswith("FnMut::call_mut") or (callee(t) or "").endswith("call_mut")]
        res.floor("sink calls in FindUsages::%s" % n, len(sinks), 1)
        for k, (b, t) in enumerate(sinks):
            ok = bool(cls) and FL.must_pass(fi, cls, [b])
            res.ob("R1", "search/%s/hit/%d" % (n, k), "FindUsages::%s reports this hit only after classify_node(candidate) was asked: the search has no second way "
                   "of deciding what a name refers to" % n, ok, where=fi.loc(t["ln"]),
                   how="every path from the entry to this sink call passes a classify_node call: %s" % ok)
    private = [p for p in F.fns if p.startswith(SEM + "classify_") and p != CLASSIFY and F.fns[p].kind == "Fn"]
    res.floor("per-kind classifier functions", len(private), 4)
    for p in sorted(private):
        callers = sorted({f.path for f, b, t in F.callers_of(lambda c, p=p: c == p)})
        ok = all(c == CLASSIFY or c.startswith(SEM + "classify_") for c in callers)
        res.ob("R1", "private/" + p.rsplit("::", 1)[-1], "%s is reached only through classify_node" % p.rsplit("::", 1)[-1], ok,
               where=F.fns[p].loc(), how="callers: %s" % [c.rsplit("::", 1)[-1] for c in callers])
    # ---- R2
    pure = teval.Pure(F)
    kinds = F.variants(SK)
    cc = "<syntax::ast::TypeNameOrName as rowan::ast::AstNode>::can_cast"
    if cc not in F.fns:
        res.anchor_missing("R2", cc)
    else:
        cand = set()
        for k in kinds:
            try:
                if pure.call(cc, [("e", SK, k)]) == 1:
                    cand.add(k)
            except Exception as e:  # noqa
                res.note("can_cast evaluation failed for %s: %s" % (k, e))
        cf = F.fn(CLASSIFY)
        arms = cast_types(F, cf)
        armk = set()
        for a in arms:
            fn = "<%s as rowan::ast::AstNode>::can_cast" % a
            for k in kinds:
                try:
                    if pure.call(fn, [("e", SK, k)]) == 1:
                        armk.add(k)
                except Exception:  # noqa
                    pass
        res.analysed["search_candidate_kinds"] = sorted(cand)
        res.analysed["classifier_kinds"] = sorted(armk)
        res.ob("R2", "candidate-kinds", "the node kinds a search hit is cast to (TypeNameOrName) are exactly the kinds classify_node dispatches on",
               cand == armk and bool(cand), where=cf.loc(), how="search: %s classifier: %s" % (sorted(cand), sorted(armk)))
        sf = F.fn("ide::def::search::FindUsages::search")
        fs = [F.fns[x] for x in F.with_closures(sf.path)]
        tcast = any((callee(t) or "") == "<syntax::ast::TypeNameOrName as rowan::ast::AstNode>::cast" or
                    any("TypeNameOrName" in str(a) and "cast" in str(a) for a in [t.get("fn", {}).get("full", "")])
                    for ff in fs for b, t in ff.calls()) or \
            any("TypeNameOrName" in str(op.get("k", {}).get("fn", {}).get("res", "")) for ff in fs for op in __import__("lib.facts", fromlist=["x"]).all_operands(ff))
        res.ob("R2", "search-casts-to-TypeNameOrName", "the search casts a hit's parent node to TypeNameOrName", tcast, where=sf.loc(), how=str(tcast))
    # ---- R3
    dn = SEM + "Definition::name"
    seen = F.reachable_from([dn], stop=[p for p in F.fns if p.endswith("QueryFunction>::execute")])
    bad = []
    for p in seen:
        f = F.fns[p]
        for b, t in f.calls():
            c = callee(t) or callee_def(t) or ""
            full = (t.get("fn") or {}).get("full", "")
            if c.endswith("ToString>::to_string") or c.endswith("ToString::to_string") or "SyntaxText" in c or c.endswith("SyntaxNode::<L>::text"):
                if "SyntaxNode" in full or "SyntaxText" in full or "SyntaxNode" in c or "SyntaxText" in c:
                    bad.append((p, t["ln"], c))
    res.ob("R3", "name-is-token-text", "Definition::name never stringifies a syntax node (its result is the text of one identifier token, which is what the search compares with)",
           not bad, where=F.fn(dn).loc(), how="%d functions reachable without entering a query" % len(seen) if not bad else str(bad[:3]))
    # the binder kinds that produce locals are all classified
    cn = F.fn(SEM + "classify_name")
    arms = set(cast_types(F, cn))
    want = {"syntax::ast::PatternVariable", "syntax::ast::PatternSpread", "syntax::ast::Function", "syntax::ast::ModuleConstant",
            "syntax::ast::Variant", "syntax::ast::VariantField"}
    res.ob("R3", "binder-arms", "classify_name has an arm for every construct whose Name child declares something (incl. the spread binder `..rest`)",
           want <= arms, where=cn.loc(), how="arms: %s" % sorted(a.rsplit("::", 1)[-1] for a in arms))
    search_scope_rules(F, res)
    node_identity_rules(F, res, "R6")
    # ---- R4
    for p, ty in (("ide::ide::references::references", "HashSet"), ("ide::ide::highlight_related::highlight_related", "HashSet")):
        f = F.fn(p)
        has_set = any(("collections::hash::set::HashSet" in l["ty"] or "collections::btree::set::BTreeSet" in l["ty"] or "indexmap::set::IndexSet" in l["ty"])
                      for l in f.d["locals"])
        # .. or through a list that is sorted and then dedup()ed as whole values (equal entries are adjacent after the sort)
        names = {FL.short(callee(t) or callee_def(t) or "").rsplit("::", 1)[-1] for q in [p] + list(F.closures_of(p)) for _b, t in F.fns[q].calls()}
        sorted_dedup = "dedup" in names and bool(names & {"sort", "sort_by_key", "sort_by", "sort_unstable", "sort_unstable_by_key", "sort_unstable_by"})
        res.ob("R4", "set/" + p.rsplit("::", 1)[-1], "%s collects its result through a set keyed by (file, range): nothing is listed twice" % p.rsplit("::", 1)[-1],
               has_set or sorted_dedup, where=f.loc(), how="set local present: %s; sorted and dedup()ed as whole values: %s" % (has_set, sorted_dedup))
    import re as _re
    rf = "ide::ide::references::references"
    elems = set()
    for q in [rf] + list(F.closures_of(rf)):
        for l in F.fns[q].d["locals"]:
            m = _re.search(r"(?:Hash|Index|BTree)Set<(.*)>$", l["ty"].split(", ")[0] + (">" if ", " in l["ty"] else ""))
            if m:
                elems.add(m.group(1))
    narrow = sorted(e for e in elems if "FileRange" not in e and "FileId" not in e)
    res.ob("R4", "references/sets-keyed-by-file", "a set that decides whether a found occurrence is listed by `references` is keyed by the file as "
           "well as the range (the same range in two files is two references)", not narrow, where=F.fn(rf).loc(),
           how="set element types: %s" % sorted(elems))
    # the same for a key function: `unique_by(|r| r.range)` / `dedup_by_key(..)` keep one of two references that share a range in two files
    keyed = []
    for q in [rf] + list(F.closures_of(rf)):
        g = F.fns[q]
        dg = FL.Defs(g)
        for _b, t in g.calls():
            nm = FL.short(callee(t) or callee_def(t) or "").rsplit("::", 1)[-1]
            if nm not in ("unique_by", "dedup_by_key", "dedup_by", "sorted_unstable_by_key", "group_by", "chunk_by", "into_group_map_by", "min_set_by_key", "max_set_by_key"):
                continue
            for a in t["args"][1:]:
                oa = dg.origin_op(a) if isinstance(a, dict) and "k" not in a else {}
                if oa.get("k") == "agg" and oa["rv"].get("closure") in F.fns:
                    kt = str(F.fns[oa["rv"]["closure"]].local_ty(0) or "")
                    if nm in ("unique_by", "dedup_by_key") and "FileRange" not in kt and "FileId" not in kt:
                        keyed.append("%s keyed by %s (line %s)" % (nm, kt, t["ln"]))
                    elif nm == "dedup_by":
                        keyed.append("%s (line %s): a hand-written sameness test" % (nm, t["ln"]))
    res.ob("R4", "references/dedup-keyed-by-file", "a deduplication of the references by a key function keeps the file in the key", not keyed,
           where=F.fn(rf).loc(), how="no key function that drops the file" if not keyed else "; ".join(keyed))
    highlight_current_file(F, res, "R4")
    # the set of highlight_related merges two entries only if they are equal as a whole: whatever an entry carries besides its
    # range must be the same for all of them, or one range can be listed twice
    import re as _re2
    hp = "ide::ide::highlight_related::highlight_related"
    hfs = [F.fns[q] for q in [hp] + list(F.closures_of(hp))]
    el = {m.group(1) for ff in hfs for l in ff.d["locals"] for m in [_re2.search(r"hash::set::HashSet<([^,>]+)", l["ty"])] if m}
    for e in sorted(el):
        if e.endswith("TextRange"):
            continue
        cons = [(ff, b, st) for ff, b, st in EF_constructions(F, e) if ff.path == hp or ff.path.startswith(hp + "::")]
        vals = {}
        for ff, b, st in cons:
            for nm, op in zip(st["rv"].get("fields") or [], st["rv"]["ops"]):
                if nm == "range":
                    continue
                vals.setdefault(nm, set()).add(json_key(op) if "k" in op else "not a constant @%s" % ff.loc(st["ln"]))
        bad = {k: sorted(v) for k, v in vals.items() if len(v) > 1 or any(x.startswith("not a constant") for x in v)}
        res.ob("R4", "highlight/one-entry-per-range", "the entries highlight_related collects differ in their range only (the set compares whole entries: a second "
               "value of another field lists the same range twice)", bool(cons) and not bad, where=F.fn(hp).loc(),
               how="%d constructions of %s; fields besides range: %s" % (len(cons), e.rsplit("::", 1)[-1], {k: sorted(v) for k, v in vals.items()}))
    hl = F.fn("ide::ide::highlight_related::highlight_related")
    calls = [FL.short(callee(t) or callee_def(t)) for b, t in hl.calls()]
    res.ob("R4", "highlight-same-search", "highlight_related runs the same usage search restricted to the current file (SearchScope::single_file)",
           "SearchScope::single_file" in calls and "FindUsages::all" in calls, where=hl.loc(), how=str([c for c in calls if "Search" in c or "FindUsages" in c]))
    search_rejections_are_reviewed(F, res)
    search_scope_narrowings_are_reviewed(F, res)
    textual_hits_may_overlap(F, res)
    from rules import c07 as _c07
    _c07.label_classifiers_agree(F, res, rule="R11")   # the declaration side and the use side of a label name one field


def EF_constructions(F, adt):
    from lib import effects as EF
    return EF.constructions(F, adt, None, "ide::")


def json_key(op):
    import json
    return json.dumps(op["k"], sort_keys=True)


def castable_kinds(F):
    """SyntaxKinds some typed AST node can be cast from"""
    from lib import teval
    pure = teval.Pure(F)
    SK = "syntax::kind::SyntaxKind"
    kinds = F.variants(SK)
    out = set()
    n = 0
    for p in sorted(F.fns):
        if p.startswith("<syntax::ast::") and p.endswith(" as rowan::ast::AstNode>::can_cast"):
            n += 1
            for k in kinds:
                try:
                    if pure.call(p, [("e", SK, k)]) == 1:
                        out.add(k)
                except Exception:  # noqa
                    pass
    return out, n


def node_identity_rules(F, res, rule):
    """source maps key a declaration by AstPtr = (kind, text range): two distinct castable nodes must never share both"""
    from lib import shape
    R = shape.results(F)
    cast, ncast = castable_kinds(F)
    bad = [w for w in R["same_kind_wrappers"] if w[2] in cast]
    res.floor("finish_node sites whose children were enumerated", len(R["finish_sites"]), 86)
    res.floor("typed AST node types", ncast, 72)
    for fn, n, kind in bad:
        f = F.fn(fn)
        res.ob(rule, "node-identity/%s/%s/%d" % (fn.rsplit("::", 1)[-1], kind, n),
               "no %s node consists of exactly one %s node (same kind, same range: the two share one AstPtr, the source maps keep one of them "
               "and the binder's name is looked up on the other)" % (kind, kind), False, where=f.loc(),
               how="finish_node(_, %s) #%d in %s() can wrap a single child of kind %s and no token" % (kind, n, fn.rsplit("::", 1)[-1], kind))
    res.ob(rule, "node-identity", "no castable syntax node consists of exactly one node of its own kind (so (kind, range) identifies a node, which "
           "is what AstPtr, the body source map and classify_name rely on)", not bad, where="crates/syntax/src/parser.rs",
           how="%d finish_node sites over %d parser functions, children enumerated on every control path up to 8 items; expect/eat sites proven "
               "to consume: %d of %d; same-kind wrappers of castable kinds: %s"
               % (len(R["finish_sites"]), R["functions"], R["certain_consumes"], R["expect_or_eat_sites"], [tuple(b) for b in bad]))


def search_scope_rules(F, res):
    """R5: the usage search looks at every module file of every package (no package or file is filtered out)"""
    pg = F.fn("ide::def::search::SearchScope::package_graph")
    d = FL.Defs(pg)
    ins = [(b, t) for b, t in pg.calls() if FL.short(callee(t) or callee_def(t)).endswith("::insert")]
    ok = bool(ins)
    sigs = []
    for b, t in ins:
        sig = FL.guard_signature(F, pg, b, d)
        sigs.append(sig)
        if not all(("::next(" in g and "['Some']" in g) for g in sig):
            ok = False
    res.ob("R5", "package_graph/all-files", "SearchScope::package_graph inserts every module file of every package of the graph (the only conditions on the way are the two loops)",
           ok, where=pg.loc(), how="conditions guarding the insert: %s" % sigs)
    calls = [FL.short(callee(t) or callee_def(t)) for b, t in pg.calls()]
    res.ob("R5", "package_graph/iterates-graph", "it iterates db.package_graph() and each package's source root module files",
           "PackageGraph::iter" in calls and "SourceRoot::module_files" in calls, where=pg.loc(), how=str([c for c in calls if "iter" in c or "files" in c]))
    ss = F.fn("ide::def::search::Definition::search_scope") if "ide::def::search::Definition::search_scope" in F.fns else \
        F.fn("ide::def::semantics::Definition::search_scope")
    made = sorted({FL.short(callee(t) or callee_def(t)) for b, t in ss.calls() if FL.short(callee(t) or callee_def(t)).startswith("SearchScope::")})
    dss = FL.Defs(ss)
    single = [b for b, t in ss.calls() if FL.short(callee(t) or callee_def(t)) == "SearchScope::single_file"]
    local_only = bool(single)
    for b in single:
        sig = FL.guard_signature(F, ss, b, dss)
        if not any("['Local']" in g for g in sig):
            # `matches!(self, Definition::Local(_))`: the test result is a bool assigned under the discriminant; follow the
            # constants: with every edge `discriminant == Local` removed the call must be unreachable
            names = FL.enum_names(F, "ide::def::semantics::Definition") or {}
            loc = [k for k, v in names.items() if v == "Local"]

            def forbid(x, y, loc=loc):
                t_ = ss.term(x)
                if t_.get("k") != "switch" or not loc:
                    return False
                o_ = dss.origin_op(t_["op"])
                if o_.get("k") == "rv" and o_["rv"].get("k") == "discr" and (o_["rv"].get("of") or "").endswith("Definition"):
                    hit = [tb for v, tb in t_["targets"] if v == loc[0]]
                    tgt = hit[0] if hit else t_["otherwise"]
                    return y == tgt
                return False
            if not loc or FL.reachable_following_constants(ss, 0, [b], forbid=forbid):
                local_only = False
    res.ob("R5", "search_scope/whole-graph-unless-local", "a definition is searched in the whole package graph unless it is a local (then: its file)",
           set(made) <= {"SearchScope::empty", "SearchScope::single_file", "SearchScope::package_graph"} and "SearchScope::package_graph" in made and local_only,
           where=ss.loc(), how="scopes built: %s; single_file only for locals: %s" % (made, local_only))
    # ... and the definition's own neighbourhood is searched whether or not the package graph knows it: on the non-local path
    # search_scope adds entries whose file ids come out of the source root of Definition::module's file
    own = False
    for b, t in ss.calls():
        c = FL.short(callee(t) or callee_def(t) or "")
        full = (t.get("fn") or {}).get("full") or ""
        if c.rsplit("::", 1)[-1] in ("insert", "entry", "extend") and ("HashMap" in full or "IntMap" in full):
            for a in t["args"][1:2]:
                dep = FL.depends(F, ss, dss, a)
                if any(x.endswith("file_source_root") for x in dep["calls"]) and any(x.endswith("Definition::module") for x in dep["calls"]):
                    own = True
    res.ob("R7", "search_scope/own-source-root", "the scope searched for a non-local definition contains the module files of the source root the definition "
           "itself lives in (a file outside every package of the graph - a scratch file, dev/, a project whose gleam.toml cannot be read - still "
           "lists its own declarations and uses)", own, where=ss.loc(), how="entries added from source_root(file_source_root(Definition::module(..))): %s" % own)
    sr = F.fn("ide::def::search::FindUsages::search")
    base = any(FL.short(callee(t) or callee_def(t)) == "Definition::search_scope" for b, t in sr.calls())
    res.ob("R5", "search/uses-definition-scope", "FindUsages::search scans Definition::search_scope", base, where=sr.loc(), how=str(base))


def highlight_current_file(F, res, rule):
    """the usage ranges highlight_related reports are the entry of the request's own file in the search result"""
    hl = F.fn("ide::ide::highlight_related::highlight_related")
    d = FL.Defs(hl)
    keyed = False
    for b, t in hl.calls():
        c = FL.short(callee(t) or callee_def(t))
        if c in ("HashMap::remove", "HashMap::get", "HashMap::get_mut") and len(t["args"]) > 1:
            ko = d.origin_op(t["args"][1])
            if ko.get("k") == "field" and [e.get("n") for e in ko["proj"] if isinstance(e, dict)][-1:] == ["file_id"]:
                base = ko
                while base.get("k") == "field":
                    base = base["base"]
                if base.get("k") == "arg":
                    keyed = True
    whole = []
    for pth in F.with_closures(hl.path):
        f = F.fns[pth]
        for b, t in f.calls():
            full = (t.get("fn") or {}).get("full", "") + str((t.get("fn") or {}).get("targs", ""))
            c = FL.short(callee(t) or callee_def(t))
            if c in ("IntoIterator::into_iter", "HashMap::iter", "HashMap::values", "HashMap::into_values", "HashMap::drain") and \
                    ("UsageSearchResult" in full or ("HashMap" in full and "FileId" in full and "TextRange" in full)):
                whole.append((pth.rsplit("::", 1)[-1], t["ln"]))
    res.ob(rule, "highlight/own-file-entry", "highlight_related takes the usage ranges of the request's own file out of the search result (a keyed lookup with fpos.file_id) "
           "and never walks the result for all files", keyed and not whole, where=hl.loc(),
           how="keyed lookup by fpos.file_id: %s; iterations over the whole result: %s" % (keyed, whole))


FILTERING = ("filter", "filter_map", "find", "find_map", "take_while", "skip_while", "take", "skip", "step_by", "dedup", "dedup_by", "dedup_by_key",
             "position", "rposition", "any", "all", "nth", "last", "rev", "retain", "truncate", "map_while", "scan", "flat_map", "flatten")
# what decides, in the reviewed search: the definition has a name to look for (and is not a module); the hit lies in the part of the file the
# scope names (inclusive at both ends); a token at the hit has exactly the name as its text and its parent is a name-like node; that node
# classifies to the definition searched for; the sink asked to stop. Everything else below is plumbing (iteration, tracing, Option tests).
SEARCH_DECIDES = {
    "semantics::classify_node": "the candidate's own classification",
    "PartialEq::eq": "the classification equals the definition searched for / the token's text equals the name",
    "PartialEq::ne": "the same tests, negated",
    "impls::eq": "the same equality asked through references (core::cmp::impls: `&A == &B` is `A == B`)",
    "impls::ne": "the same, negated",
    "TextRange::contains_inclusive": "the hit lies inside the range the scope gives for this file (both ends included: a name at the very end of a function)",
    "Option::and_then": "the token's parent is a name-like node (TypeNameOrName::cast)",
    "TypeNameOrName::cast": "the token's parent is a name-like node",
    "AstNode::cast": "the token's parent is a name-like node",
    "adaptor:Iterator::filter_map": "the range test, as an adaptor",
    "adaptor:Iterator::filter": "the range test, as an adaptor",
    "adaptor:Iterator::find": "the token whose text is the name, among the (at most two) tokens at the offset",
    "Definition::name": "a definition without a name has no textual hits",
    "Finder::find": "the text search itself: the next place where the name is written (None: no more)",
    "adaptor:Finder::find": "the text search itself",
    "[T]::get": "the rest of the text behind the last hit (None: the text is used up)",
    "slice::get": "the rest of the text behind the last hit",
}
SEARCH_PLUMBING = ("Iterator::next", "IntoIterator::into_iter", "Option::is_none", "Option::is_some", "Try::branch", "const", "multi", "arg",
                   "Interest::is_never", "__macro_support::__is_enabled", "dispatcher::has_been_set", "PartialOrd::le", "PartialOrd::lt",
                   "Lazy::force", "Deref::deref", "unknown", "agg", "promoted", "Log::enabled", "log::max_level", "LevelFilter", "Level")


def decision_names(F, f):
    """what decides control in f: for every switch the call (or comparison of calls) the tested value comes from; the filtering iterator
    adaptors f applies; and, when f is a closure, what its answer is computed by"""
    d = FL.Defs(f)
    out = set()

    def nm(o, depth=0):
        k = o.get("k")
        if depth > 6:
            return "?"
        if k == "call":
            c = FL.short(callee(o["t"]) or callee_def(o["t"]) or "?")
            # views of a value decide what the value decides: name.as_deref(), x.as_ref(), it.clone(), r.ok()
            if c.rsplit("::", 1)[-1] in ("as_deref", "as_ref", "as_mut", "clone", "cloned", "copied", "ok", "as_str", "deref", "borrow", "into") and o["t"]["args"]:
                a0 = o["t"]["args"][0]
                if isinstance(a0, dict) and "k" not in a0:
                    return nm(d.origin_op(a0), depth + 1)
            return c
        if k == "field":
            return nm(o["base"], depth + 1)
        if k == "rv":
            rv = o["rv"]
            if rv["k"] == "discr":
                return nm(d.origin_place(rv["place"]), depth + 1)
            if rv["k"] == "bin":
                return "%s(%s, %s)" % (rv["op"], nm(d.origin_op(rv["a"]), depth + 1), nm(d.origin_op(rv["b"]), depth + 1))
            if rv["k"] == "un":
                return nm(d.origin_op(rv["a"]), depth + 1)
            return "rv:" + rv["k"]
        if k == "arg":
            return "arg"
        return k or "unknown"
    for b in sorted(f.reachable()):
        t = f.term(b)
        if t["k"] == "switch":
            l = op_local(t["op"])
            out.add(nm(d.origin(l)) if l is not None else "const")
    for b, t in f.calls():
        c = FL.short(callee(t) or callee_def(t) or "")
        if c.rsplit("::", 1)[-1] in FILTERING:
            out.add("adaptor:" + c)
    if "{closure" in f.path and (f.d.get("output") or "") in ("bool",) or "{closure" in f.path and (f.d.get("output") or "").startswith("core::option::Option"):
        o = d.origin(0)
        for oc in ([o] if o.get("k") != "multi" else [{"k": "call", "t": dd[3], "bb": dd[0]} if dd[2] == "call" else d.origin_rv(dd[3]["rv"], 0, dd[0], 0, ()) for dd in o["defs"]]):
            n_ = nm(oc)
            if n_ not in ("agg", "const", "arg", "rv:agg", "unknown", "multi"):
                out.add(n_)
    return out


def search_rejections_are_reviewed(F, res, rule="R8"):
    """R8: the usage search rejects a textual hit for the reviewed reasons only. Between the text search and the sink a hit can be
    dropped by a range test, by the token test, by the cast to a name-like node and by the classifier; every one of these is a
    decision (a switch on a call's answer, a filtering adaptor, the answer of a closure handed to one) in FindUsages or a function
    of its module it calls. The decisions found are compared with the reviewed inventory by the function they ask: a new kind of
    decision - a second range test with other bounds, a word-boundary pre-filter, a length test - is a way to lose a reference
    that references / rename / highlight would all miss in the same way, so no sibling comparison notices it. Verifier-style:
    it reports a new decision even when it is harmless."""
    unit = [p for p in sorted(F.fns) if p.startswith("ide::def::search::FindUsages::") and F.fns[p].blocks and
            (p.split("FindUsages::", 1)[1].split("::", 1)[0] in ("search", "all") or "found_" in p)]
    # helpers of crate ide / syntax the unit calls that are not on the reviewed list take part too
    seen = set(unit)
    for p in list(unit):
        for b, t in F.fns[p].calls():
            c = callee(t) or ""
            if c.startswith(("ide::def::search::", "syntax::")) and c in F.fns and F.fns[c].blocks and c not in seen and \
                    FL.short(c) not in SEARCH_DECIDES and "ast::" not in c:
                seen.add(c)
                unit.append(c)
    found = {}
    unit_shorts = {FL.short(p) for p in unit}
    for p in unit:
        for n_ in decision_names(F, F.fns[p]):
            found.setdefault(n_, []).append(FL.short(p))
    unknown = {}
    for n_, where in found.items():
        parts = [x for x in __import__("re").split(r"[(), ]+", n_) if x and x not in ("Eq", "Ne", "Lt", "Le", "Gt", "Ge", "Not", "BitAnd", "BitOr")]
        # the answer of a function of the unit itself is plumbing: its own decisions are in the inventory
        rest = [x for x in parts if x not in SEARCH_DECIDES and not x.startswith(SEARCH_PLUMBING) and x not in SEARCH_PLUMBING and
                ("adaptor:" + x) not in SEARCH_DECIDES and x not in unit_shorts]
        if n_ in SEARCH_DECIDES or not rest:
            continue
        unknown[n_] = sorted(set(where))
    have = set(found)
    res.floor("functions of the usage search", len(unit), 8)
    res.ob(rule, "search/rejections-reviewed", "every decision between a textual hit and the sink is one of the reviewed ones (range of the scope, token text, "
           "name-like parent, classification, the sink's answer)", not unknown, where="crates/ide/src/def/search.rs",
           how="%d decisions in %d functions, all reviewed: %s" % (len(found), len(unit), sorted(n_ for n_ in found if n_ in SEARCH_DECIDES)) if not unknown else
           "not in the reviewed inventory: %s" % unknown)
    core = {"semantics::classify_node", "TextRange::contains_inclusive"}
    res.ob(rule, "search/reviewed-decisions-present", "the range test of the scope and the classification of the candidate are still what decides",
           core <= have, where="crates/ide/src/def/search.rs", how="present: %s" % sorted(core & have))


SCOPE_DECIDES = {
    "Definition::module": "a definition without a module (a built-in) has nothing to search",
    "arg": "a local is searched for in its own file only (the variant of the definition)",
}


def textual_hits_may_overlap(F, res, rule="R10"):
    """R10: every place where the name is written is a candidate, also one that starts inside the textual hit before it. The lexer
    splits `0x1x1x1` into the number `0x1` and the identifier `x1x1`; a search that reports non-overlapping hits only (`find_iter`,
    `str::matches`, `match_indices` of the standard library) finds `x1x1` at offset 1, skips to offset 5 and never offers the identifier at
    offset 3 to the classifier: go-to-definition from it finds the declaration, references does not list it."""
    unit = [p for p in sorted(F.fns) if p.startswith("ide::def::search::FindUsages::search") and F.fns[p].blocks]
    non_overlapping = sorted({FL.short(callee(t) or callee_def(t) or "") for p in unit for _b, t in F.fns[p].calls()
                              if FL.short(callee(t) or callee_def(t) or "").rsplit("::", 1)[-1] in ("find_iter", "rfind_iter", "matches", "rmatches", "match_indices", "rmatch_indices", "split")
                              and (callee(t) or "") not in F.fns})
    searches = sorted({FL.short(callee(t) or callee_def(t) or "") for p in unit for _b, t in F.fns[p].calls()
                       if FL.short(callee(t) or callee_def(t) or "") in ("Finder::find", "memmem::find", "str::find")})
    res.ob(rule, "search/overlapping-hits", "the usage search asks for the next hit from one byte behind the start of the last one (no iterator of non-overlapping "
           "matches)", bool(searches) and not non_overlapping, where="crates/ide/src/def/search.rs",
           how="searches with %s" % searches if not non_overlapping else "non-overlapping match iterators: %s" % non_overlapping)


def search_scope_narrowings_are_reviewed(F, res, rule="R9"):
    """R9: the files a definition is searched in are narrowed for the reviewed reasons only. The scope of a search is every module
    file of every package of the graph plus the source root of the definition; it shrinks to one file for a local and to nothing
    for a definition without a module. Any other decision or filter in the functions that build a scope (only the packages being
    worked on, only the modules that import the declaring module, only the reverse dependencies) drops files in which the name can
    still be written - a field of a record that reached the module through a third one needs no import, a fetched package uses
    another fetched package - and go-to-definition from those uses still finds the declaration. Verifier-style, like R8."""
    unit = [p for p in sorted(F.fns) if F.fns[p].blocks and (p.startswith("ide::def::search::SearchScope::") or
            p.startswith("ide::def::semantics::Definition::search_scope"))]
    if not any(p.startswith("ide::def::semantics::Definition::search_scope") for p in unit):
        res.anchor_missing(rule, "Definition::search_scope")
        return
    found = {}
    for p in unit:
        for n_ in decision_names(F, F.fns[p]):
            found.setdefault(n_, []).append(FL.short(p))
    unknown = {}
    for n_, where in found.items():
        parts = [x for x in re.split(r"[(), ]+", n_) if x and x not in ("Eq", "Ne", "Lt", "Le", "Gt", "Ge", "Not", "BitAnd", "BitOr")]
        rest = [x for x in parts if x not in SCOPE_DECIDES and not x.startswith(SEARCH_PLUMBING) and x not in SEARCH_PLUMBING]
        if n_ in SCOPE_DECIDES or not rest:
            continue
        unknown[n_] = sorted(set(where))
    res.ob(rule, "search-scope/narrowings-reviewed", "nothing narrows the files a definition is searched in but the reviewed tests (no module: nothing; a "
           "local: its own file)", not unknown, where="crates/ide/src/def/search.rs",
           how="%d decisions in %d functions: %s" % (len(found), len(unit), sorted(found)) if not unknown else "not in the reviewed inventory: %s" % unknown)
