"""C14 — Positions mean the same thing to the server and to an LSP client: the structural half (tables, coordinate system,
strictness and direction of the two scans, the single conversion point, the line map of the right file) - not the arithmetic identity."""
from lib import flow as FL
from lib import facts as FA
from lib.facts import callee, callee_def, op_local, op_place

META = {
    "level": "other",
    "technique": "static analysis: exact tabulation of the lead-byte classification over all 256 byte values (constant folding of the "
                 "match in LineMap::normalize on rustc MIR) against the UTF-8/UTF-16 width table; provenance (def-use) of the operands of "
                 "the two table scans, of every lsp Position/Range built in the server and of every line map handed to a converter; "
                 "who-may-call for the conversion functions",
    "rule": "U1 the writer records, for each UTF-8 lead byte, len_utf8 - len_utf16 of the character (nothing for ASCII and continuation "
            "bytes), as the amount the readers add or subtract (`diff as u32` = the enum's discriminant). "
            "U2 (= C13/D10) writer and readers of the table use one coordinate system. "
            "U3 both scans count the characters *strictly before* the target (entry position < column); the column-to-offset scan compares with "
            "the running byte estimate it is accumulating, the offset-to-column scan with the byte column, which it does not change while "
            "scanning; one adds, the other subtracts. "
            "U4 the line of an offset is (number of line starts <= offset) - 1; a line start is the index behind a `\\n`, the first one 0. "
            "U5 an lsp Position is built only from one LineMap::line_col_for_pos result (line <- .0, character <- .1), from LineMap::last_line / "
            "end_col_for_line, or from constants; to_range converts start with start and end with end; client positions enter only through "
            "convert::from_pos -> pos_for_line_col(line, character). "
            "U6 a converter is handed the line map of the file its ranges refer to: in a handler the map comes from the same from_file / "
            "from_file_pos / file_for_uri result as the file the analysis was asked about; to_location and to_workspace_edit look the map up by the "
            "file id that accompanies the range. "
            "U7 (= C13/D1, D2) the store writes a text and its line map together, from one normalisation, and every change of a notification is "
            "converted with the line map of the text it applies to. "
            "U8 a lone CR is a line end for the store as it is for the client, and a byte-order mark never reaches the text positions are counted in. "
            "U10 in crate glas a byte offset is made only by LineMap::pos_for_line_col and the reviewed makers (no TextSize from a column, no arithmetic on offsets elsewhere). "
            "U9 the initialize response announces no position encoding that depends on what the client listed (UTF-16 is the only unit implemented).",
    "explanation": "Decides the clauses of C14 whose truth is in the shape of the code; each is a necessary condition (breaking it shifts or "
                   "mislabels positions behind a non-ASCII character, on another line, or in another file). That the two scans are inverse to "
                   "each other and strictly monotone for every text is arithmetic over runtime strings and is NOT decided: a slip that keeps "
                   "all of the above (e.g. a wrong saturating operation, an off-by-one inside clamping) is invisible here. U12 (engine U, lib/units.py): no byte position or byte length - text_size constructors, str slicing, String editing, Lexer::bump - depends on a count of characters or UTF-16 units; decided by a backward dependence closure from every byte sink of the three crates.",
    "not_decided": "round-trip identity and monotonicity of the conversions for all documents; behaviour on a lone CR (removed by design); "
                   "positions inside a surrogate pair (rejected elsewhere, C15).",
    "trusted_base": ["rustc MIR and constant evaluation", "UTF-8 / UTF-16 encoding lengths (the oracle table)", "lsp_types::Position::new / Range::new store their arguments"],
    "assumptions": [],
}

LM = "glas::vfs::LineMap::"
CMP = ("Lt", "Le", "Gt", "Ge", "Eq", "Ne")


# ---------------------------------------------------------------------------------------------- U1
def _const_int(op):
    k = op.get("k") if isinstance(op, dict) else None
    if isinstance(k, dict) and "bits" in k:
        try:
            return int(k["bits"])
        except (TypeError, ValueError):
            return None
    return None


def _eval_bin(op, a, b):
    return {"Lt": a < b, "Le": a <= b, "Gt": a > b, "Ge": a >= b, "Eq": a == b, "Ne": a != b,
            "BitAnd": a & b, "BitOr": a | b, "Shr": a >> b if b < 64 else 0, "Shl": (a << b) & 0xFF if b < 64 else 0,
            "Sub": a - b, "Add": a + b}.get(op)


def classify_byte(fn, start_bb, byte_local, value, diff_adt, stop_bbs, limit=400):
    """constant-fold the decision made on `byte_local` == value from start_bb: returns the CodeUnitsDiff variant assigned,
    or 'skip' when control is back at a loop head / leaves without assigning one, or None when undecidable"""
    env = {byte_local: value}
    bb, steps = start_bb, 0
    while steps < limit:
        steps += 1
        for s in fn.blocks[bb]["stmts"]:
            if s["k"] != "assign" or s["place"]["p"]:
                continue
            rv, l = s["rv"], s["place"]["l"]
            val = None
            if l == byte_local:
                continue
            if rv["k"] == "agg" and (rv.get("adt") or "") == diff_adt:
                return rv["variant"]
            if rv["k"] in ("use", "cast"):
                c = _const_int(rv["op"])
                if c is not None:
                    val = c
                else:
                    pl = op_place(rv["op"])
                    if pl is not None and not [e for e in pl["p"] if e != "*"] and pl["l"] in env:
                        val = env[pl["l"]]
                        if rv["k"] == "cast" and rv.get("ty") in ("u8",):
                            val &= 0xFF
            elif rv["k"] == "bin":
                def ev(o):
                    c = _const_int(o)
                    if c is not None:
                        return c
                    pl = op_place(o)
                    if pl is not None and not [e for e in pl["p"] if e != "*"]:
                        return env.get(pl["l"])
                    return None
                a, b = ev(rv["a"]), ev(rv["b"])
                if a is not None and b is not None:
                    r = _eval_bin(rv["op"], a, b)
                    if r is not None:
                        val = int(r)
            elif rv["k"] == "un" and rv.get("op") == "Not":
                pl = op_place(rv["a"])
                a = env.get(pl["l"]) if pl is not None and not pl["p"] else None
                if a is not None:
                    val = 1 - int(a) if a in (0, 1) else (~a) & 0xFF
            if val is None:
                env.pop(l, None)
            else:
                env[l] = val
        t = fn.term(bb)
        if t["k"] == "switch":
            l = op_local(t["op"])
            cv = env.get(l) if l is not None else None
            if cv is None:
                return None
            hit = [tb for v, tb in t["targets"] if int(v) == int(cv)]
            bb = hit[0] if hit else t["otherwise"]
        elif t["k"] == "goto":
            bb = t["target"]
        elif t["k"] == "call":
            # a call before any variant was chosen: the decision is over (push of something else, next(), ..)
            return "skip"
        else:
            return "skip"
        if bb in stop_bbs:
            return "skip"
    return None


def utf8_oracle(v):
    """what must be recorded for a byte of a valid UTF-8 text: None (nothing) or len_utf8 - len_utf16 of the character it leads"""
    if v <= 0x7F or 0x80 <= v <= 0xBF:
        return None
    if 0xC2 <= v <= 0xDF:
        return 2 - 1
    if 0xE0 <= v <= 0xEF:
        return 3 - 1
    if 0xF0 <= v <= 0xF4:
        return 4 - 2
    return "invalid"          # 0xC0, 0xC1, 0xF5..0xFF never occur in a str


def width_table(F, res, rule="U1"):
    from lib import cfold as CF
    nm0 = F.fn(LM + "normalize")
    diff_adt = "glas::vfs::CodeUnitsDiff"
    discr = {n: int(v) for v, n in F.discr_map(diff_adt).items()}
    # the classification may sit in normalize itself, in one of its closures, or in a helper of the vfs module it calls
    # (`CodeUnitsDiff::for_leading_byte(b)`, `LineMap::line_char_diffs(bytes)`)
    paths = []
    for p in F.with_helpers(nm0.path, depth=3):
        if p.startswith(("glas::vfs::", "<glas::vfs::")) and p in F.fns and F.fns[p].blocks:
            for q in F.with_closures(p):
                if q not in paths and F.fns[q].blocks:
                    paths.append(q)
    units = [F.fns[q] for q in paths]
    found = None
    for u in units:
        if not any((s.get("rv") or {}).get("k") == "agg" and (s["rv"].get("adt") or "") == diff_adt for b, i, s in u.stmts()):
            continue
        # the u8 local every comparison of the classification reads
        cands = {}
        for b, i, s in u.stmts():
            rv = s.get("rv") or {}
            if rv.get("k") == "bin" and rv["op"] in CMP:
                for side in ("a", "b"):
                    pl = op_place(rv[side])
                    if pl is not None and not pl["p"] and u.local_ty(pl["l"]) == "u8":
                        cands.setdefault(pl["l"], []).append(b)
        for b in sorted(u.reachable()):
            t = u.term(b)
            if t["k"] == "switch":
                l = op_local(t["op"])
                if l is not None and u.local_ty(l) == "u8":
                    cands.setdefault(l, []).append(b)
        if not cands:
            continue
        bl = max(cands, key=lambda k: len(cands[k]))
        blocks = sorted(set(cands[bl]))
        start = [x for x in blocks if all(u.dominates(x, y) for y in blocks)]
        if not start:
            continue
        heads = {hd for tl, hd in u.back_edges()}
        found = (u, bl, start[0], heads)
        break
    if found is None:
        res.anchor_missing(rule, "the lead-byte classification (comparisons of a u8 that choose a CodeUnitsDiff) in LineMap::normalize")
        return
    u, bl, start, heads = found
    table, bad, undecided = {}, [], []
    for v in range(256):
        def hook(bb, st_, env, _adt=diff_adt):
            rv = st_.get("rv") or {}
            if st_["k"] == "assign" and rv.get("k") == "agg" and (rv.get("adt") or "") == _adt:
                return rv["variant"]
            return None
        why, where_, _env = CF.run(u, start, {bl: v}, stop=heads, fixed={bl}, on_stmt=hook)
        got = where_ if why == "hit" else ("skip" if why in ("stop", "return") else None)
        want = utf8_oracle(v)
        if got is None:
            undecided.append(v)
            continue
        amount = None if got == "skip" else discr.get(got)
        table[v] = amount
        if want != "invalid" and amount != want:
            bad.append("0x%02X: records %s, should record %s" % (v, amount, want))
    def runs(tb):
        out, prev, lo = [], object(), None
        for v in range(257):
            cur = tb.get(v, "?") if v < 256 else object()
            if cur != prev:
                if lo is not None:
                    out.append("%02X-%02X:%s" % (lo, v - 1, prev))
                lo, prev = v, cur
        return out
    res.analysed["lead-byte table"] = runs(table)
    res.ob(rule, "normalize/width-table", "for every byte of a UTF-8 text the table records len_utf8 - len_utf16 of the character it leads "
           "(1 for two-byte, 2 for three- and four-byte characters) and nothing for ASCII and continuation bytes", not bad and not undecided,
           where=nm0.loc(), how="classification by byte range: %s; wrong: %s; undecided bytes: %d" % (runs(table), bad[:6], len(undecided)))
    # the readers use the recorded amount as it is: `diff as u32` (the discriminant), no re-mapping
    for name in ("pos_for_line_col", "line_col_for_pos", "end_col_for_line"):
        f = F.fn(LM + name)
        casts, matches = 0, 0
        for q in [f.path] + list(F.closures_of(f.path)):
            g = F.fns[q]
            dg = FL.Defs(g)
            for b, i, s in g.stmts():
                rv = s.get("rv") or {}
                if rv.get("k") == "cast" and rv.get("ty") == "u32":
                    o = dg.origin_op(rv["op"])
                    if o.get("k") == "rv" and o["rv"]["k"] == "discr" and o["rv"]["of"] == diff_adt:
                        casts += 1
            for b in sorted(g.reachable()):
                t = g.term(b)
                if t["k"] == "switch":
                    l = op_local(t["op"])
                    o = dg.origin(l) if l is not None else {}
                    if o.get("k") == "rv" and o["rv"]["k"] == "discr" and o["rv"]["of"] == diff_adt:
                        matches += 1
        res.ob(rule, "reader-amount/" + name, "%s uses the recorded difference as it is (`diff as u32`), not through a second table" % name,
               casts >= 1 and matches == 0, where=f.loc(), how="casts of the discriminant: %d, matches on it: %d" % (casts, matches))


# ---------------------------------------------------------------------------------------------- U3
def _entry_side(g, dg, rv):
    """which operand of a comparison is the position component (.0) of a (position, diff) entry of the table"""
    out = []
    for side in ("a", "b"):
        o = dg.origin_op(rv[side])
        is_entry = False
        if o.get("k") == "field" and any(isinstance(e, dict) and e.get("f") == 0 for e in o.get("proj", [])):
            if "CodeUnitsDiff" in str(g.local_ty(o.get("l")) or ""):
                is_entry = True
        out.append(is_entry)
    if out == [True, False]:
        return "a"
    if out == [False, True]:
        return "b"
    return None


def _amount_locals(g, dg, diff_adt):
    out = set()
    for b, i, s in g.stmts():
        rv = s.get("rv") or {}
        if rv.get("k") == "cast" and rv.get("ty") == "u32":
            o = dg.origin_op(rv["op"])
            if o.get("k") == "rv" and o["rv"]["k"] == "discr" and o["rv"]["of"] == diff_adt:
                out.add(s["place"]["l"])
    return out


def _accumulations(g, dg, diff_adt):
    """[(block, 'add'|'sub')] where a recorded difference (`diff as u32`) is added to / subtracted from something"""
    am = _amount_locals(g, dg, diff_adt)

    def is_amount(op):
        l = op_local(op)
        return l is not None and (l in am or dg.origin(l).get("l") in am)
    out = []
    for b, i, s in g.stmts():
        rv = s.get("rv") or {}
        if rv.get("k") == "bin" and rv["op"] in ("Add", "AddWithOverflow", "Sub", "SubWithOverflow") and (is_amount(rv["a"]) or is_amount(rv["b"])):
            out.append((b, "add" if rv["op"].startswith("Add") else "sub"))
    for b, t in g.calls():
        last = FL.short(callee(t) or callee_def(t) or "").rsplit("::", 1)[-1]
        if last in ("saturating_add", "wrapping_add", "checked_add", "saturating_sub", "wrapping_sub", "checked_sub") and len(t["args"]) == 2 and is_amount(t["args"][1]):
            out.append((b, "add" if "add" in last else "sub"))
    return out


def scans(F, res, rule="U3"):
    """per reader: every comparison of a recorded position with the column, reduced to the question "when is the entry counted?";
    what the counted amounts do to the result (added / subtracted, directly or through an accumulator that is then added /
    subtracted); and whether the column compared with is the running estimate or stays fixed while the table is scanned"""
    diff_adt = "glas::vfs::CodeUnitsDiff"
    verdict = {}
    for name in ("pos_for_line_col", "line_col_for_pos"):
        f = F.fn(LM + name)
        units = [F.fns[c] for c in F.with_closures(f.path) if F.fns[c].blocks]
        comps, sign = [], set()
        for g in units:
            dg = FL.Defs(g)
            acc = _accumulations(g, dg, diff_adt)
            sign |= {sg for b, sg in acc}
            # an accumulator of amounts that is afterwards added to / subtracted from the column
            for b, t in g.calls():
                if FL.short(callee(t) or callee_def(t) or "").rsplit("::", 1)[-1] == "sum":
                    dl = t["dest"]["l"]
                    for b2, i2, s2 in g.stmts():
                        rv2 = s2.get("rv") or {}
                        if rv2.get("k") == "bin" and rv2["op"] in ("Add", "AddWithOverflow", "Sub", "SubWithOverflow"):
                            lb = op_local(rv2["b"])
                            if lb == dl or (lb is not None and dg.origin(lb).get("l") == dl):
                                sign.add("add" if rv2["op"].startswith("Add") else "sub")
            for b, i, s in g.stmts():
                rv = s.get("rv") or {}
                if rv.get("k") != "bin" or rv["op"] not in CMP:
                    continue
                ent = _entry_side(g, dg, rv)
                if ent is None:
                    continue
                # which outcome of the comparison counts the entry?
                counted_on = None
                dest = s["place"]["l"]
                if g.kind == "Closure" and (dest == 0 or any(s2["k"] == "assign" and s2["place"]["l"] == 0 and not s2["place"]["p"] and
                                                               (s2.get("rv") or {}).get("k") == "use" and op_local(s2["rv"]["op"]) == dest for _b, _i, s2 in g.stmts())):
                    counted_on = True            # a predicate closure (take_while / filter): kept while true
                else:
                    t = g.term(b)
                    if t["k"] == "switch" and op_local(t["op"]) == dest:
                        f_t = [x for v, x in t["targets"] if int(v) == 0]
                        tr = t["otherwise"]
                        fa = f_t[0] if f_t else None
                        accb = {ab for ab, _sg in acc}
                        heads = {hd for tl, hd in g.back_edges()}

                        def reaches(start):
                            seen, st = set(), [start]
                            while st:
                                x = st.pop()
                                if x in seen or x == b:
                                    continue
                                seen.add(x)
                                if x in accb:
                                    return True
                                if x in heads:
                                    continue
                                st.extend(g.succ(x))
                            return False
                        rt, rf = reaches(tr), (reaches(fa) if fa is not None else False)
                        if rt != rf:
                            counted_on = rt
                comps.append((g, dg, b, s, ent, counted_on))
        # with an explicit accumulator (`before += diff; .. col -= before`) the sign is that of the final operation on the column
        for g in units:
            dg = FL.Defs(g)
            am = _amount_locals(g, dg, diff_adt)

            def norm(l):
                if l is None:
                    return None
                o = dg.origin(l)
                while o.get("k") == "field" and o.get("base"):
                    o = o["base"]
                return o.get("l", l)
            accs = set()
            for b, i, s in g.stmts():
                rv = s.get("rv") or {}
                if rv.get("k") == "bin" and rv["op"] in ("Add", "AddWithOverflow"):
                    lb = op_local(rv["b"])
                    if lb is not None and (lb in am or norm(lb) in am):
                        accs.add(norm(op_local(rv["a"])))
            accs.discard(None)
            final = set()
            for b, i, s in g.stmts():
                rv = s.get("rv") or {}
                if rv.get("k") == "bin" and rv["op"] in ("Sub", "SubWithOverflow", "Add", "AddWithOverflow"):
                    if norm(op_local(rv["b"])) in accs and norm(op_local(rv["a"])) not in accs and op_local(rv["b"]) not in am and norm(op_local(rv["b"])) not in am:
                        final.add("add" if rv["op"].startswith("Add") else "sub")
            if final:
                sign = final
        strict = []
        for g, dg, b, s, ent, on in comps:
            op = s["rv"]["op"]
            lt = (op == "Lt" and ent == "a") or (op == "Gt" and ent == "b")        # entry < column
            ge = (op == "Ge" and ent == "a") or (op == "Le" and ent == "b")        # entry >= column
            strict.append((lt and on is True) or (ge and on is False))
        res.ob(rule, "strict/" + name, "%s counts exactly the characters that lie strictly before the target: an entry is counted when its "
               "recorded position < the column (a character *at* the target position is not before it)" % name, bool(comps) and all(strict),
               where=f.loc(comps[0][3]["ln"]) if comps else f.loc(),
               how="comparisons of a recorded position with the column: %s" % [(s["rv"]["op"], "entry on the %s" % ("left" if e == "a" else "right"),
                                                                                 "counted when %s" % on) for g, dg, b, s, e, on in comps])
        # is the column operand changed while scanning?
        changing = []
        for g, dg, b, s, ent, on in comps:
            other = "b" if ent == "a" else "a"
            col_l = op_local(s["rv"][other])
            chg = None
            o = dg.origin_op(s["rv"][other])
            if g.kind == "Closure" and o.get("k") == "arg" and o.get("n", 0) >= 2:
                # the accumulator parameter of a fold closure: the running value
                par = F.fns.get(g.d.get("direct_parent"))
                folded = par is not None and any(FL.short(callee(t) or callee_def(t) or "").rsplit("::", 1)[-1] in ("fold", "try_fold") and
                                                 any((FL.Defs(par).origin_op(a).get("rv") or {}).get("closure") == g.path for a in t["args"][1:])
                                                 for _b, t in par.calls())
                chg = True if folded else None
            elif g.kind == "Closure":
                idx = FL.closure_env_field(o)
                chg = False
                if idx is not None:
                    pf, po = FL.upvar_origin(F, g.path, idx)
                    if pf is not None and po.get("l") is not None:
                        cl_bbs = [b2 for b2, i2, s2 in pf.stmts() if (s2.get("rv") or {}).get("closure") == g.path]
                        dpf = FL.Defs(pf)
                        for tl, hd in pf.back_edges():
                            lp = pf.natural_loop(tl, hd)
                            if any(cb in lp for cb in cl_bbs) and any(d_[0] in lp for d_ in dpf.defs.get(po["l"], [])):
                                chg = True
            else:
                base = col_l
                seen = set()
                while base is not None and base not in seen:
                    seen.add(base)
                    ds = dg.whole_defs(base)
                    if len(ds) == 1 and ds[0][2] == "assign" and ds[0][3]["rv"]["k"] == "use" and op_place(ds[0][3]["rv"]["op"]) is not None \
                            and not op_place(ds[0][3]["rv"]["op"])["p"]:
                        base = op_place(ds[0][3]["rv"]["op"])["l"]
                    else:
                        break
                chg = False
                for tl, hd in g.back_edges():
                    lp = g.natural_loop(tl, hd)
                    if b in lp and any(d_[0] in lp for d_ in dg.defs.get(base, [])):
                        chg = True
            changing.append(chg)
        verdict[name] = (comps, sign, changing)
    (c1, s1, ch1), (c2, s2, ch2) = verdict["pos_for_line_col"], verdict["line_col_for_pos"]
    f1, f2 = F.fn(LM + "pos_for_line_col"), F.fn(LM + "line_col_for_pos")
    res.ob(rule, "direction", "column -> offset adds the recorded differences, offset -> column subtracts them", s1 == {"add"} and s2 == {"sub"},
           where=f1.loc(), how="pos_for_line_col: %s, line_col_for_pos: %s" % (sorted(s1), sorted(s2)))
    res.ob(rule, "running-estimate/pos_for_line_col", "column -> offset compares a recorded byte position with the byte estimate it is building up "
           "(the UTF-16 column plus the differences added so far), i.e. with the variable it updates in the scan", bool(c1) and all(x is True for x in ch1),
           where=f1.loc(), how="column operand updated inside the scan: %s" % ch1)
    res.ob(rule, "fixed-byte-column/line_col_for_pos", "offset -> column compares a recorded byte position with the byte column of the offset, which "
           "stays what it is while the table is scanned (subtracting inside the scan compares later entries with a half-converted column)",
           bool(c2) and all(x is False for x in ch2), where=f2.loc(), how="column operand updated inside the scan: %s" % ch2)


# ---------------------------------------------------------------------------------------------- U4
def lines(F, res, rule="U4"):
    f = F.fn(LM + "line_col_for_pos")
    d = FL.Defs(f)
    pp = [(b, t) for b, t in f.calls() if FL.short(callee(t) or callee_def(t) or "").rsplit("::", 1)[-1] in ("partition_point", "binary_search", "binary_search_by")]
    ok, how = False, "no partition_point / binary_search over line_starts"
    if pp:
        b, t = pp[0]
        last = FL.short(callee(t) or callee_def(t) or "").rsplit("::", 1)[-1]
        if last == "partition_point":
            clo = d.origin_op(t["args"][1])
            cp = (clo.get("rv") or {}).get("closure") if clo.get("k") == "agg" else None
            g = F.fns.get(cp) if cp else None
            cmpop = None
            if g is not None:
                for b2, i2, s2 in g.stmts():
                    rv = s2.get("rv") or {}
                    if rv.get("k") == "bin" and rv["op"] in CMP:
                        dg = FL.Defs(g)
                        a_is_item = dg.origin_op(rv["a"]).get("k") == "arg" or (dg.origin_op(rv["a"]).get("k") == "field" and dg.origin_op(rv["a"])["base"].get("k") == "arg" and dg.origin_op(rv["a"])["base"].get("n") == 2)
                        oa = dg.origin_op(rv["a"])
                        a_is_item = (oa.get("k") == "arg" and oa.get("n") == 2)
                        cmpop = (rv["op"], "item-left" if a_is_item else "item-right")
            # the count is reduced by one
            dec = False
            for b2, t2 in f.calls():
                if FL.short(callee(t2) or "").rsplit("::", 1)[-1] in ("saturating_sub", "checked_sub", "wrapping_sub") and _const_int(t2["args"][1]) == 1:
                    o = d.origin_op(t2["args"][0])
                    if o.get("k") == "call" and o["t"] is t:
                        dec = True
            for b2, i2, s2 in f.stmts():
                rv = s2.get("rv") or {}
                if rv.get("k") == "bin" and rv["op"] in ("Sub", "SubWithOverflow") and _const_int(rv["b"]) == 1:
                    o = d.origin_op(rv["a"])
                    if o.get("k") == "call" and o["t"] is t:
                        dec = True
            ok = cmpop in (("Le", "item-left"), ("Ge", "item-right")) and dec
            how = "partition_point predicate: %s; result decremented by one: %s" % (cmpop, dec)
        else:
            ok = True
            how = "binary search over the line starts (Ok(i) | Err(i) shapes are not analysed further)"
    res.ob(rule, "line-of-offset", "the line of an offset is the number of line starts <= the offset, minus one: an offset that *is* a line start "
           "belongs to that line", ok, where=f.loc(pp[0][1]["ln"]) if pp else f.loc(), how=how)
    # writer: a line starts behind each '\n' (whatever the shape: iterator chain or push loop)
    nm = F.fn(LM + "normalize")
    from lib import inline as IL
    nmi = IL.inlined(F, nm, want=lambda p: p.startswith(LM) and "{closure" not in p and
                     p.rsplit("::", 1)[-1] not in ("normalize", "pos_for_line_col", "line_col_for_pos", "end_col_for_line", "last_line"), depth=2)
    helper_paths = {p for p in F.with_helpers(nm.path, depth=2) if p.startswith(LM)}
    units = [nmi] + [F.fns[c] for hp in sorted(helper_paths | {nm.path}) for c in F.with_closures(hp) if F.fns[c].blocks and c != hp]
    nl, plus1 = False, False
    for g in units:
        for b, i, s in g.stmts():
            rv = s.get("rv") or {}
            if rv.get("k") == "bin" and rv["op"] in ("Eq", "Ne") and 10 in (_const_int(rv["a"]), _const_int(rv["b"])):
                nl = True
            if rv.get("k") == "bin" and rv["op"] in ("Add", "AddWithOverflow") and 1 in (_const_int(rv["a"]), _const_int(rv["b"])):
                for side in ("a", "b"):
                    l = op_local(rv[side])
                    if l is not None and g.local_ty(l) == "u32":
                        plus1 = True
        for b in sorted(g.reachable()):
            t = g.term(b)
            if t["k"] == "switch" and op_local(t["op"]) is not None and g.local_ty(op_local(t["op"])) == "u8" and any(int(v) == 10 for v, x in t["targets"]):
                nl = True
    res.ob(rule, "line-starts", "normalize looks for `\\n` and records the index behind it (index + 1) as a line start", nl and plus1, where=nm.loc(),
           how="compares a byte with 10: %s; adds 1 to a u32 index: %s" % (nl, plus1))


# ---------------------------------------------------------------------------------------------- U5
def _glas_fns(F):
    for p, f in sorted(F.fns.items()):
        if f.blocks and p.startswith(("glas::", "<glas::")) and "::tests::" not in p and f.unit.startswith("glas-rlib"):
            yield p, f


def positions(F, res, rule="U5"):
    sites = 0
    LMOK = ("LineMap::line_col_for_pos", "LineMap::last_line", "LineMap::end_col_for_line")
    for p, f in _glas_fns(F):
        d = None
        cons = []
        for b, t in f.calls():
            c = callee(t) or callee_def(t) or ""
            if c.endswith("lsp_types::Position::new") or FL.short(c) == "Position::new":
                cons.append((t["ln"], t["args"][0], t["args"][1]))
        for b, i, s in f.stmts():
            rv = s.get("rv") or {}
            if rv.get("k") == "agg" and (rv.get("adt") or "").endswith("lsp_types::Position"):
                fl = rv.get("fields") or ["line", "character"]
                cons.append((s["ln"], rv["ops"][fl.index("line")], rv["ops"][fl.index("character")]))
        for n, (ln, lop, cop) in enumerate(cons):
            d = d or FL.Defs(f)
            sites += 1

            def src(op):
                if _const_int(op) is not None:
                    return ("const", None, None)
                o = d.origin_op(op)
                fld = None
                while o.get("k") == "field":
                    pr = [e for e in o.get("proj", []) if isinstance(e, dict) and "f" in e]
                    fld = pr[-1]["f"] if pr and fld is None else fld
                    o = o["base"]
                if o.get("k") == "const":
                    return ("const", None, None)
                if o.get("k") == "call":
                    c = FL.short(callee(o["t"]) or callee_def(o["t"]) or "")
                    return (c, id(o["t"]), fld)
                return (str(o.get("k")), None, fld)
            sl, sc = src(lop), src(cop)
            ok = (sl[0] == "const" or sl[0].endswith(LMOK)) and (sc[0] == "const" or sc[0].endswith(LMOK))
            if sl[0].endswith("line_col_for_pos") or sc[0].endswith("line_col_for_pos"):
                ok = ok and sl[1] == sc[1] and sl[2] == 0 and sc[2] == 1
            if sl[0].endswith("end_col_for_line"):
                ok = False
            res.ob(rule, "position/%s/%d" % (FL.short(p), n), "an lsp Position is built from one LineMap::line_col_for_pos result (line from .0, character "
                   "from .1), from last_line/end_col_for_line, or from constants - never from raw offsets", ok, where=f.loc(ln),
                   how="line <- %s%s, character <- %s%s" % (sl[0], "" if sl[2] is None else ".%d" % sl[2], sc[0], "" if sc[2] is None else ".%d" % sc[2]))
    res.floor("lsp Position constructions in the server library", sites, 3)
    # to_range: start with start, end with end
    tr = F.fn("glas::convert::to_range")
    from lib import inline as _IL
    if any((callee(t) or "").startswith("glas::convert::") and (callee(t) or "") in F.fns and F.fns[callee(t)].blocks for _b, t in tr.calls()):
        tr = _IL.inlined(F, tr, want=lambda p: p.startswith("glas::convert::") and p != "glas::convert::to_range" and "{closure" not in p, depth=2)
    d = FL.Defs(tr)
    rn = [(b, t) for b, t in tr.calls() if FL.short(callee(t) or callee_def(t) or "") == "Range::new"]
    ra = [(b, s) for b, i, s in tr.stmts() if (s.get("rv") or {}).get("k") == "agg" and (s["rv"].get("adt") or "").endswith("lsp_types::Range")]
    ok, how = False, "no Range built in to_range"
    if rn or ra:
        if rn:
            a0, a1 = rn[0][1]["args"][0], rn[0][1]["args"][1]
            ub = rn[0][0]
        else:
            fl = ra[0][1]["rv"].get("fields") or ["start", "end"]
            a0, a1 = ra[0][1]["rv"]["ops"][fl.index("start")], ra[0][1]["rv"]["ops"][fl.index("end")]
            ub = ra[0][0]
        d0 = {FL.short(c) for c in FL.depends(F, tr, d, a0, use_bb=ub)["calls"]}
        d1 = {FL.short(c) for c in FL.depends(F, tr, d, a1, use_bb=ub)["calls"]}
        ok = "TextRange::start" in d0 and "TextRange::end" not in d0 and "TextRange::end" in d1 and "TextRange::start" not in d1 and \
            any(c.endswith("line_col_for_pos") for c in d0) and any(c.endswith("line_col_for_pos") for c in d1)
        how = "start depends on %s; end depends on %s" % (sorted(c for c in d0 if "TextRange" in c or "LineMap" in c), sorted(c for c in d1 if "TextRange" in c or "LineMap" in c))
    res.ob(rule, "to_range/start-and-end", "to_range converts the start of the offset range into the start position and the end into the end", ok,
           where=tr.loc(), how=how)
    # inbound: pos_for_line_col only from from_pos, with (line, character)
    callers = sorted({p for p, f in _glas_fns(F) for b, t in f.calls() if (callee(t) or "") == LM + "pos_for_line_col"})
    fp = F.fn("glas::convert::from_pos")
    res.ob(rule, "inbound/single-entry", "client positions are converted to offsets only in convert::from_pos", callers == [fp.path], where=fp.loc(),
           how="callers of pos_for_line_col: %s" % [FL.short(c) for c in callers])
    d = FL.Defs(fp)
    ok, how = False, ""
    for b, t in fp.calls():
        if (callee(t) or "") == LM + "pos_for_line_col":
            f1 = FL.fields_feeding(F, fp, d, t["args"][1], "Position")
            f2 = FL.fields_feeding(F, fp, d, t["args"][2], "Position")
            ok = "line" in f1 and "character" not in f1 and "character" in f2
            how = "line argument reads Position.%s, column argument reads Position.%s" % (sorted(f1), sorted(f2))
    res.ob(rule, "inbound/line-and-character", "from_pos passes the position's line as the line and its character as the column", ok, where=fp.loc(), how=how)


# ---------------------------------------------------------------------------------------------- U6
CONVERTERS = ("to_range", "to_hover", "to_completion_item", "to_diagnostics", "to_prepare_rename_response", "to_document_highlight", "to_text_edit",
              "to_semantic_tokens")


def _is_file_source(c):
    """a call that turns a document identifier / URI / path into the file (and its line map): convert::from_* and Vfs::file_for_*"""
    last = c.rsplit("::", 1)[-1]
    return (c.startswith(("convert::", "glas::convert::")) and last.startswith("from_")) or (c.startswith(("Vfs::", "glas::vfs::Vfs::")) and last.startswith("file_for_"))


def _file_root(F, f, d, op, depth=0):
    """the call(s) that the file identity behind an operand (a FileId, a FilePos, a line map) goes back to: a set of
    ('call', id(term), short callee, path of the function containing the call) | ('other', what). Parameters of helper functions
    are followed to the arguments at their call sites (two levels), captured variables to the enclosing function."""
    o = d.origin_op(op, through_calls=("Deref>::deref", "Deref::deref", "Clone>::clone", "Clone::clone", "FilePos::new", "FileRange::new", "AsRef", "as_ref", "Borrow"))
    while o.get("k") == "field":
        pr = [e for e in o.get("proj", []) if isinstance(e, dict) and ("f" in e)]
        base = o["base"]
        if base.get("k") == "agg" and base["rv"].get("agg") == "tuple" and pr and depth < 8:
            comp = base["rv"]["ops"][pr[0]["f"]]
            if op_place(comp) is not None:
                return _file_root(F, f, d, comp, depth + 1)
        if base.get("k") == "arg" and f.kind == "Closure" and base.get("n") == 1:
            idx = FL.closure_env_field(o)
            if idx is not None and depth < 8:
                pf, po = FL.upvar_origin(F, f.path, idx)
                if pf is not None and po.get("l") is not None:
                    return _file_root(F, pf, FL.Defs(pf), {"cp": {"l": po["l"], "p": []}}, depth + 1)
        o = base
    if o.get("k") == "call":
        c = FL.short(callee(o["t"]) or callee_def(o["t"]) or "")
        if c.endswith(("Vfs::line_map_for_file", "Vfs::uri_for_file", "Vfs::content_for_file")):
            return _file_root(F, f, d, o["t"]["args"][1], depth + 1)
        if c.endswith(("Try>::branch", "Try::branch", "FromResidual")) and o["t"]["args"]:
            return _file_root(F, f, d, o["t"]["args"][0], depth + 1)
        return {("call", id(o["t"]), c, f.path)}
    if o.get("k") == "arg":
        if f.kind == "Closure":
            return {("other", "closure parameter %d of %s" % (o["n"], FL.short(f.path)))}
        if depth < 6:
            out, callers = set(), 0
            for p, g in _glas_fns(F):
                dg = None
                for b, t in g.calls():
                    if (callee(t) or "") == f.path and len(t["args"]) >= o["n"]:
                        dg = dg or FL.Defs(g)
                        callers += 1
                        out |= _file_root(F, g, dg, t["args"][o["n"] - 1], depth + 2)
            if callers:
                return out
        return {("other", "parameter %d of %s" % (o["n"], FL.short(f.path)))}
    if o.get("k") == "multi":
        out = set()
        for dd in o["defs"]:
            if dd[2] == "call":
                out.add(("call", id(dd[3]), FL.short(callee(dd[3]) or ""), f.path))
            else:
                rv = dd[3]["rv"]
                if rv.get("k") in ("use", "cast") and isinstance(rv.get("op"), dict) and op_place(rv["op"]) is not None and depth < 6:
                    out |= _file_root(F, f, d, rv["op"], depth + 1)
                elif rv.get("k") == "agg" and rv.get("agg") == "tuple" and depth < 6:
                    for x in rv["ops"]:
                        if op_place(x) is not None:
                            out |= _file_root(F, f, d, x, depth + 1)
                else:
                    out.add(("other", str(rv.get("k"))))
        return out
    if o.get("k") == "agg" and o["rv"].get("agg") == "tuple" and depth < 6:
        out = set()
        for x in o["rv"]["ops"]:
            if op_place(x) is not None:
                out |= _file_root(F, f, d, x, depth + 1)
        return out or {("other", "tuple")}
    return {("other", str(o.get("k")))}


def same_file(F, res, rule="U6"):
    n = 0
    for p, f in _glas_fns(F):
        if p.startswith("glas::convert::"):
            continue
        conv = []
        for b, t in f.calls():
            c = callee(t) or ""
            if c.startswith("glas::convert::") and c.rsplit("::", 1)[-1] in CONVERTERS:
                conv.append((b, t, c.rsplit("::", 1)[-1]))
        if not conv:
            continue
        d = FL.Defs(f)
        # the file(s) the analysis was asked about: in this unit, in the functions it is a closure of, and - when this is a
        # helper that is handed the file - at its call sites (through _file_root's parameter following)
        units = [f]
        par = f
        while par.kind == "Closure" and par.d.get("direct_parent") in F.fns:
            par = F.fns[par.d["direct_parent"]]
            units.append(par)
        asked = set()
        for u in units:
            du = FL.Defs(u) if u is not f else d
            for b, t in u.calls():
                c = callee(t) or ""
                if c.startswith("ide::ide::Analysis::") and len(t["args"]) >= 2:
                    asked |= _file_root(F, u, du, t["args"][1])
        if not asked:
            # a pure conversion helper (`fn semantic_tokens(line_map, hls)`): the question was asked by its callers
            for q, g in _glas_fns(F):
                if any((callee(t) or "") == units[-1].path for b, t in g.calls()):
                    dg = FL.Defs(g)
                    for b, t in g.calls():
                        c = callee(t) or ""
                        if c.startswith("ide::ide::Analysis::") and len(t["args"]) >= 2:
                            asked |= _file_root(F, g, dg, t["args"][1])
        for k, (b, t, name) in enumerate(conv):
            n += 1
            lm_arg = t["args"][2] if name == "to_diagnostics" else t["args"][0]
            roots = _file_root(F, f, d, lm_arg)
            good = bool(roots) and all(r[0] == "call" and _is_file_source(r[2]) for r in roots)
            # per function that holds the source call: the map and the question go back to the same call there
            agree = True
            if asked:
                by_fn = {}
                for r in roots:
                    if r[0] == "call":
                        by_fn.setdefault(r[3], set()).add(r[1])
                asked_fn = {}
                for r in asked:
                    if r[0] == "call":
                        asked_fn.setdefault(r[3], set()).add(r[1])
                for fnp, ids in by_fn.items():
                    if fnp in asked_fn and not (ids & asked_fn[fnp]):
                        agree = False
                if not (set(by_fn) & set(asked_fn)):
                    agree = False
            res.ob(rule, "line-map/%s/%s/%d" % (FL.short(p), name, k), "the line map handed to %s is that of the file the answer is about: it goes back to "
                   "the same file look-up (convert::from_* / Vfs::file_for_*) as the file the analysis was asked about" % name, good and agree,
                   where=f.loc(t["ln"]), how="line map from %s; analysis asked about %s" % (sorted({r[2] if r[0] == "call" else r[1] for r in roots}),
                                                                                            sorted({r[2] if r[0] == "call" else r[1] for r in asked})))
    res.floor("converter calls with a line map outside convert.rs", n, 7)
    # to_location / to_workspace_edit: the map is looked up by the file that accompanies the range
    tl = F.fn("glas::convert::to_location")
    d = FL.Defs(tl)
    lm = [(b, t) for b, t in tl.calls() if (callee(t) or "").endswith("Vfs::line_map_for_file")]
    ur = [(b, t) for b, t in tl.calls() if (callee(t) or "").endswith("Vfs::uri_for_file")]
    trc = [(b, t) for b, t in tl.calls() if (callee(t) or "") == "glas::convert::to_range"]
    ok, how = False, ""
    if lm and ur and trc:
        a = FL.fields_feeding(F, tl, d, lm[0][1]["args"][1], "FileRange")
        b_ = FL.fields_feeding(F, tl, d, ur[0][1]["args"][1], "FileRange")
        c_ = FL.fields_feeding(F, tl, d, trc[0][1]["args"][1], "FileRange")
        ok = a == {"file_id"} and b_ == {"file_id"} and c_ == {"range"}
        how = "line map by FileRange.%s, uri by FileRange.%s, range from FileRange.%s" % (sorted(a), sorted(b_), sorted(c_))
    res.ob(rule, "to_location", "to_location names the file and picks the line map by the file id of the very FileRange whose range it converts", ok,
           where=tl.loc(), how=how)
    we = F.fn("glas::convert::to_workspace_edit")
    units = [F.fns[c] for c in F.with_closures(we.path) if F.fns[c].blocks]

    def item_component(u, du, op, depth=0):
        """(kind, index): the operand is component `index` of the entry being converted - of the item a closure is called
        with (directly, or captured by an inner closure) or of the payload a `next()` of the entry iterator answered"""
        o = du.origin_op(op, through_calls=("Clone>::clone", "Clone::clone", "Deref>::deref"))
        idxs = []
        while o.get("k") == "field":
            idxs = [e.get("f") for e in o.get("proj", []) if isinstance(e, dict) and "f" in e] + idxs
            o = o["base"]
        if o.get("k") == "arg" and u.kind == "Closure":
            if o.get("n") == 2 and idxs:
                return ("closure item", idxs[0])
            if o.get("n") == 1 and idxs and depth < 3:
                pf, po = FL.upvar_origin(F, u.path, idxs[0])
                if pf is not None and po:
                    if po.get("k") in ("field", "arg"):
                        o2, i2 = po, []
                        while o2.get("k") == "field":
                            i2 = [e.get("f") for e in o2.get("proj", []) if isinstance(e, dict) and "f" in e] + i2
                            o2 = o2["base"]
                        if o2.get("k") == "arg" and o2.get("n") == 2 and pf.kind == "Closure" and i2:
                            return ("closure item (captured)", i2[0])
                    if po.get("l") is not None:
                        return item_component(pf, FL.Defs(pf), {"cp": {"l": po["l"], "p": []}}, depth + 1)
            return None
        if o.get("k") == "call" and FL.short(callee(o["t"]) or callee_def(o["t"]) or "").endswith("::next"):
            # (next() as Some).0 .<component>: the first index is the payload of Some
            rest = [i for i in idxs]
            if rest and rest[0] == 0:
                rest = rest[1:]
            if rest:
                return ("loop item", rest[0])
        return None
    lm_src, uri_src = [], []
    for u in units:
        du = FL.Defs(u)
        for b, t in u.calls():
            c = callee(t) or ""
            if c.endswith("Vfs::line_map_for_file"):
                lm_src.append(item_component(u, du, t["args"][1]))
            if c.endswith("Vfs::uri_for_file"):
                uri_src.append(item_component(u, du, t["args"][1]))
    ok = bool(lm_src) and all(x is not None and x[1] == 0 for x in lm_src) and bool(uri_src) and all(x is not None and x[1] == 0 for x in uri_src)
    res.ob(rule, "to_workspace_edit", "the edits of a file are converted with the line map of that file and sent under its URI: both are looked up by "
           "the key of the entry the edits came from", ok, where=we.loc(), how="line map looked up by %s; uri by %s" % (lm_src, uri_src))
    # diagnostics notes: a note may lie in another file; it is converted with this file's map only under a file test - or nothing produces notes
    producers = sorted(p for p, g in F.fns.items() if g.blocks and "::tests::" not in p and not p.startswith("ide::tests") and
                       any((callee(t) or "").endswith("Diagnostic::with_note") for b, t in g.calls()))
    res.ob(rule, "to_diagnostics/notes", "the notes of a diagnostic (which carry their own file id) are converted with the document's line map only "
           "for notes of that document - today no code attaches a note to a diagnostic", not producers, where=F.fn("glas::convert::to_diagnostics").loc(),
           how="callers of Diagnostic::with_note outside tests: %s" % producers)


def line_ends_and_bom(F, res, rule="U8"):
    """U8: "the (line, column) the server reports is the one an LSP client computes". A client ends a line at `\\n`, `\\r\\n` and a
    lone `\\r`, and neither shows nor counts a byte order mark at the start of a file it opens. (a) LineMap::normalize maps a
    lone `\\r` to a line end (a replace of '\\r' by "\\n" after the pairs are gone) - deleting it shifts every position behind
    it; (b) the one reader of files from disk (C15/M12: every read goes through it) strips a leading U+FEFF."""
    nm = F.fn(LM + "normalize")
    lone = False
    for b, t in nm.calls():
        c = FL.short(callee(t) or callee_def(t) or "")
        if c.rsplit("::", 1)[-1] == "replace":
            vals = []
            dnm = FL.Defs(nm)
            for a in t["args"]:
                k = a.get("k") if isinstance(a, dict) else None
                if not isinstance(k, dict):
                    o = dnm.origin_op(a) if isinstance(a, dict) else {}
                    k = o.get("c") if o.get("k") == "const" else None
                if isinstance(k, dict) and "str" in k:
                    vals.append(k["str"])
                if isinstance(k, dict) and k.get("ty") == "char" and "bits" in k:
                    vals.append(chr(int(k["bits"])))
            if "\r" in vals and "\n" in vals:
                lone = True
    res.ob(rule, "normalize/lone-cr-is-a-line-end", "a lone `\\r` ends a line for the server as it does for the client (normalize turns it into `\\n`)",
           lone, where=nm.loc(), how="replace('\\r', \"\\n\") found: %s" % lone)
    # (c) nothing else leaves the client's text: every other character is one the client counts in its columns
    CUTS = ("drain", "remove", "truncate", "pop", "trim", "trim_start", "trim_end", "trim_matches", "trim_start_matches", "trim_end_matches",
            "strip_prefix", "strip_suffix", "split_off", "replace_range", "clear", "retain", "replace", "replacen")
    cuts = []
    for q in F.with_helpers(nm.path, depth=1, stop=["glas::vfs::LineMap::normalize::"]) if hasattr(F, "with_helpers") else [nm.path]:
        g = F.fns[q]
        if not g.blocks or not q.startswith("glas::"):
            continue
        dg = FL.Defs(g)
        for b, t in g.calls():
            c = FL.short(callee(t) or callee_def(t) or "")
            last = c.rsplit("::", 1)[-1]
            if last not in CUTS or not ("String" in c or "str" in c.split("::")[0] or c.startswith("str::") or "alloc::str" in (callee(t) or "")):
                continue
            vals = []
            for a in t["args"]:
                k = a.get("k") if isinstance(a, dict) else None
                if not isinstance(k, dict):
                    o = dg.origin_op(a) if isinstance(a, dict) else {}
                    k = o.get("c") if o.get("k") == "const" else None
                if isinstance(k, dict) and "str" in k:
                    vals.append(k["str"])
                if isinstance(k, dict) and k.get("ty") == "char" and "bits" in k:
                    vals.append(chr(int(k["bits"])))
            line_end = last in ("replace", "replacen") and vals and vals[0] in ("\r", "\r\n") and all(v in ("\r", "\r\n", "\n") for v in vals)
            if last == "retain":
                # the old form: retain(|c| c != '\r')
                cl = [F.fns[x] for x in F.closures_of(q)]
                line_end = any(any(isinstance(o_.get("k"), dict) and o_["k"].get("ty") == "char" and str(o_["k"].get("bits")) == "13" for o_ in FA.all_operands(cf))
                               for cf in cl) if hasattr(FA, "all_operands") else False
            if not line_end:
                cuts.append("%s at %s" % (c, g.loc(t["ln"])))
    res.ob(rule, "normalize/only-line-ends-leave", "normalize takes nothing out of a text but the carriage returns of its line ends: any other character (a "
           "U+FEFF the client sent included) is counted by the client and must stay", not cuts, where=nm.loc(),
           how="removing calls besides the line-end replacement: %s" % (cuts or "none"))
    rs = [f for p, f in F.fns.items() if p.startswith("glas::server::") and f.blocks and "{closure" not in p and
          any((callee(t) or callee_def(t) or "").endswith("read_to_string") for b, t in f.calls())]
    bom = []
    for f in rs:
        has = False
        # in the reader or in a private helper it hands the text to; the mark as a literal or as a named constant (the facts carry its value)
        for q in F.with_helpers(f.path, depth=2):
            g = F.fns.get(q)
            if g is None or not g.blocks or not q.startswith("glas::server::"):
                continue
            for o_ in FA.all_operands(g):
                k = o_.get("k") if isinstance(o_, dict) else None
                if isinstance(k, dict) and ((k.get("ty") == "char" and str(k.get("bits")) == str(0xFEFF)) or (isinstance(k.get("str"), str) and k["str"] == "\ufeff")):
                    has = True
        bom.append((FL.short(f.path), has))
    res.ob(rule, "disk-read/strips-bom", "a text read from disk does not start with a byte order mark (the reader drops it)", bool(bom) and all(h for _n, h in bom),
           where=rs[0].loc() if rs else "crates/glas/src/server.rs", how="readers: %s" % bom)


def one_position_encoding(F, res, rule="U9"):
    """U9: LineMap and convert count Position.character in UTF-16 code units, the unit LSP prescribes when nothing else was
    agreed. The initialize response therefore never announces another unit: ServerCapabilities.position_encoding is left at its
    default (None = UTF-16) or set to a value that depends on nothing the client sent. An encoding picked from the client's
    general.positionEncodings list makes a conforming client count in a unit the server does not implement."""
    n = 0
    for p, f in sorted(F.fns.items()):
        if not p.startswith(("glas::", "<glas::")) or not f.blocks:
            continue
        d = None
        for b, i, s in f.stmts():
            rv = s.get("rv") or {}
            if rv.get("k") != "agg" or not (rv.get("adt") or "").endswith("::ServerCapabilities") or "position_encoding" not in (rv.get("fields") or []):
                continue
            d = d or FL.Defs(f)
            n += 1
            dep = FL.depends(F, f, d, rv["ops"][rv["fields"].index("position_encoding")], use_bb=b)
            other = sorted(x for x in dep["strs"] if x.lower() in ("utf-8", "utf-32"))
            ok = not dep["args"] and not other
            res.ob(rule, "position-encoding/%s" % FL.short(p), "the position encoding announced to the client is UTF-16 (or none, which means UTF-16), whatever the "
                   "client listed: it is the only unit the line map counts in", ok, where=f.loc(s.get("ln")),
                   how="depends on parameters: %s; calls: %s; other encodings named: %s" % (sorted(dep["args"]), sorted(dep["calls"])[:6], other))
    res.floor("places that build the ServerCapabilities", n, 1)


# who may make a text offset in crate glas: function -> {constructor: reason}
OFFSET_MAKERS = {
    "glas::vfs::LineMap::pos_for_line_col": {"Into::into": "the one place a (line, UTF-16 column) becomes a byte offset: line start + column + the widths recorded before it"},
    "glas::convert::from_range": {"TextRange::new": "pairs the two offsets from_pos returned for the start and the end of one lsp Range"},
    "glas::vfs::Vfs::change_file_content": {"TextSize::of": "the length of the text being edited (bound for the range test)"},
}
OFFSET_GETTERS = ("TextRange::start", "TextRange::end", "TextRange::len", "LineMap::pos_for_line_col", "convert::from_pos", "convert::from_range",
                  "Clone::clone", "Option::<T>::unwrap_or", "Ord::min", "Ord::max", "Option::<T>::unwrap_or_default")


def offsets_have_one_maker(F, res, rule="U10"):
    """U10: a byte offset is not a column. In crate glas a TextSize / TextRange comes out of LineMap::pos_for_line_col (which adds
    the widths of the characters before the column), out of a range the analysis returned, or out of one of the reviewed
    makers; nowhere else is one built from numbers or moved by arithmetic. `line_start + TextSize::from(column)` is the end of
    the line only when the line is ASCII."""
    import re as _re
    n, m = 0, 0
    for p, f in sorted(F.fns.items()):
        if not p.startswith(("glas::", "<glas::")) or not f.blocks or "::tests" in p:
            continue
        seen = {}
        for b, t in f.calls():
            c = callee(t) or callee_def(t) or ""
            if not _re.search(r"^text_size::(size::TextSize|range::TextRange)$", t.get("dty") or ""):
                continue
            sc = FL.short(c)
            if sc in OFFSET_GETTERS:
                m += 1
                continue
            n += 1
            k = seen[sc] = seen.get(sc, -1) + 1
            why = OFFSET_MAKERS.get(p, {}).get(sc)
            if why is None and sc == "TextSize::of":
                why = "the length of a text (TextSize::of): a bound, wherever the range test sits"
            res.ob(rule, "offset-maker/%s/%s/%d" % (FL.short(p), sc, k), "this text offset is made by the line map from (line, column), or is a reviewed bound",
                   why is not None, where=f.loc(t["ln"]), how=("reviewed: " + why) if why else "a TextSize/TextRange is built or moved here, outside the line map "
                   "and the reviewed makers: an offset computed from a column is wrong behind the first non-ASCII character", reviewed=why is not None)
    res.floor("makers of text offsets in crate glas (positive control)", n, 3)
    res.analysed["offset_reads_in_glas"] = m


def columns_consult_the_width_table(F, res, rule="U11"):
    """U11: every answer in UTF-16 columns went through the width table. A method of LineMap that reads the byte position of a line start
    (an element of `line_starts`, not its length) and answers a column, a (line, column) pair or an offset is converting between bytes
    and UTF-16 units; on every path to its return it must have asked the per-line table of wide characters. A path that answers from byte
    arithmetic alone - an early return for the last line, for an empty line, for `col == 0` written as a shortcut that also catches
    other cases - is right for ASCII lines only."""
    LM = "glas::vfs::LineMap::"
    n, bad = 0, []
    for p_, f in sorted(F.fns.items()):
        if not p_.startswith(LM) or not f.blocks or "{closure" in p_ or f.d.get("arg_count", 0) < 1:
            continue
        if not (f.local_ty(1) or "").endswith("LineMap") or (f.local_ty(1) or "").startswith("&mut"):
            continue
        out = f.d.get("output") or ""
        if not ("u32" in out or "TextSize" in out):
            continue
        d = FL.Defs(f)

        def reads(field, elem_only):
            hits = []
            for b, t in f.calls():
                c = FL.short(callee(t) or callee_def(t) or "")
                if not t["args"]:
                    continue
                o = d.origin_op(t["args"][0], through_calls=("Deref>::deref", "Deref::deref"))
                names = [e.get("n") for e in (o.get("proj") or []) if isinstance(e, dict) and "f" in e] if o.get("k") == "field" else []
                if field in names:
                    last = c.rsplit("::", 1)[-1]
                    if elem_only and last in ("len", "is_empty"):
                        continue
                    hits.append(b)
            if elem_only:
                # direct indexing self.line_starts[i] shows up as Index::index(&self.line_starts, i) (a call) - covered above
                pass
            return hits
        starts = reads("line_starts", True)
        if not starts:
            continue
        n += 1
        table = reads("char_diffs", False)
        # the table asked through a helper of the line map (`self.diffs_for_line(line)`)
        for b, t in f.calls():
            c = callee(t) or ""
            h = F.fns.get(c)
            if c.startswith(LM) and c != p_ and h is not None and h.blocks:
                dh = FL.Defs(h)
                for _b2, t2 in h.calls():
                    if not t2["args"]:
                        continue
                    o2 = dh.origin_op(t2["args"][0], through_calls=("Deref>::deref", "Deref::deref"))
                    if o2.get("k") == "field" and "char_diffs" in [e.get("n") for e in o2.get("proj", []) if isinstance(e, dict)]:
                        table.append(b)
                        break
        rets = f.return_blocks()
        # paths entry -> return that read a line start but never ask the table
        leak = [r for r in rets if f.can_reach(0, [r], avoid=table) and any(f.can_reach(0, [sb], avoid=table) and (sb == r or f.can_reach(sb, [r], avoid=table)) for sb in starts)]
        if not table or leak:
            bad.append("%s: a path reads a line start and returns without consulting char_diffs" % FL.short(p_))
    res.floor("LineMap methods that convert between byte positions and columns", n, 3)
    res.ob(rule, "columns/consult-the-width-table", "every LineMap method that answers a column or an offset from the byte position of a line start asks the "
           "per-line table of wide characters on every path to its return", n > 0 and not bad, where="crates/glas/src/vfs.rs",
           how="%d methods, no path round the table" % n if not bad else "; ".join(bad))


def text_positions_are_counted_in_bytes(F, res, rule="U12", crates=("syntax", "ide", "glas")):
    """U12 (engine U, lib/units.py): every position and length in a text is a number of BYTES in this code base - text_size's
    TextSize / TextRange, str slicing, String::drain / truncate / insert, the logos lexer's bump. A text can also be measured in
    characters (`chars().count()`, the index of `chars().enumerate()`, `position` over characters) or in UTF-16 units
    (`char::len_utf16`, `encode_utf16`); on ASCII the three agree, which is all the suite contains. For every argument of a byte
    sink the backward dependence closure (assignments, arithmetic, casts, ranges, calls; stopping at calls that answer in bytes
    whatever they are given; through workspace helpers whose integer result depends on such a measure; into a closure's captures)
    must reach no non-byte measure. The one place that converts between the units is LineMap, and it does so with its width table,
    which is built from the bytes themselves (C14 U1-U11): it needs no exemption. Breaking this shortens or lengthens token ranges
    (C01: the tree loses text; C02/C10/C15: slicing inside a character panics), ends a search range early (C06/C07: the last uses of
    a name are not found), moves reported ranges (C20)."""
    from lib import units as UN
    un = getattr(F, "_units_engine", None)
    if un is None:
        un = F._units_engine = UN.Units(F)
        un._bad, un._n = un.sinks_fed_by_nonbyte_measures()
    total = 0
    for cr in crates:
        mine = [(f, ln, sink, got) for f, ln, sink, got in un._bad if f.path.startswith((cr + "::", "<" + cr + "::"))]
        n = un.count_sinks(cr)
        total += n
        res.ob(rule, "units/bytes-only/" + cr, "no byte position or byte length of crate %s (text_size constructors, str slicing, String editing, "
               "Lexer::bump) is computed from a count of characters or of UTF-16 units" % cr, not mine,
               where=(mine[0][0].loc() if mine else None),
               how="byte sinks looked at: %d; " % n + ("none is fed by a non-byte measure" if not mine else "; ".join(
                   "%s line %s: %s is fed by %s" % (FL.short(f.path), ln, sink, ", ".join("%s (%s, line %s)" % (c, u, l) for u, c, l in got)) for f, ln, sink, got in mine[:4])))
    return total


def run(F, res, tier):
    width_table(F, res)
    line_ends_and_bom(F, res)
    from rules import c13 as _c13
    _c13.line_map_coordinates_agree(F, res, rule="U2")
    scans(F, res)
    lines(F, res)
    positions(F, res)
    same_file(F, res)
    one_position_encoding(F, res)
    offsets_have_one_maker(F, res)
    columns_consult_the_width_table(F, res)
    # the line map a conversion uses is the line map of the text it converts for: stored together with it (C13/D1) and re-read
    # after every change of one notification (C13/D2)
    _c13.text_and_line_map_written_together(F, res, rule="U7")
    _c13.edits_use_the_current_line_map(F, res, rule="U7")
    _c13.line_ends_are_normalised_first(F, res, rule="U8")     # every carriage-return line end is normalised, a lone one too (D1)
    n = text_positions_are_counted_in_bytes(F, res)
    res.floor("byte sinks of the workspace (text_size constructors, str slicing, String editing, Lexer::bump)", n, 24)
    from lib import units as _UN
    res.floor("byte sinks whose dependence closure ends in a byte measure (positive control of engine U: lex_string's bump <- char::len_utf8)",
              F._units_engine.positive_controls(), 3)
