"""C18 — Completions list what is in scope (sibling agreement of the two scope walks, visibility filter, replacement range)."""
from lib import flow as FL
from lib import pcache
from lib.facts import callee, callee_def, op_local, op_place
from rules import c05

META = {
    "level": "other",
    "technique": "static analysis: sibling agreement (tables and order extracted from the MIR of the name lookup and of the in-scope enumeration), control dependence of the offered module members on the visibility test, provenance of the replacement range",
    "rule": "X1 Resolver::values_names_in_scope (what completion offers) and Resolver::resolve_name (what a name resolves to) agree: same "
            "scope order, same ModuleDefId -> ResolveResult table, first occurrence wins; X2 the members offered after `module.` are "
            "filtered on visibility; X3 the replacement range is the identifier/keyword token under the cursor or the empty range at the "
            "cursor. One obligation per table row / clause. X4 common fields are the intersection; X5/X6 imports are offered under the name they bind; X7 the visibility a constructor is declared with depends on the `opaque` modifier of its type. X8/X9 = C11 H6/H7. X12 the fields offered after `value.` depend on the `opaque` modifier of the value's type. X11 = C05 S7/S8 (an imported item is bound as a value only by a value import, as a type only by `type X`). X10 every constructor that becomes a variant contributes its field set to the common-fields intersection.",
    "explanation": "If the enumeration offered by completion and the lookup used by go-to-definition are two implementations of one "
                   "scope walk, then every offered name resolves and nothing resolvable is left out only if the two agree on order and "
                   "on the kinds of module items they treat as values. That agreement is decided from the MIR; the exact set for every "
                   "program is behavioural. X18 resolve_import tests the visibility of each declaration on its own (no take_while / any / find / first over the declarations of a name).",
    "not_decided": "exactly the names visible at every hole of every program; fields offered after `value.` for every type.",
    "trusted_base": ["rustc MIR"],
    "assumptions": [],
}

RS = "ide::def::resolver::Resolver::"
MD = "ide::def::hir_def::ModuleDefId"
RR = "ide::def::resolver::ResolveResult"


def moddef_table(F, fn):
    """ModuleDefId variant -> ResolveResult variant constructed in that arm (None = nothing)"""
    # the match may sit in the function, in a closure, or in a helper of the resolver module it delegates to
    fs = [F.fns[p] for p in F.with_helpers(fn.path, depth=1) if p == fn.path or "{closure" in p or p.startswith("ide::def::resolver::")]
    for f in fs:
        d = FL.Defs(f)
        b0, t = c05.match_on(f, d, MD)
        if t is None:
            continue
        dm = F.discr_map(MD)
        tg, reach = c05.regions(f, t, avoid=b0)
        for v in dm:
            tg.setdefault(v, t["otherwise"])
        common = set.intersection(*reach.values()) if len(reach) > 1 else set()
        out = {}
        for v, x in tg.items():
            region = reach[x] - common
            made = set()
            for b in region:
                for s in f.blocks[b]["stmts"]:
                    rv = s.get("rv")
                    if rv and rv["k"] == "agg" and rv.get("adt") == RR and rv["variant"] not in ("BuiltIn", "Local"):
                        made.add(rv["variant"])
            out[dm[v]] = sorted(made)
        return out, f
    return None, fn


PREFIX_OR_LUMPING = ("any", "all", "find", "find_map", "position", "rposition", "take_while", "skip_while", "map_while", "max_by_key", "min_by_key",
                     "take", "skip", "step_by", "first", "last", "next", "nth", "scan", "try_fold", "try_for_each")


def visibility_tests_outside_a_per_item_filter(F, anchor):
    """closures of `anchor` (and of its same-crate helpers) that compare a Visibility and are handed to an adaptor whose answer for
    one item depends on its neighbours: any/all/find lump the declarations of a name together, take_while/skip_while/map_while cut the
    list at the first item that fails (a private type declared before a public constructor of the same name hides the constructor).
    `filter`, `filter_map`, `retain`, a test in a loop body decide item by item."""
    out = []
    for q in F.with_helpers(anchor, depth=2):
        f = F.fns.get(q)
        if f is None or not f.blocks or "{closure" not in f.path:
            continue
        has_vis = any((c_.endswith(("PartialEq>::ne", "PartialEq>::eq", "PartialEq::ne", "PartialEq::eq")) and "Visibility" in (c_ + ((t.get("fn") or {}).get("full", ""))))
                      for _b, t in f.calls() for c_ in [callee(t) or callee_def(t) or ""])
        if not has_vis:
            # a comparison of the fieldless enum compiles to a discriminant comparison when PartialEq is derived and inlined
            has_vis = any("Visibility" in str(f.local_ty(l) or "") for l in range(len(f.d.get("locals", []))))
            has_vis = has_vis and any((s_.get("rv") or {}).get("k") in ("discr",) for _b, _i, s_ in f.stmts())
        if not has_vis:
            continue
        parent = F.fns.get(f.path.rsplit("::{closure", 1)[0])
        if parent is None or not parent.blocks:
            continue
        dp = FL.Defs(parent)
        for _b, t in parent.calls():
            for a in t["args"]:
                oa = dp.origin_op(a) if isinstance(a, dict) and "k" not in a else {}
                if oa.get("k") == "agg" and oa["rv"].get("closure") == f.path:
                    ad = FL.short(callee(t) or callee_def(t) or "").rsplit("::", 1)[-1]
                    if ad in PREFIX_OR_LUMPING:
                        out.append("%s (%s line %s)" % (ad, FL.short(parent.path), t["ln"]))
    return out


def imports_test_visibility_per_declaration(F, res, rule="X18"):
    """X18 (= C05 S25): `import m.{Name}` brings in every PUBLIC declaration called Name - a name can stand for several (a type and a
    constructor, a private type and the public constructor of another type). ModuleScope::resolve_import decides declaration by
    declaration: its visibility test sits in a `filter` (or a loop body), not in an adaptor that stops at the first failing item or
    answers for the whole list. With take_while, `type Circle { Dot }` declared before `pub type Shape { Circle(Int) }` makes
    `import shapes.{Circle}` bind nothing: the constructor is neither resolved nor offered, and the answer depends on the order of
    the top-level items."""
    ri = F.fns.get("ide::def::scope::ModuleScope::resolve_import")
    if ri is None or not ri.blocks:
        res.anchor_missing(rule, "ide::def::scope::ModuleScope::resolve_import")
        return
    bad = visibility_tests_outside_a_per_item_filter(F, ri.path)
    res.ob(rule, "import/visibility-per-declaration", "resolve_import tests the visibility of each declaration of the imported name on its own (filter / loop body), "
           "not through take_while / skip_while / any / find / first ..", not bad, where=ri.loc(),
           how="per-declaration filter" if not bad else "visibility tested inside %s" % bad)


def run(F, res, tier):
    names = F.fn(RS + "values_names_in_scope")
    look = F.fn(RS + "resolve_name")
    t1, f1 = moddef_table(F, names)
    t2, f2 = moddef_table(F, look)
    if t1 is None or t2 is None:
        res.anchor_missing("X1", "match on ModuleDefId in values_names_in_scope / resolve_name")
    else:
        res.analysed["enumeration_table"] = t1
        res.analysed["lookup_table"] = t2
        for v in sorted(set(t1) | set(t2)):
            res.ob("X1", "table/" + v, "module item kind %s is treated the same by the in-scope enumeration and by name lookup" % v,
                   t1.get(v) == t2.get(v), where=names.loc(), how="enumeration -> %s, lookup -> %s" % (t1.get(v), t2.get(v)))
    # order: expression scopes before module values in both
    for fn, loc_call, mod_call in ((names, "ExprScopes::entries", "ModuleScope::values"), (look, "ExprScopes::resolve_name_in_scope", "ModuleScope::resolve_name_locally")):
        cs = [(b, FL.short(callee(t) or callee_def(t))) for b, t in fn.calls()]
        lb = [b for b, c in cs if c == loc_call]
        mb = [b for b, c in cs if c == mod_call]
        ok = bool(lb) and bool(mb) and all(fn.can_reach(x, mb) for x in lb) and not any(fn.can_reach(m, lb) for m in mb)
        res.ob("X1", "order/" + fn.name, "%s visits the expression scopes before the module's values" % fn.name, ok, where=fn.loc(),
               how="local lookups %d, module lookups %d" % (len(lb), len(mb)))
    chain_n = any(FL.short(callee(t) or callee_def(t)) == "ExprScopes::scope_chain" for b, t in names.calls())
    fs_look = [F.fns[p] for p in F.with_closures("ide::def::scope::ExprScopes::resolve_name_in_scope")]
    chain_l = any(FL.short(callee(t) or callee_def(t)) == "ExprScopes::scope_chain" for f in fs_look for b, t in f.calls())
    res.ob("X1", "same-chain", "both walks enumerate a scope's ancestors with ExprScopes::scope_chain (innermost first)", chain_n and chain_l,
           where=names.loc(), how="enumeration: %s, lookup: %s" % (chain_n, chain_l))
    add = F.fn("ide::def::resolver::ScopeNames::add")
    d = FL.Defs(add)
    ins = [b for b, t in add.calls() if FL.short(callee(t) or callee_def(t)).endswith("VacantEntry::insert")]
    b0, t = None, None
    for b in sorted(add.reachable()):
        tt = add.term(b)
        if tt["k"] == "switch":
            l = op_local(tt["op"])
            o = d.origin(l) if l is not None else {}
            if o.get("k") == "rv" and o["rv"]["k"] == "discr" and "Entry" in o["rv"]["of"]:
                b0, t = b, tt
    first_wins = False
    for b in ins:
        dcs = set()
        for s_ in add.blocks[b]["stmts"]:
            if s_["k"] == "assign":
                for key in ("op",):
                    o_ = s_["rv"].get(key)
                    pl = op_place(o_) if isinstance(o_, dict) else None
                    if pl:
                        dcs |= {e.get("n") for e in pl["p"] if isinstance(e, dict) and "dc" in e}
        others = [bb for bb, tt in add.calls() if "insert" in (callee(tt) or "") and bb not in ins]
        first_wins = dcs == {"Vacant"} and not others
    res.ob("X1", "first-occurrence-wins", "ScopeNames::add keeps the first definition of a name (inner scopes are added first, so inner shadows outer, as in lookup)",
           first_wins, where=add.loc(), how="insert only into a vacant entry: %s" % first_wins)
    extra_rules(F, res)
    opaque_constructors_private(F, res)
    imports_test_visibility_per_declaration(F, res)
    # ---- X2
    cd = F.fn("ide::ide::completion::complete_dot")
    fs = [F.fns[p] for p in F.with_closures(cd.path)]
    vis = False
    for f in fs:
        for b, t in f.calls():
            c = callee(t) or callee_def(t) or ""
            full = (t.get("fn") or {}).get("full", "")
            if (c.endswith("PartialEq>::ne") or c.endswith("PartialEq>::eq") or c.endswith("PartialEq::ne") or c.endswith("PartialEq::eq")) and "Visibility" in (c + full):
                vis = True
    filt = any(FL.short(callee(t) or callee_def(t)) == "Iterator::filter" for b, t in cd.calls())
    decl = any(FL.short(callee(t) or callee_def(t)) == "ModuleScope::declarations" for b, t in cd.calls())
    renders = [b for b, t in cd.calls() if (callee(t) or "").startswith("ide::ide::completion::render::")]
    filt_b = [b for b, t in cd.calls() if FL.short(callee(t) or callee_def(t)) == "Iterator::filter"]
    dom = bool(renders) and bool(filt_b) and all(any(cd.dominates(fb, r) for fb in filt_b) for r in renders)
    # the same test written in the loop body (`if item.1 == Private { continue }`): every render is gated by a Visibility comparison
    if not (filt and dom) and renders:
        dcd = FL.Defs(cd)
        gated = True
        for r in renders:
            gs = FL.gates(F, cd, [r], dcd)
            ok_r = False
            for g in gs:
                c = (g.get("callee") or "")
                full = ((g.get("call_t") or {}).get("fn") or {}).get("full", "") if g.get("call_t") else ""
                if c.rsplit("::", 1)[-1] in ("ne", "eq") and "Visibility" in c + full and \
                        g["allowed"] == [c.endswith("ne")]:
                    # ne(.., Private) == true / eq(.., Private) == false
                    strs = FL.depends(F, cd, dcd, g["call_t"]["args"][1]) if len(g["call_t"]["args"]) > 1 else {}
                    ok_r = True
            gated = gated and ok_r
        if gated:
            filt, dom = True, True
    res.ob("X2", "dot/visibility-filter", "after `module.` only declarations that pass the visibility filter are rendered (private items of other modules are never offered)",
           vis and filt and decl and dom, where=cd.loc(), how="Visibility comparison: %s, filter (or an equivalent test in the loop) dominates rendering: %s" % (vis, dom))
    # the test is made per declaration, as ModuleScope::resolve_import makes it: one name can stand for several declarations (a public
    # type and its private constructor), and "some declaration under this name is public" lets the private one through
    lumped = []
    for f in fs:
        if "{closure" not in f.path:
            continue
        has_vis = any((c_.endswith(("PartialEq>::ne", "PartialEq>::eq", "PartialEq::ne", "PartialEq::eq")) and "Visibility" in (c_ + ((t.get("fn") or {}).get("full", ""))))
                      for _b, t in f.calls() for c_ in [callee(t) or callee_def(t) or ""])
        if not has_vis:
            continue
        parent = F.fns.get(f.path.rsplit("::{closure", 1)[0])
        if parent is None:
            continue
        dp = FL.Defs(parent)
        for _b, t in parent.calls():
            for a in t["args"]:
                oa = dp.origin_op(a) if isinstance(a, dict) and "k" not in a else {}
                if oa.get("k") == "agg" and oa["rv"].get("closure") == f.path:
                    ad = FL.short(callee(t) or callee_def(t) or "").rsplit("::", 1)[-1]
                    if ad in PREFIX_OR_LUMPING:
                        lumped.append("%s (line %s)" % (ad, t["ln"]))
    res.ob("X2", "dot/visibility-per-declaration", "the visibility of a member offered after `module.` is that declaration's own (the test is not an any / all / "
           "find over the declarations that share a name)", not lumped, where=cd.loc(), how="per-declaration filter" if not lumped else "visibility tested inside %s" % lumped)
    # ---- X3
    cn = F.fn("ide::ide::completion::CompletionContext::new")
    dn = FL.Defs(cn)
    srcs = []
    for b, i, s in cn.stmts():
        if s["k"] == "assign" and s["place"]["p"] and isinstance(s["place"]["p"][-1], dict) and s["place"]["p"][-1].get("n") == "source_range":
            o = dn.origin_rv(s["rv"], None, b, 0, ())
            if o.get("k") == "multi":
                for dd in o["defs"]:
                    if dd[2] == "call":
                        srcs.append(FL.short(callee(dd[3]) or callee_def(dd[3])))
                    elif dd[2] == "assign":
                        oo = dn.origin_rv(dd[3]["rv"], None, dd[0], 0, ())
                        srcs.append(FL.short(callee(oo["t"]) or callee_def(oo["t"])) if oo.get("k") == "call" else oo.get("k"))
            elif o.get("k") == "call":
                srcs.append(FL.short(callee(o["t"]) or callee_def(o["t"])))
            else:
                srcs.append(o.get("k"))
    okx = bool(srcs) and set(srcs) <= {"SyntaxToken::text_range", "TextRange::empty"} and "SyntaxToken::text_range" in srcs
    res.ob("X3", "source-range", "the replacement range is assigned only from the cursor token's text_range() or TextRange::empty(cursor)",
           okx, where=cn.loc(), how="sources: %s" % sorted(set(map(str, srcs))))
    # the token whose range is used is the token at the cursor
    tk = any(FL.short(callee(t) or callee_def(t)) == "syntax::best_token_at_offset" or (callee(t) or "") == "syntax::best_token_at_offset" for b, t in cn.calls())
    res.ob("X3", "token-at-cursor", "that token is best_token_at_offset(file, cursor)", tk, where=cn.loc(), how=str(tk))
    labels_are_scope_names(F, res)
    # what salsa may back-date is decided by the equality of the query values (C11 H6/H7): a scope that compares equal although a
    # visibility, an id or an order changed leaves the dependents with the old answer
    from rules import c11 as _c11
    _c11.value_equality_rules(F, res, rule="X8", rule2="X9")
    every_constructor_is_in_the_intersection(F, res)
    accessors_of_opaque_types_stay_private(F, res)
    # the value names offered at an expression position are ModuleScope.values: a type import must not bind a constructor there
    from rules import c05 as _c05
    _c05.namespaces(F, res, rule7="X11", rule8="X11")
    keyword_class_is_complete(F, res)
    _c05.let_use_ordering(F, res, rule="X17")   # the names offered inside the right-hand side of a let / use are those of the scope before it
    _c05.every_visited_expression_has_its_scope_recorded(F, res, rule="X15")   # completion asks for the scope of exactly the expression under the cursor
    _c05.lowering_visits_every_child(F, res, rule="X13")   # names inside a construct that is never lowered are offered nothing
    from rules import c09 as _c09x
    _c09x.declared_types_are_read_in_their_own_module(F, res, rule="X14")   # after `value.` only fields the value's type has


def extra_rules(F, res):
    # ---- X4: fields offered after `value.` are the fields every constructor has with the same type
    lw = F.fn("ide::def::lower::LowerCtx::lower_custom_type")
    d = FL.Defs(lw)
    ret = [(lw, d, b, t) for b, t in lw.calls() if FL.short(callee(t) or callee_def(t)) == "HashMap::retain"]
    # the intersection loop written as a fold: the retain sits in the folding closure
    for cp in F.closures_of(lw.path):
        cfn = F.fns[cp]
        ret += [(cfn, FL.Defs(cfn), b, t) for b, t in cfn.calls() if FL.short(callee(t) or callee_def(t)) == "HashMap::retain"]
    ok, why = False, "no HashMap::retain over the first constructor's fields"
    for holder, d, b, t in ret:
        o = d.origin_op(t["args"][1])
        if o.get("k") == "agg" and "closure" in o["rv"] and o["rv"]["closure"] in F.fns:
            cf = F.fns[o["rv"]["closure"]]
            dc = FL.Defs(cf)
            none_false = eq_cmp = False
            for bb in sorted(cf.reachable()):
                tt = cf.term(bb)
                if tt["k"] == "switch":
                    l = op_local(tt["op"])
                    oo = dc.origin(l) if l is not None else {}
                    if oo.get("k") == "rv" and oo["rv"]["k"] == "discr" and "Option" in oo["rv"]["of"]:
                        tg = dict((v, x) for v, x in tt["targets"])
                        none_bb = tg.get(0, tt["otherwise"])
                        for s_ in cf.blocks[none_bb]["stmts"]:
                            if s_["k"] == "assign" and s_["place"]["l"] == 0 and s_["rv"]["k"] == "use" and \
                                    str((s_["rv"]["op"].get("k") or {}).get("bits")) == "0":
                                none_false = True
            for bb, tt in cf.calls():
                c = callee(tt) or callee_def(tt) or ""
                if c.endswith("::eq") and "PartialEq" in c:
                    if tt["dest"]["l"] == 0 or dc.origin(0).get("bb") == bb:
                        eq_cmp = True
            # the same test as the guard of a pattern: matches!(other.get(k), Some(o) if o == ty) - the comparison's answer is switched
            # on, one side answers true, the other false
            if not eq_cmp:
                consts = {str((s_["rv"]["op"].get("k") or {}).get("bits")) for _b, _i, s_ in cf.stmts()
                          if s_["k"] == "assign" and s_["place"]["l"] == 0 and not s_["place"]["p"] and s_["rv"]["k"] == "use" and isinstance(s_["rv"]["op"].get("k"), dict)}
                for bb, tt in cf.calls():
                    c = callee(tt) or callee_def(tt) or ""
                    if c.endswith("::eq") and "PartialEq" in c:
                        nb = tt.get("target")
                        t3 = cf.term(nb) if nb is not None else {}
                        if t3.get("k") == "switch" and op_local(t3["op"]) == tt["dest"]["l"] and {"0", "1"} <= consts:
                            eq_cmp = True
            # the same test written with a combinator: get(k).map_or(false, |o| o == ty) / .is_some_and(|o| o == ty) / get(k) == Some(ty)
            for bb, tt in cf.calls():
                c = FL.short(callee(tt) or callee_def(tt) or "")
                if tt["dest"]["l"] != 0 and dc.origin(0).get("bb") != bb:
                    continue
                inner_eq = any("PartialEq" in (callee(t2) or callee_def(t2) or "") and (callee(t2) or callee_def(t2) or "").endswith("::eq")
                               for cp in F.closures_of(cf.path) for _, t2 in F.fns[cp].calls())
                if c == "Option::map_or" and str((tt["args"][1].get("k") or {}).get("bits")) == "0" and inner_eq:
                    none_false = eq_cmp = True
                if c == "Option::is_some_and" and inner_eq:
                    none_false = eq_cmp = True
                if c.endswith("::eq") and any("Option" in (cf.local_ty(op_local(a)) or "") for a in tt["args"] if op_local(a) is not None):
                    none_false = eq_cmp = True
            ok = none_false and eq_cmp
            why = "a field missing from another constructor is dropped: %s; otherwise kept only if the types are equal: %s" % (none_false, eq_cmp)
    res.ob("X4", "common-fields-intersection", "the fields offered after `value.` are those every constructor of the type has, with the same type (intersection, not union)",
           ok, where=lw.loc(), how=why)
    # ---- X5: an imported module is offered under the name the import binds
    ce = F.fn("ide::ide::completion::complete_expr")
    de = FL.Defs(ce)
    okx, whyx = False, "no resolve_module call in the import loop"
    for b, t in ce.calls():
        if callee(t) == "ide::def::resolver::Resolver::resolve_module":
            # backward slice of the name argument
            seen_l, st, fields = set(), [t["args"][1]], set()
            while st:
                op = st.pop()
                pl = op_place(op)
                if pl is None:
                    continue
                fields |= {e.get("n") for e in pl["p"] if isinstance(e, dict) and "f" in e}
                if pl["l"] in seen_l:
                    continue
                seen_l.add(pl["l"])
                for dd in de.defs.get(pl["l"], []):
                    if dd[2] == "call":
                        st.extend(dd[3]["args"])
                        for a in dd[3]["args"]:
                            oo = de.origin_op(a)
                            if oo.get("k") == "agg" and "closure" in oo["rv"] and oo["rv"]["closure"] in F.fns:
                                cfn = F.fns[oo["rv"]["closure"]]
                                for bb_, i_, s_ in cfn.stmts():
                                    rv_ = s_.get("rv", {})
                                    for key in ("op", "place"):
                                        pp = op_place(rv_[key]) if key == "op" and isinstance(rv_.get(key), dict) else rv_.get(key) if key == "place" else None
                                        if pp:
                                            fields |= {e.get("n") for e in pp["p"] if isinstance(e, dict) and "f" in e}
                                st.extend(oo["rv"]["ops"])
                    else:
                        rv = dd[3]["rv"]
                        for key in ("op", "a", "b"):
                            if isinstance(rv.get(key), dict):
                                st.append(rv[key])
                        if "place" in rv:
                            st.append({"cp": rv["place"]})
                        st.extend(rv.get("ops", []))
            okx = "as_name" in fields and "accessor" in fields
            whyx = "the looked-up name derives from fields %s" % sorted(x for x in fields if x)
    res.ob("X5", "import-bound-name", "an imported module is looked up (and offered) under the name the import binds: its `as` alias if there is one, else its last path segment",
           okx, where=ce.loc(), how=whyx)


def labels_are_scope_names(F, res, rule="X6"):
    """X6: every item offered for a name in scope is offered UNDER that name. In complete_expr's loop over
    Resolver::values_names_in_scope() the pushed CompletionItem's `label` and `replace` must derive from the loop's name
    (tuple field 0 of the iterator item), either in the struct literal or by assignment after a render helper built it.
    (`import m.{foo as bar}` puts `bar` in scope; offering `foo` inserts a name that does not resolve.)"""
    fn = F.fn("ide::ide::completion::complete_expr")
    d = FL.Defs(fn)
    # the names loop: the Iterator::next whose receiver derives from values_names_in_scope
    nexts = []
    for b, t in fn.calls():
        if FL.short(callee(t) or callee_def(t)).endswith("Iterator::next"):
            dep = FL.depends(F, fn, d, t["args"][0])
            if any(c.endswith("Resolver::values_names_in_scope") for c in dep["calls"]):
                nexts.append(b)
    if not nexts:
        res.anchor_missing(rule, "loop over Resolver::values_names_in_scope() in complete_expr")
        return
    nb = nexts[0]
    loops = [fn.natural_loop(tail, head) for tail, head in fn.back_edges()]
    body = min((l for l in loops if nb in l), key=len, default=set())

    def from_name(op):
        o = d.origin_op(op, ("Clone>::clone", "Into<U>>::into", "From<T>>::from", "ToOwned>::to_owned"))
        if o.get("k") != "field":
            return False
        base = o["base"]
        while base.get("k") == "field":
            base = base["base"]
        proj = [e for e in o.get("proj", []) if isinstance(e, dict)]
        # Some(payload) . payload.0 (the name of the (name, def) pair)
        idx = [e.get("f") for e in proj if e.get("n") != "Some"]
        return base.get("k") == "call" and base.get("bb") == nb and len(idx) >= 2 and idx[-1] == 0
    n = 0
    for b, t in fn.calls():
        if FL.short(callee(t) or callee_def(t)) != "Vec::push" or b not in body:
            continue
        n += 1
        ordn = [bb for bb, tt in fn.calls() if FL.short(callee(tt) or callee_def(tt)) == "Vec::push" and bb in body].index(b)
        o = d.origin_op(t["args"][1])
        ok = {"label": False, "replace": False}
        how = ""
        if o.get("k") == "agg" and (o["rv"].get("adt") or "").endswith("CompletionItem"):
            for fld in ok:
                fop = o["rv"]["ops"][o["rv"]["fields"].index(fld)]
                ok[fld] = from_name(fop)
                if not ok[fld]:
                    # formatted from the name (format!("{}", name)): depends on the loop item and on no declared-name accessor
                    dep = FL.depends(F, fn, d, fop)
                    ok[fld] = any(c.endswith("Iterator::next") for c in dep["calls"]) and any("fmt" in c for c in dep["calls"]) and \
                        not any(c.endswith("::name") for c in dep["calls"])
            how = "struct literal"
        elif o.get("k") == "call":
            # built by a helper: the fields must be overwritten from the name before the push
            item_l = o.get("l")
            for bb, i, s_ in fn.stmts():
                if s_["k"] == "assign" and s_["place"]["l"] == item_l and s_["place"]["p"] and fn.dominates(bb, b):
                    pr = s_["place"]["p"][-1]
                    nm = pr.get("n") if isinstance(pr, dict) else None
                    if nm in ok and s_["rv"]["k"] == "use" and from_name(s_["rv"]["op"]):
                        ok[nm] = True
            how = "built by %s" % FL.short(callee(o["t"]) or callee_def(o["t"]))
        res.ob(rule, "scope-name/%d" % ordn, "the item pushed here for a name in scope carries that name as its label and as the text it inserts",
               all(ok.values()), where=fn.loc(t["ln"]), how="%s; label from the scope name: %s, inserted text from the scope name: %s" % (how, ok["label"], ok["replace"]))
    res.floor("items pushed in the names-in-scope loop", n, 4)


def opaque_constructors_private(F, res, rule="X7"):
    """X7: `pub opaque type T { C }` exports T but not C. The parser accepts the modifier (engine P: a site consumes OPAQUE_KW);
    the visibility a constructor is declared with in the module scope (what `module.` completion and imports filter on) must
    depend on it: the scope reads it from fields of AdtData, and the lowering must fill one of those from an AST accessor that
    looks for the `opaque` token."""
    import json as _json
    R = pcache.results(F)
    accepts = sorted(k for k, v in R["consume_sites"].items() if "OPAQUE_KW" in (v.get("kinds") or []))
    res.floor("parser sites that consume the `opaque` modifier", len(accepts), 1)
    readers = set()
    for p, g in F.fns.items():
        if "syntax::ast" in p and g.blocks and "OPAQUE_KW" in _json.dumps(g.d):
            readers.add(FL.short(p.split("::{closure")[0]))
    from lib import inline as IN
    sc0 = F.fn("ide::def::scope::module_scope_with_map_query")
    # helpers of the scope module (`scope.declare(name, def, visibility)`) are part of the query
    sc = IN.inlined(F, sc0, lambda c: c.startswith("ide::def::scope::") and "{closure" not in c, depth=1)
    d = FL.Defs(sc)
    feeds = None
    where = sc0.loc()
    for b, i, s in sc.stmts():
        rv = s.get("rv")
        if rv and rv["k"] == "agg" and rv.get("agg") == "tuple" and len(rv["ops"]) == 2:
            o = d.origin_op(rv["ops"][0])
            if o.get("k") == "agg" and o["rv"].get("adt", "").endswith("ModuleDefId") and o["rv"].get("variant") == "VariantId" and \
                    "Visibility" in (sc.local_ty(op_local(rv["ops"][1])) or ""):
                feeds = FL.fields_feeding(F, sc, d, rv["ops"][1], "AdtData", use_bb=b)
                where = sc.loc(s["ln"])
    lw = F.fn("ide::def::lower::LowerCtx::lower_custom_type")
    dl = FL.Defs(lw)
    from_opaque = {}
    for b, i, s in lw.stmts():
        rv = s.get("rv")
        if rv and rv["k"] == "agg" and rv.get("adt", "").endswith("AdtData"):
            for n, o in zip(rv["fields"], rv["ops"]):
                calls = FL.depends(F, lw, dl, o, use_bb=b)["calls"]
                if calls & readers:
                    from_opaque[n] = sorted(calls & readers)
    ok = feeds is not None and bool(set(feeds) & set(from_opaque))
    res.ob(rule, "opaque/constructors-not-exported", "the visibility a constructor is declared with depends on the `opaque` modifier of its type "
           "(constructors of a `pub opaque type` are private to their module: never offered after `module.`, never importable)",
           ok, where=where,
           how="constructor visibility is computed from AdtData fields %s; fields filled from an accessor that looks for `opaque`: %s; such "
               "accessors in the AST: %s" % (sorted(feeds) if feeds is not None else None, from_opaque, sorted(readers)))


def every_constructor_is_in_the_intersection(F, res, rule="X10"):
    """X10: the fields offered after `value.` are AdtData::common_fields, the intersection of the labelled-field sets collected
    while the constructors are lowered (X4: it is an intersection). It has to range over *all* constructors: a record accessor
    exists only for a field every constructor has. In the loop that lowers the constructors (helpers inlined), an iteration
    that allocates a variant also pushes that variant's field set - `Stray`, written without a field list, contributes the
    empty set and so empties the intersection; if it contributed nothing, `pet.name` would be offered although Stray has none."""
    from lib import inline as IL
    f0 = F.fn("ide::def::lower::LowerCtx::lower_custom_type")
    f = IL.inlined(F, f0, want=lambda p: p.startswith("ide::def::lower::LowerCtx::lower_constructor"), depth=3)
    allocs = [b for b, t in f.calls() if (callee(t) or "").endswith("LowerCtx::alloc_variant")]
    pushes = [b for b, t in f.calls() if FL.short(callee(t) or callee_def(t) or "").endswith("Vec::push") and
              "HashMap<smol_str::SmolStr" in ((t.get("fn") or {}).get("full") or "") + " ".join((t.get("fn") or {}).get("targs") or [])]
    ways = FL.every_iteration_passes(f, pushes, must_visit=allocs) if allocs and pushes else [("none", "none")]
    if not pushes:
        # the same loop written as `acc.extend(constructors.filter_map(|c| self.lower_constructor(&c)).map(|(_, set)| set))`: every
        # Some(..) the helper returns contributes (only filter_map over the helper and projections in between), and the helper
        # returns Some on every path that allocated a variant
        DROPS = ("filter", "skip", "skip_while", "take", "take_while", "step_by", "zip", "nth", "last", "rev", "dedup", "peekable")
        okc, whyc = False, "no extend of the field-set accumulator found"
        for hp in [q for q in F.fns if q.startswith("ide::def::lower::LowerCtx::lower_constructor")]:
            for q in F.with_closures(hp):
                g = F.fns[q]
                dg = FL.Defs(g)
                for b, t in g.calls():
                    if not FL.short(callee(t) or callee_def(t) or "").endswith("::extend") or len(t["args"]) < 2:
                        continue
                    dep = FL.depends(F, g, dg, t["args"][1])
                    names = {x.rsplit("::", 1)[-1] for x in dep["calls"]}
                    if "filter_map" in names and not (names & set(DROPS)) and any(x.endswith("lower_constructor") for x in dep["calls"]):
                        okc, whyc = True, "extend(filter_map(lower_constructor) ..) with only projections in between"
        helper = F.fns.get("ide::def::lower::LowerCtx::lower_constructor")
        if okc and helper is not None:
            ha = [b for b, t in helper.calls() if (callee(t) or "").endswith("LowerCtx::alloc_variant")]
            nones = [b for b, i, s_ in helper.stmts() if s_["k"] == "assign" and s_["place"]["l"] == 0 and not s_["place"]["p"] and
                     (s_["rv"].get("k") == "agg" and s_["rv"].get("variant") == "None")]
            if any(helper.can_reach(a, nones) for a in ha):
                okc, whyc = False, "lower_constructor can return None after it allocated a variant"
        if okc:
            pushes, ways = ["extend"], []
            allocs = allocs or ha
    res.ob(rule, "common-fields/every-variant-contributes", "every constructor that becomes a variant contributes its set of labelled fields to the "
           "intersection (a constructor without a field list contributes the empty set)", bool(allocs) and bool(pushes) and not ways, where=f0.loc(),
           how="alloc_variant sites %d, pushes of a field set %d, iterations that allocate a variant without pushing: %d" % (len(allocs), len(pushes), len(ways)))


def accessors_of_opaque_types_stay_private(F, res, rule="X12"):
    """X12: `private items of other modules are never offered`. The record accessors of an `opaque` type are private to the
    module that defines it (X7 states the same for its constructors). In complete_dot the field items - CompletionItem with kind
    Field - are computed from AdtData.opaque: whether a field is offered depends (data or control) on the type's `opaque` flag.
    (That the dependence has the right sense - offered when not opaque or in the defining module - is not decided.)"""
    f = F.fn("ide::ide::completion::complete_dot")
    d = FL.Defs(f)
    n, bad = 0, []
    for b, i, s in f.stmts():
        rv = s.get("rv") or {}
        if rv.get("k") != "agg" or not (rv.get("adt") or "").endswith("CompletionItem"):
            continue
        kind = rv["ops"][rv["fields"].index("kind")]
        kv = FL.const_variant(kind.get("k")) if isinstance(kind, dict) and kind.get("k") else None
        if kv is None:
            o = d.origin_op(kind)
            kv = FL.const_variant(o.get("c")) if o.get("k") == "const" else (o.get("rv", {}).get("variant") if o.get("k") == "agg" else None)
        if kv != "Field":
            continue
        n += 1
        label = rv["ops"][rv["fields"].index("label")]
        feeding = FL.fields_feeding(F, f, d, label, "AdtData", use_bb=b)
        if "opaque" not in {str(x).rsplit(".", 1)[-1] for x in feeding}:
            bad.append("line %s" % s.get("ln"))
    res.ob(rule, "complete_dot/fields-of-opaque-types", "whether `value.` offers the fields of a type depends on the type's `opaque` modifier (the accessors "
           "of an opaque type are private to its module)", n > 0 and not bad, where=f.loc(),
           how="Field items built: %d; not depending on AdtData.opaque: %s" % (n, bad))


def keyword_class_is_complete(F, res, rule="X16"):
    """X16: the range a completion replaces is the token under the cursor when that token is an identifier *or a keyword* (typing
    `user` passes through `use`). Which kinds are keywords is SyntaxKind::is_keyword, a range test between two markers; tabulated over
    every kind (engine T) it must say yes for exactly the kinds the lexer produces for a reserved word (the `*_KW` variants): an
    exclusive upper bound drops the last one, and accepting `user` at `use|` then inserts `useuser`."""
    from lib import teval
    SK = "syntax::kind::SyntaxKind"
    pure = teval.Pure(F)
    kinds = F.variants(SK)
    try:
        got = {k for k in kinds if pure.call(SK + "::is_keyword", [("e", SK, k)]) == 1}
    except Exception as e:  # noqa
        res.anchor_missing(rule, "SyntaxKind::is_keyword could not be tabulated: %r" % (e,))
        return
    want = {k for k in kinds if k.endswith("_KW")}
    res.floor("keyword kinds", len(want), 12)
    res.ob(rule, "keywords/class", "SyntaxKind::is_keyword holds for exactly the *_KW kinds", got == want, where="crates/syntax/src/kind.rs",
           how="%d kinds" % len(got) if got == want else "missing %s, extra %s" % (sorted(want - got), sorted(got - want)))
