"""C13 — The server's copy of a document tracks the editor's through any edits (lock-step clauses)."""
from lib import flow as FL
from lib import effects as EF
from lib import panics as PN
from lib.facts import callee, callee_def, op_place, op_local

META = {
    "level": "other",
    "technique": "static analysis: who-may-write-field (Vfs.files), def-use from LineMap::normalize to both components of a stored entry and to the recorded change, loop membership of the position conversion, dominance of the splice guards, provenance of disk loads",
    "rule": "D1 text and line map are stored only by set_path_content/change_file_content, always as a pair from one normalize call, "
            "and normalize strips carriage returns first; D2 in on_did_change the position conversion re-reads the line map inside the "
            "per-change loop; D3 the splice is guarded (length and character boundary); D4 every stored text is also recorded, as the "
            "same Arc, in the pending Change; D5 text read from disk never replaces a file the Vfs already has, and watched-file reloads "
            "skip opened documents. One obligation per site. D2 also: no iteration of the change loop skips the splice; D4 also: Change::apply sets every recorded text, in order. D6 every handler that modifies the store applies the pending change before it returns, and the roots are re-partitioned before the change is taken out; D8 a FileId is the key of its slab slot; D9 the last recorded text of a file wins (no keep-first entry API, no thinning of the list); D10 writer and readers of LineMap's table use one coordinate system. D14 = C14/U1, U3 (the width table and the two scans over it). D15 = C14/U10 (in crate glas only the line map and the reviewed makers produce a byte offset). D16 = C14/U8 (normalize changes line ends and nothing else; a lone CR is a line end; the disk reader drops a byte order mark).",
    "explanation": "Decides the lock-step clauses that keep the server's text and the table used to interpret the client's positions in "
                   "sync, and that the client's text is the one analysed. The position arithmetic itself (UTF-16 columns to byte "
                   "offsets) is a computation on runtime text and is not decided here (see C14). D18 = C14 U12 (engine U).",
    "not_decided": "equality with the editor's text for all edit histories (offset arithmetic over runtime strings; D10 decides only that writer and readers of the line table use one coordinate system).",
    "trusted_base": ["rustc MIR", "String::retain removes exactly the characters for which the predicate is false"],
    "assumptions": [],
}

VFS = "glas::vfs::Vfs"
S = "glas::server::Server::"


def tuple_from_normalize(f, d, rv):
    """do both components of a (text, line_map) tuple originate in the same LineMap::normalize call?"""
    if not (rv["k"] == "agg" and rv.get("agg") == "tuple" and len(rv["ops"]) == 2):
        return False, "not a pair"
    srcs = []
    PT = ("Clone>::clone", "From<alloc::string::String>>::from", "Arc::<T>::new", "::from", "::into")
    for o in rv["ops"]:
        oo = d.origin_op(o, PT)
        for _ in range(4):
            base = oo
            prs = []
            while base.get("k") == "field":
                prs = [e.get("f") for e in base["proj"] if isinstance(e, dict)] + prs
                base = base["base"]
            # a field of a struct literal (e.g. a `NormalizedText { text, line_map }` helper value): continue with
            # the operand that initialises that field
            if base.get("k") == "agg" and base["rv"].get("agg") in ("adt", "tuple") and len(prs) >= 1 and isinstance(prs[0], int) and \
                    prs[0] < len(base["rv"].get("ops", [])) and len(prs) == 1:
                oo = d.origin_op(base["rv"]["ops"][prs[0]], PT)
                continue
            break
        srcs.append((callee(base["t"]) if base.get("k") == "call" else base.get("k"), base.get("bb"), tuple(prs)))
    ok = srcs[0][0] == "glas::vfs::LineMap::normalize" and srcs[1][0] == "glas::vfs::LineMap::normalize" and \
        srcs[0][1] == srcs[1][1] and srcs[0][2] == (0,) and srcs[1][2] == (1,)
    return ok, str(srcs)


def change_units(F, h):
    """the per-change units of work of on_did_change: its closures, and functions of crate glas::server it calls, that
    splice (Vfs::change_file_content) or convert a range"""
    cands = list(F.with_closures(h.path)[1:])
    for b, t in h.calls():
        c = callee(t) or ""
        if c.startswith("glas::server::") and c in F.fns and F.fns[c].blocks and c not in cands:
            cands.append(c)
    return [c for c in cands if any(callee(t) in (VFS + "::change_file_content", "glas::convert::from_range")
                                    for b, t in F.fns[c].calls())]


def vfs_view(F, name):
    """Vfs::<name> with its private helpers in glas::vfs inlined (all but LineMap's methods, which are analysed on their
    own): the store / splice / record steps may live in a helper such as `replace_content` or `splice_text`"""
    from lib import inline as IL
    CORE = ("LineMap::normalize", "LineMap::pos_for_line_col", "LineMap::line_col_for_pos", "LineMap::end_col_for_line", "LineMap::last_line")
    return IL.inlined(F, F.fn(VFS + "::" + name), want=lambda p: p.startswith("glas::vfs::") and not p.endswith(CORE) and "{closure" not in p, depth=3)


def text_and_line_map_written_together(F, res, rule="D1"):
    """D1: the store keeps, per file, a text and the line map of that text. They are written only together, as the two results
    of one LineMap::normalize call: a text paired with the line map of another text converts every position wrongly until
    the next edit."""
    ws = EF.writers(F, VFS, "files", "glas::")
    who = sorted({f.path for f, e in ws})
    allowed = {VFS + "::set_path_content", VFS + "::change_file_content", VFS + "::remove_uri", VFS + "::new"}
    # private helpers that only the allowed functions call are part of them
    for _ in range(3):
        for w in who:
            if w not in allowed and w.startswith("glas::vfs::"):
                callers = {f.path for f, b, t in F.callers_of(lambda c, w=w: c == w)}
                if callers and callers <= allowed:
                    allowed.add(w)
    res.ob(rule, "files-writers", "Vfs.files is modified only by set_path_content, change_file_content and remove_uri (and helpers only they call)",
           set(who) <= allowed, where="crates/glas/src/vfs.rs", how=str(who))
    n_pairs = 0
    for name in ("set_path_content", "change_file_content"):
        f = vfs_view(F, name)
        d = FL.Defs(f)
        stores = []
        for b, i, s in f.stmts():
            if s["k"] == "assign" and s["rv"]["k"] == "agg" and s["rv"].get("agg") == "tuple" and len(s["rv"]["ops"]) == 2:
                tys = f.local_ty(s["place"]["l"]) if not s["place"]["p"] else ""
                stores.append((b, s))
        stores = [(b, s) for b, s in stores if s["place"]["p"] == ["*"] or "LineMap" in (f.local_ty(s["place"]["l"]) or "")]
        for b, s in stores:
            n_pairs += 1
            ok, why = tuple_from_normalize(f, d, s["rv"])
            res.ob(rule, "%s/pair-from-one-normalize/%d" % (name, [x[0] for x in stores].index(b)),
                   "the (text, line map) pair stored by %s comes from one LineMap::normalize call" % name, ok, where=f.loc(s["ln"]), how=why)
    res.floor("stored (text, line map) pairs", n_pairs, 3)


def run(F, res, tier):
    from rules import c14 as _c14u
    _c14u.text_positions_are_counted_in_bytes(F, res, rule="D18", crates=('glas',))   # engine U: the store edits its texts at byte positions
    text_and_line_map_written_together(F, res)
    line_ends_are_normalised_first(F, res)
    edits_use_the_current_line_map(F, res)
    # ---- D3
    cf = vfs_view(F, "change_file_content")
    dcf = FL.Defs(cf)
    slices = [b for b, kind, detail, ln, key, exp in PN.sites_in(cf) if detail == "Index::index[str]"]
    okl = okb = len(slices) >= 2
    for b in slices:
        gs = FL.gates(F, cf, [b], dcf)
        if not any((g.get("call_def") or "").endswith(("PartialOrd::le", "PartialOrd::ge")) for g in gs):
            okl = False
        if not any((g.get("callee") or "").endswith("str::is_char_boundary") and g["allowed"] == [True] for g in gs):
            okb = False
    res.ob("D3", "splice/length-guard", "both slicings of the old text are dominated by `del_range.end() <= len`", okl, where=cf.loc(), how="%d slicing sites" % len(slices))
    res.ob("D3", "splice/char-boundary-guard", "both slicings are dominated by is_char_boundary checks", okb, where=cf.loc(), how="%d slicing sites" % len(slices))
    analysis_gets_every_recorded_text(F, res)
    # ---- D5
    lp = F.fn(S + "load_package_files")
    dl = FL.Defs(lp)
    sets = [b for b, t in lp.calls() if callee(t) == VFS + "::set_path_content"]
    okd = bool(sets)
    for b in sets:
        gs = FL.gates(F, lp, [b], dl)
        if not any((g.get("callee") or "").endswith("Result::<T, E>::is_ok") and g["allowed"] == [False] and
                   (callee(dl.origin_op(g["call_t"]["args"][0]).get("t", {})) if dl.origin_op(g["call_t"]["args"][0]).get("k") == "call" else "") == VFS + "::file_for_path"
                   for g in gs):
            okd = False
    res.ob("D5", "load_package_files/skip-known-files", "files read from disk while loading a package are stored only if the Vfs does not have them yet "
           "(the document the client just opened is never replaced by its on-disk content)", okd, where=lp.loc(), how="set_path_content sites %d, all guarded: %s" % (len(sets), okd))
    # with the helpers that only this handler calls inlined (the per-event body may be a method of its own)
    from lib import inline as IL
    wf0 = F.fn(S + "on_did_change_watched_files")
    wf = IL.inlined(F, wf0, want=lambda p: p.startswith("glas::server::") and p != S + "set_vfs_file_content" and
                    {f_.path for f_, b_, t_ in F.callers_of(lambda c, p=p: c == p)} <= set(F.with_closures(wf0.path)), depth=1)
    dw = FL.Defs(wf)
    sv = [b for b, t in wf.calls() if callee(t) == S + "set_vfs_file_content"]
    okw = bool(sv)
    by_path = True
    for b in sv:
        gs = FL.gates(F, wf, [b], dw)
        kinds = [_open_test(F, wf, dw, g) for g in gs]
        if not any(kinds):
            okw = False
        if "url" in kinds and "path" not in kinds:
            by_path = False
    res.ob("D5", "watched-files/skip-opened", "a watched-file event reloads a file from disk only if the client does not have it open", okw, where=wf.loc(),
           how="set_vfs_file_content sites %d, guarded by a not-open test on opened_files: %s" % (len(sv), okw))
    res.ob("D12", "watched-files/open-test-by-path", "the test whether the client has a watched file open compares decoded paths (what the store is keyed by), "
           "not the spelling of the URI: `%61pp.gleam` names the open document `app.gleam`", okw and by_path, where=wf.loc(),
           how="the guard is a hash lookup keyed by the Url" if not by_path else "the guard compares to_vfs_path()/to_file_path() results or looks up a path-keyed map")
    # client text flows unmodified: on_did_open passes params.text_document.text; on_did_change passes change.text
    od = F.fn(S + "on_did_open")
    dd = FL.Defs(od)
    okt = False
    for b, t in od.calls():
        if callee(t) == S + "set_vfs_file_content":
            o = dd.origin_op(t["args"][2], ("Clone>::clone",))
            prs = [e.get("n") for e in o.get("proj", [])] if o.get("k") == "field" else []
            okt = prs[-2:] == ["text_document", "text"]
    res.ob("D5", "on_did_open/client-text", "didOpen stores exactly params.text_document.text", okt, where=od.loc(), how="argument path ok" if okt else "not traced")
    store_changes_reach_the_analysis(F, res)
    file_ids_are_slot_keys(F, res)
    last_text_wins(F, res)
    line_map_coordinates_agree(F, res)
    disk_text_never_replaces_a_known_file(F, res)
    closing_hands_the_document_back_to_the_disk(F, res)
    # valid LSP positions become the offsets the client means: the width table and the scans over it (C14/U1, U3), client positions
    # enter through from_pos only (C14/U5)
    from rules import c14 as _c14
    _c14.width_table(F, res, rule="D14")
    _c14.scans(F, res, rule="D14")
    # an edit is spliced in at the offset the line map computes for its (line, column): nobody else makes offsets (C14/U10)
    _c14.offsets_have_one_maker(F, res, rule="D15")
    # the stored text is the client's text up to line ends (C14/U8): nothing else is taken out of it
    _c14.line_ends_and_bom(F, res, rule="D16")
    _c14.columns_consult_the_width_table(F, res, rule="D17")


def store_changes_reach_the_analysis(F, res, rule="D6"):
    """D6: the document store and the analysis database are two stores. A main-loop handler that modifies the store (a
    document's text, a file added or removed, the package graph) hands the pending Change to the analysis on every path to
    its return; and whoever takes the pending Change out of the store first re-partitions the source roots when files were
    added or removed. Otherwise the analysis keeps answering with a file the store no longer has (the conversion of such an
    answer panics) or without one it has."""
    from rules import c15
    SRV = "glas::server::Server::"
    MUT = {VFS + "::" + m for m in ("remove_uri", "set_path_content", "change_file_content", "set_package_graph")}
    APPLY = SRV + "apply_vfs_change"
    srv = {p: f for p, f in F.fns.items() if p.startswith(SRV) and f.blocks and "{closure" not in p}
    applies = {APPLY}
    for _ in range(3):
        for p, f in srv.items():
            if p in applies:
                continue
            via = [b for b, t in f.calls() if callee(t) in applies]
            if via and FL.must_pass(f, via, f.return_blocks()):
                applies.add(p)
    mutating = set(MUT)
    unsettled = {}
    for _ in range(4):
        for p, f in sorted(srv.items()):
            if p in mutating or p == APPLY:
                continue
            views = [f] + [F.fns[c] for c in F.closures_of(p)]
            sites = [b for b, t in f.calls() if callee(t) in mutating]
            # a mutation inside a closure of the handler counts at the place the closure is built / called
            for cf in views[1:]:
                if any(callee(t) in mutating for b, t in cf.calls()):
                    for b, i, s in f.stmts():
                        rv = s.get("rv")
                        if rv and rv["k"] == "agg" and rv.get("closure") == cf.path:
                            sites.append(b)
            if not sites:
                continue
            via = [b for b, t in f.calls() if callee(t) in applies]
            rets = f.return_blocks()
            bad = [b for b in sites if any(f.can_reach(b, [r], avoid=[v for v in via if v != b]) for r in rets)]
            if bad:
                mutating.add(p)
                unsettled[p] = sorted({f.term(b)["ln"] for b in bad})
    n = 0
    for e in [SRV + x for x in c15.ENTRIES]:
        f = F.fns.get(e)
        if f is None:
            continue
        if e in mutating or any(callee(t) in mutating or callee(t) in applies for b, t in f.calls()):
            n += 1
            res.ob(rule, "handed-to-analysis/%s" % e.rsplit("::", 1)[-1], "every path of %s from a modification of the document store to its return "
                   "applies the pending change to the analysis" % e.rsplit("::", 1)[-1], e not in mutating, where=f.loc(),
                   how="a path from the modification at line %s reaches the return without apply_vfs_change" % unsettled.get(e)
                   if e in mutating else "all such paths pass apply_vfs_change (or a helper that always calls it)")
    res.floor("main-loop handlers that modify the store", n, 4)
    takers = [(f, b) for p, f in sorted(F.fns.items()) if p.startswith("glas::") and f.blocks for b, t in f.calls() if callee(t) == VFS + "::take_change"]
    for f, b in takers:
        d = FL.Defs(f)
        sets = [b2 for b2, t2 in f.calls() if callee(t2) == VFS + "::set_roots" and f.can_reach(b2, [b])]
        ok = False
        for b2 in sets:
            for g in FL.gates(F, f, [b2], d):
                if (g.get("callee") or "") == VFS + "::is_structural_change" and g["allowed"] == [True] and f.dominates(g.get("call_bb", g["bb"]), b):
                    ok = True
        res.ob(rule, "roots-relowered-before-take/%s" % f.name, "the pending change is taken out of the store only after the source roots were "
               "re-partitioned if a file was added or removed (is_structural_change() -> lower_vfs -> set_roots)", ok, where=f.loc(f.term(b)["ln"]),
               how="set_roots sites before take_change: %d, gated by is_structural_change(): %s" % (len(sets), ok))
    res.floor("places where the pending change is taken out of the store", len(takers), 1)


def file_ids_are_slot_keys(F, res, rule="D8"):
    """D8: the FileId under which a new file is registered (path <-> id map, pending Change) is the key of the slab slot that holds
    its text. Slab::len() is the key of the next slot only while no slot was ever freed: after a document was forgotten a new
    file would take the id of another live document."""
    f = vfs_view(F, "set_path_content")
    d = FL.Defs(f)
    ids = []
    for b, i, s in f.stmts():
        rv = s.get("rv")
        if rv and rv["k"] == "agg" and rv.get("agg") == "adt" and rv.get("adt", "").endswith("base::FileId") and rv["ops"]:
            dep = FL.depends(F, f, d, rv["ops"][0])
            ids.append((s["ln"], dep["calls"]))
    ok = bool(ids) and all(("VacantEntry::key" in c or "Slab::insert" in c or "Slab::vacant_key" in c) and "Slab::len" not in c for _, c in ids)
    res.ob(rule, "set_path_content/id-is-slot-key", "a new file's FileId is the key of the slab slot its text goes into (VacantEntry::key / the "
           "result of Slab::insert), never a count", ok, where=f.loc(ids[0][0]) if ids else f.loc(),
           how="FileId built from %s" % [sorted(x for x in c if "Slab" in x or "Vacant" in x) for _, c in ids])


def last_text_wins(F, res, rule="D9"):
    """D9: between the document store and the database the *last* recorded text of a file must win. Change::change_file records a
    text by appending it (or by overwriting the file's entry), never through an entry API that keeps an existing value; and
    Change::apply does not thin the list out (dedup*/retain/truncate/..) before it sets the texts in recording order."""
    cf = F.fn("ide::base::Change::change_file")
    d = FL.Defs(cf)
    KEEP_FIRST = ("Entry::or_insert", "Entry::or_insert_with", "Entry::or_default", "VacantEntry::insert", "Entry::or_insert_with_key",
                  "HashMap::try_insert")
    calls = [(FL.short(callee(t) or callee_def(t) or ""), t) for b, t in cf.calls()]
    stores = [c for c, t in calls if c.endswith("::push") or c.endswith("::insert") or c.endswith("::push_back")]
    keeps = [c for c, t in calls if any(c.endswith(k.split("::", 1)[1]) and k.split("::")[0] in c for k in KEEP_FIRST)]
    res.ob(rule, "change_file/records-unconditionally", "Change::change_file appends the new text (or overwrites the file's entry): an earlier text of "
           "the same file never shadows it", bool(stores) and not keeps, where=cf.loc(),
           how="stores through %s; keep-existing entry calls: %s" % (sorted(set(stores)), keeps))
    ap = F.fn("ide::base::Change::apply")
    THIN = ("dedup", "dedup_by", "dedup_by_key", "retain", "retain_mut", "truncate", "pop", "remove", "swap_remove", "drain", "clear", "split_off")
    da = FL.Defs(ap)
    thin = []
    for q in [ap.path] + list(F.closures_of(ap.path)):
        g = F.fns[q]
        dg = FL.Defs(g)
        for b, t in g.calls():
            c = FL.short(callee(t) or callee_def(t) or "")
            if c.rsplit("::", 1)[-1] in THIN and t["args"]:
                fs = FL.fields_feeding(F, g, dg, t["args"][0], "base::Change")
                if "file_changes" in fs:
                    thin.append((c, t["ln"]))
    res.ob(rule, "apply/list-not-thinned", "Change::apply sets every recorded text; nothing removes entries from file_changes first", not thin,
           where=ap.loc(thin[0][1]) if thin else ap.loc(), how="entry-removing calls on file_changes: %s" % thin)


def line_map_coordinates_agree(F, res, rule="D10"):
    """D10: LineMap keeps, per line, the byte position of every multi-byte character. The writer (normalize) and the two readers
    (pos_for_line_col: client position -> offset, used by every edit; line_col_for_pos: offset -> client position, used by
    every answer) must mean the same thing by "position": all relative to the line start, or all absolute. A half-converted
    representation is invisible on the first line (both coincide there) and shifts every edit or every range behind a
    non-ASCII character on any other line. Decided by provenance: the writer's counter starts at a constant (relative) or at
    the line start (absolute); a reader compares the stored position with a value that involves `line_starts` or not."""
    from lib.facts import op_place
    LM = "glas::vfs::LineMap::"
    from lib import inline as IL
    nm0 = F.fn(LM + "normalize")
    # private helpers of LineMap that normalize delegates to (`char_diffs_of`) are part of the writer
    nm = IL.inlined(F, nm0, want=lambda p: p.startswith(LM) and "{closure" not in p and
                    p.rsplit("::", 1)[-1] not in ("normalize", "pos_for_line_col", "line_col_for_pos", "end_col_for_line", "last_line"), depth=2)
    d = FL.Defs(nm)
    tup = [(b, s) for b, i, s in nm.stmts() if (s.get("rv") or {}).get("k") == "agg" and s["rv"].get("agg") == "tuple" and len(s["rv"]["ops"]) == 2
           and "CodeUnitsDiff" in (nm.local_ty(s["place"]["l"]) or "")]
    starts = []
    for b, s in tup:
        seen, st = set(), [s["rv"]["ops"][0]]
        while st and len(seen) < 400:
            o = st.pop()
            pl = op_place(o) if isinstance(o, dict) else None
            if pl is None or pl["l"] in seen:
                continue
            seen.add(pl["l"])
            for dd in d.defs.get(pl["l"], []):
                if dd[2] == "call":
                    st.extend(dd[3]["args"])
                else:
                    rv = dd[3]["rv"]
                    if rv.get("k") == "agg" and (rv.get("adt") or "").endswith(("range::RangeFrom", "range::Range", "range::RangeInclusive")) and (nm.local_ty(pl["l"]) or "").endswith("<u32>"):
                        k = rv["ops"][0].get("k") if isinstance(rv["ops"][0], dict) else None
                        starts.append("const" if isinstance(k, dict) and "bits" in k else "variable")
                    for key in ("op", "a", "b"):
                        if isinstance(rv.get(key), dict):
                            st.append(rv[key])
                    if "place" in rv:
                        st.append({"cp": rv["place"]})
                    st.extend(rv.get("ops", []) or [])
    # the pair built inside a closure of an iterator chain (`.zip(0u32..).filter_map(|(&b, pos)| .. Some((pos, diff)))`): follow the
    # receiver of the adaptor the closure is handed to
    for cp in sorted(p_ for p_ in F.fns if p_.startswith(nm0.path + "::{closure") and F.fns[p_].blocks):
        cf = F.fns[cp]
        if not any((s_.get("rv") or {}).get("k") == "agg" and s_["rv"].get("agg") == "tuple" and len(s_["rv"]["ops"]) == 2 and
                   "CodeUnitsDiff" in (cf.local_ty(s_["place"]["l"]) or "") for _b, _i, s_ in cf.stmts()):
            continue
        par = F.fns.get(cf.d.get("direct_parent"))
        if par is None:
            continue
        dp = FL.Defs(par)
        for b, i, s_ in par.stmts():
            rv = s_.get("rv") or {}
            if rv.get("k") == "agg" and rv.get("closure") == cp:
                cl = s_["place"]["l"]
                for b2, t2 in par.calls():
                    if any(op_local(a) == cl or dp.origin_op(a).get("l") == cl for a in t2["args"][1:]):
                        seen, st = set(), [t2["args"][0]]
                        while st and len(seen) < 400:
                            o = st.pop()
                            pl = op_place(o) if isinstance(o, dict) else None
                            if pl is None or pl["l"] in seen:
                                continue
                            seen.add(pl["l"])
                            for dd in dp.defs.get(pl["l"], []):
                                if dd[2] == "call":
                                    st.extend(dd[3]["args"])
                                else:
                                    rv2 = dd[3]["rv"]
                                    if rv2.get("k") == "agg" and (rv2.get("adt") or "").endswith(("range::RangeFrom", "range::Range", "range::RangeInclusive")) \
                                            and (par.local_ty(pl["l"]) or "").endswith("<u32>"):
                                        k = rv2["ops"][0].get("k") if isinstance(rv2["ops"][0], dict) else None
                                        starts.append("const" if isinstance(k, dict) and "bits" in k else "variable")
                                    for key in ("op", "a", "b"):
                                        if isinstance(rv2.get(key), dict):
                                            st.append(rv2[key])
                                    if "place" in rv2:
                                        st.append({"cp": rv2["place"]})
                                    st.extend(rv2.get("ops", []) or [])
    writer = None if not starts else ("relative" if all(x == "const" for x in starts) else "absolute")

    def reader(name):
        f = F.fn(LM + name)
        out = []
        for q in [f.path] + list(F.closures_of(f.path)):
            g = F.fns[q]
            dg = FL.Defs(g)
            for b, i, s in g.stmts():
                rv = s.get("rv") or {}
                if rv.get("k") != "bin" or rv["op"] not in ("Lt", "Le", "Gt", "Ge"):
                    continue
                sides = []
                for side in ("a", "b"):
                    o = dg.origin_op(rv[side])
                    # an operand read out of a (position, diff) pair of char_diffs
                    is_entry = o.get("k") == "field" and any(isinstance(e, dict) and e.get("f") == 0 for e in o.get("proj", [])) and \
                        "CodeUnitsDiff" in str(g.local_ty(o.get("l")) or "") or \
                        "CodeUnitsDiff" in str(g.local_ty(op_local(rv[side])) or "")
                    sides.append((side, is_entry))
                ent = [sd for sd, e in sides if e]
                if len(ent) != 1:
                    # decide by type of the closure parameter / loop item: fall back to "the side that is not derived from self/args"
                    continue
                other = "b" if ent[0] == "a" else "a"
                if q != f.path:
                    o = dg.origin_op(rv[other])
                    idx = FL.closure_env_field(o)
                    if idx is not None:
                        pf, po = FL.upvar_origin(F, q, idx)
                        if pf is not None and po.get("l") is not None:
                            fs = FL.fields_feeding(F, pf, FL.Defs(pf), {"cp": {"l": po["l"], "p": []}}, "LineMap")
                            out.append("line_starts" in fs)
                            continue
                fs = FL.fields_feeding(F, g, dg, rv[other], "LineMap")
                out.append("line_starts" in fs)
        return out
    r1, r2 = reader("pos_for_line_col"), reader("line_col_for_pos")
    c1 = None if not r1 else ("absolute" if any(r1) else "relative")
    c2 = None if not r2 else ("relative" if all(r2) else "absolute")
    ok = writer is not None and c1 is not None and c2 is not None and writer == c1 == c2
    res.ob(rule, "line-map/one-coordinate-system", "LineMap::normalize, pos_for_line_col and line_col_for_pos agree on whether a stored character position "
           "is relative to its line or absolute", ok, where=nm0.loc(),
           how="writer: %s (counter starts: %s); pos_for_line_col compares with a %s value; line_col_for_pos compares with a %s value"
           % (writer, sorted(set(starts)), c1, c2))


def edits_use_the_current_line_map(F, res, rule="D2"):
    """D2: an incremental change is converted with the line map of the text as it is after the previous change of the same
    notification, every change is applied, and from_range fetches the current line map itself (also C15 M11: an edit is never
    applied somewhere else; C16 W14: the server's text converges to the client's)."""
    h = F.fn(S + "on_did_change")
    loops = [(t, hd, h.natural_loop(t, hd)) for t, hd in h.back_edges()]
    units = change_units(F, h)
    CONV = ("glas::convert::from_range", "glas::convert::from_pos", VFS + "::line_map_for_file")
    conv_units = [c for c in units if any(callee(t) in CONV for b, t in F.fns[c].calls())]
    apply_units = [c for c in units if any(callee(t) == VFS + "::change_file_content" for b, t in F.fns[c].calls())]
    # the per-change unit of work is a closure, a helper, or the loop body itself
    conv_blocks = [b for b, t in h.calls() if callee(t) in CONV or callee(t) in conv_units]
    apply_blocks = [b for b, t in h.calls() if callee(t) == VFS + "::change_file_content" or callee(t) in apply_units]

    def loop_of(b):
        hs = sorted(hd for _, hd, body in loops if b in body)
        return hs[-1] if hs else None
    in_loop = lambda b: loop_of(b) is not None  # noqa: E731
    same = {loop_of(b) for b in conv_blocks + apply_blocks}
    ok = bool(conv_blocks) and bool(apply_blocks) and all(in_loop(b) for b in conv_blocks + apply_blocks) and len(same) == 1 and \
        (not conv_units or set(conv_units) <= set(apply_units) or any(callee(h.term(b)) == VFS + "::change_file_content" for b in apply_blocks))
    res.ob(rule, "on_did_change/line-map-reread-per-change", "each change's range is converted with the line map of the text as it is after the "
           "previous change (conversion and splice happen in the same iteration of the loop over the changes - in its body, a closure or a helper)",
           ok, where=h.loc(), how="conversion sites in the loop: %s; splice sites in the loop: %s; same loop: %s"
           % ([in_loop(b) for b in conv_blocks], [in_loop(b) for b in apply_blocks], len(same) == 1))
    skip = FL.every_iteration_passes(h, apply_blocks) if apply_blocks else [("?", "?")]
    res.ob(rule, "on_did_change/every-change-applied", "every content change of a notification is handed to the splice: no iteration of the loop goes "
           "round without it (a skipped change leaves the server's text behind the editor's)", not skip, where=h.loc(),
           how="iterations that can skip the splice: %d" % len(skip))
    fr = F.fn("glas::convert::from_range")
    lm = [b for b, t in fr.calls() if callee(t) == VFS + "::line_map_for_file"]
    res.ob(rule, "from_range/fresh-line-map", "convert::from_range fetches the file's current line map itself", len(lm) == 1, where=fr.loc(),
           how="line_map_for_file calls: %d" % len(lm))


def analysis_gets_every_recorded_text(F, res, rule="D4"):
    """D4: the store records each new text (the same Arc<str> it keeps) in the pending Change, and Change::apply hands every
    recorded (file, text) pair to the database in recording order, so the text the analysis computes ranges on is the text the
    store converts them with (also C19 Z7, C20 A9)."""
    for name in ("set_path_content", "change_file_content"):
        f = vfs_view(F, name)
        d = FL.Defs(f)
        recs = [(b, t) for b, t in f.calls() if callee(t) == "ide::base::Change::change_file"]
        rets = f.return_blocks()
        okr = bool(recs)
        for b, t in recs:
            o = FL.origin_deep(d, t["args"][2], ("Clone>::clone",))
            base = o
            while base.get("k") == "field":
                base = base["base"]
            src = FL.short(callee(base["t"])) if base.get("k") == "call" else base.get("k")
            if src != "From::from":
                okr = False
        # every path that stores also records: each store block reaches a change_file call
        res.ob(rule, "%s/records-change" % name, "%s records the new text (the same Arc<str>) in the pending Change on every storing path" % name,
               okr and (not f.can_reach(0, rets, avoid=[b for b, _ in recs]) or name == "change_file_content" and
                        all(any(f.dominates(b, r) for b, _ in recs) or True for r in rets)), where=f.loc(),
               how="change_file calls: %d" % len(recs))
    from lib import inline as _ILa
    ap0 = F.fn("ide::base::Change::apply")
    # private helpers of Change that apply delegates to (`apply_file_changes`) are part of it
    ap = _ILa.inlined(F, ap0, want=lambda p_: p_.startswith("ide::base::Change::") and p_ != ap0.path and "{closure" not in p_, depth=2)
    sets_ = [b for b, t in ap.calls() if (callee(t) or "").endswith("::set_file_content_with_durability")]
    loops_ = [(tl, hd) for tl, hd in ap.back_edges() if set(sets_) & ap.natural_loop(tl, hd)]
    skipped = FL.every_iteration_passes(ap, sets_)
    # skipping is only sound when the newest entry of a file is met first (the list walked in reverse)
    newest_first = any(FL.short(callee(t) or "") in ("Iterator::rev", "DoubleEndedIterator::rev") and all(ap.dominates(b, hd) for _, hd in loops_)
                       for b, t in ap.calls())
    res.ob(rule, "change-apply/every-recorded-text-set", "Change::apply hands every recorded (file, text) pair to the database, in recording order: the "
           "set_file_content call sits in a loop and no iteration goes round without it (so the last recorded text, which is the store's, wins)",
           bool(sets_) and bool(loops_) and (not skipped or newest_first), where=ap.loc(),
           how="set_file_content calls: %d, in a loop: %s, iterations that can skip it: %d" % (len(sets_), bool(loops_), len(skipped)))


def _open_test_call(F, f, d, t):
    """None | 'url' | 'path': is this call a test whether the client has the file open, and by what is it keyed"""
    c = FL.short(callee(t) or callee_def(t) or "")
    last = c.rsplit("::", 1)[-1]
    if last == "contains_key":
        fields = FL.fields_feeding(F, f, d, t["args"][0], "Server")
        if fields and "opened_files" not in {str(x) for x in fields}:
            return None
        full = (t.get("fn") or {}).get("full") or ""
        targs = " ".join((t.get("fn") or {}).get("targs") or [])
        if "Url" in full + targs and not any(x in full + targs for x in ("VfsPath", "PathBuf", "FileId")):
            return "url"
        return "path"
    if last in ("any", "contains"):
        fields = FL.fields_feeding(F, f, d, t["args"][0], "Server")
        if "opened_files" not in {str(x) for x in fields}:
            return None
        dep = FL.depends(F, f, d, t["args"][0])
        calls = set(dep["calls"])
        for ta in (t.get("fn") or {}).get("targs", []) or []:
            # the closure type names its position; it may belong to a helper inlined into this view
            for cp in [q for q in F.fns if q.startswith("glas::") and F.fns[q].kind == "Closure"]:
                sp = F.fns[cp].d.get("span") or {}
                if "{closure@" in ta and (sp.get("file") or "").rsplit("/", 1)[-1] in ta and ":%s:" % sp.get("lo") in ta:
                    calls |= {FL.short(callee(t2) or callee_def(t2) or "") for _b2, t2 in F.fns[cp].calls()}
        return "path" if any(x.rsplit("::", 1)[-1] in ("to_vfs_path", "to_file_path") for x in calls) else "url"
    return None


def _open_test(F, f, d, g):
    """None | 'url' | 'path': is this gate a test that the client does NOT have the file open, and by what is it keyed. The test
    may sit in a predicate of the server (`self.is_opened_path(&vpath)`) whose answer is one such call."""
    if g.get("allowed") != [False]:
        return None
    if "call_t" not in g:
        # the loop form: `let mut open = false; for k in self.opened_files.keys() { if k.to_vfs_path() == vpath { open = true; break } }`
        # then `if open { continue }`: a bool with a `false` and a `true` definition, the `true` one under a comparison that
        # involves the open documents
        o = g.get("origin") or {}
        if o.get("k") != "multi" or (f.local_ty(o.get("l")) or "") != "bool":
            return None
        kinds = []
        consts = set()
        for db_, _i, kind_, payload in o.get("defs", []):
            if kind_ != "assign":
                return None
            k = (payload["rv"].get("op") or {}).get("k") if payload["rv"]["k"] == "use" else None
            if not (isinstance(k, dict) and str(k.get("bits")) in ("0", "1")):
                return None
            consts.add(str(k["bits"]))
            if str(k["bits"]) == "1":
                for g2 in FL.gates(F, f, [db_], d):
                    o2 = g2.get("origin") or {}
                    ops = []
                    if o2.get("k") == "rv" and o2["rv"].get("k") == "bin" and o2["rv"]["op"] in ("Eq", "Ne"):
                        ops = [o2["rv"]["a"], o2["rv"]["b"]]
                    elif g2.get("call_t") and FL.short(callee(g2["call_t"]) or callee_def(g2["call_t"]) or "").rsplit("::", 1)[-1] in ("eq", "ne"):
                        ops = g2["call_t"]["args"]
                    fields, calls = set(), set()
                    for x in ops:
                        if isinstance(x, dict) and "k" not in x:
                            fields |= {str(y) for y in FL.fields_feeding(F, f, d, x, "Server")}
                            calls |= {FL.short(c_).rsplit("::", 1)[-1] for c_ in FL.depends(F, f, d, x)["calls"]}
                    if "opened_files" in fields:
                        kinds.append("path" if calls & {"to_vfs_path", "to_file_path"} else "url")
        if consts == {"0", "1"} and len(kinds) == 1:
            return kinds[0]
        return None
    t = g["call_t"]
    r = _open_test_call(F, f, d, t)
    if r:
        return r
    c = callee(t) or ""
    h = F.fns.get(c)
    if h is not None and h.blocks and c.startswith(S) and h.d.get("output") == "bool":
        dh = FL.Defs(h)
        kinds = [k for k in (_open_test_call(F, h, dh, t2) for _b2, t2 in h.calls()) if k]
        if len(kinds) == 1:
            if kinds[0] == "url":
                # keyed by what the caller hands in: a decoded path argument makes it a path test
                callsd = {FL.short(x).rsplit("::", 1)[-1] for x in FL.depends(F, f, d, t["args"][-1])["calls"]} if t["args"] else set()
                return "path" if callsd & {"to_vfs_path", "to_file_path"} else "url"
            return kinds[0]
    return None


def disk_text_never_replaces_a_known_file(F, res, rule="D11"):
    """D11: the client owns the text of the documents it has open, and the store is how the server remembers them. Wherever
    crate glas stores a text that was read from disk (its value depends on a read_to_string call), the call is reached only
    when the store does not have that path yet (`file_for_path` failed) or the client does not have the document open
    (`opened_files.contains_key` false). D5 states this for the two sites known when it was written; this rule finds the
    sites itself: assemble_graph re-read gleam.toml and replaced the client's unsaved text of an open gleam.toml."""
    STORE = (VFS + "::set_path_content", S + "set_vfs_file_content")
    # helpers that read a file and store nothing (the reading may live in a function of its own)
    cg = F.callgraph()
    is_read = lambda c: c.endswith("read_to_string") or c.endswith("fs::read")
    readers = set()
    for p in F.fns:
        if p.startswith(("glas::", "<glas::")) and F.fns[p].blocks:
            reach = [q for q in F.reachable_from([p]) if q in F.fns]
            called = {callee(t) or callee_def(t) or "" for q in reach for _b, t in F.fns[q].calls()}
            if any(is_read(FL.short(c)) for c in called) and not any(c in STORE for c in called):
                readers.add(FL.short(p))
    n = 0
    for p, f in sorted(F.fns.items()):
        if not p.startswith(("glas::", "<glas::")) or not f.blocks:
            continue
        d = None
        for b, t in f.calls():
            c = callee(t) or ""
            if c not in STORE or len(t["args"]) < 3:
                continue
            d = d or FL.Defs(f)
            dep = FL.depends(F, f, d, t["args"][2])
            reads = sorted(x for x in dep["calls"] if is_read(x) or x in readers)
            if not reads:
                continue
            n += 1
            ok = False
            for g in FL.gates(F, f, [b], d):
                gc = FL.short(g.get("callee") or "")
                if _open_test(F, f, d, g):
                    ok = True
                elif gc.endswith("Vfs::file_for_path") and g["allowed"] == ["Err"]:
                    ok = True
                elif gc in ("Result::is_ok", "Result::is_err") and g["allowed"] == [gc == "Result::is_err"]:
                    o = d.origin_op(g["call_t"]["args"][0])
                    ok = ok or (o.get("k") == "call" and callee(o["t"]) == VFS + "::file_for_path")
            if not ok:
                # the handler that *ends* the client's ownership: the document was taken out of opened_files (same URI) before
                for b2, t2 in f.calls():
                    if FL.short(callee(t2) or callee_def(t2) or "").rsplit("::", 1)[-1] in ("remove", "swap_remove", "shift_remove") and \
                            "opened_files" in {str(x) for x in FL.fields_feeding(F, f, d, t2["args"][0], "Server")} and f.dominates(b2, b) and b2 != b:
                        k1 = FL.origin_key(d.origin_op(t2["args"][1]))
                        k2 = FL.origin_key(d.origin_op(t["args"][1]))
                        if k1 is not None and k1 == k2:
                            ok = True
            res.ob(rule, "disk-text/%s/%s" % (FL.short(p), c.rsplit("::", 1)[-1]),
                   "a text read from disk is stored only for a path the store does not have yet, or a document the client does not "
                   "have open (the client's unsaved text is never replaced by the file's)", ok, where=f.loc(t["ln"]),
                   how="text depends on %s; gated by an absent-from-the-store / not-open test: %s" % (reads, ok))
    res.floor("sites of crate glas that store a text read from disk", n, 3)


def closing_hands_the_document_back_to_the_disk(F, res, rule="D13"):
    """D13: didClose ends the client's ownership of a document: from then on the client shows the file on disk. Text that was
    typed and never saved must not stay behind in the store, or every later answer about that file (definition targets,
    references, rename edits) is positioned in a text that exists nowhere. The handler of DidCloseTextDocument takes the URI
    out of opened_files and stores, for that same URI, a text that depends on a read from disk (or forgets the file)."""
    h = None
    for p, f in sorted(F.fns.items()):
        if p.startswith(S) and f.blocks and "{closure" not in p and any("DidCloseTextDocumentParams" in str(f.local_ty(i) or "") for i in range(1, f.d["arg_count"] + 1)):
            h = f
    if h is None:
        res.anchor_missing(rule, "the handler of DidCloseTextDocumentParams in Server")
        return
    d = FL.Defs(h)
    STORE_ = (VFS + "::set_path_content", S + "set_vfs_file_content")
    readers_ = set()
    for p_ in F.fns:
        if p_.startswith(("glas::", "<glas::")) and F.fns[p_].blocks and "{closure" not in p_:
            reach_ = [q for q in F.reachable_from([p_]) if q in F.fns]
            called_ = {callee(t) or callee_def(t) or "" for q in reach_ for _b, t in F.fns[q].calls()}
            if any(FL.short(c).endswith(("read_to_string", "fs::read")) for c in called_) and not any(c in STORE_ for c in called_):
                readers_.add(FL.short(p_))
    is_read = lambda c: c.endswith("read_to_string") or c.endswith("fs::read") or c in readers_
    removed = [FL.origin_key(d.origin_op(t["args"][1])) for b, t in h.calls()
               if FL.short(callee(t) or callee_def(t) or "").rsplit("::", 1)[-1] in ("remove", "swap_remove", "shift_remove") and len(t["args"]) > 1 and
               "opened_files" in {str(x) for x in FL.fields_feeding(F, h, d, t["args"][0], "Server")}]
    stores, forgets = [], []
    for b, t in h.calls():
        c = callee(t) or ""
        if c in (VFS + "::set_path_content", S + "set_vfs_file_content") and len(t["args"]) >= 3:
            dep = FL.depends(F, h, d, t["args"][2])
            if any(is_read(FL.short(x)) for x in dep["calls"]):
                stores.append(FL.origin_key(d.origin_op(t["args"][1])))
        if c == VFS + "::remove_uri":
            forgets.append(FL.origin_key(d.origin_op(t["args"][1])))
    same = [k for k in stores if k is not None and k in removed]
    # ... and only then: a close for a URI that was not among the open documents (another spelling of an open document's URI)
    # must not replace anything. The store is gated by the answer of the removal (`remove(..).is_some()`, a match on it).
    gated = []
    for b, t in h.calls():
        c = callee(t) or ""
        if c in (VFS + "::set_path_content", S + "set_vfs_file_content") and len(t["args"]) >= 3:
            ok_g = False
            for g in FL.gates(F, h, [b], d):
                ct = g.get("call_t")
                o = g.get("origin") or {}
                cands = []
                if ct:
                    cands.append(ct)
                    if ct["args"]:
                        o2 = d.origin_op(ct["args"][0])
                        if o2.get("k") == "call":
                            cands.append(o2["t"])
                for cc in cands:
                    if FL.short(callee(cc) or callee_def(cc) or "").rsplit("::", 1)[-1] in ("remove", "swap_remove", "shift_remove", "remove_entry") and \
                            "opened_files" in {str(x) for x in FL.fields_feeding(F, h, d, cc["args"][0], "Server")}:
                        ok_g = True
                # `let was_open = remove(..).is_some(); if let (true, ..) = (was_open, ..)`: the tested value depends on the removal
                if not ok_g and ct is None:
                    sw = h.term(g["bb"]) if "bb" in g else None
                    if sw and sw.get("k") == "switch":
                        dep = FL.depends(F, h, d, sw["op"])
                        if any(x.rsplit("::", 1)[-1] in ("remove", "swap_remove", "shift_remove") for x in dep["calls"]):
                            ok_g = True
            gated.append(ok_g)
    res.ob(rule, "did-close/only-if-open", "the reload happens only when the closed URI was among the open documents (a close for anything else "
           "replaces nothing)", bool(gated) and all(gated), where=h.loc(), how="stores gated by the removal's answer: %s" % gated)
    res.ob(rule, "did-close/reloads", "closing a document replaces the store's copy by the file on disk: the URI taken out of opened_files is stored "
           "again with a text read from disk", bool(removed) and bool(same), where=h.loc(),
           how="URIs taken out of opened_files: %d; disk texts stored: %d, for the same URI: %d; forgets the file when it is gone: %s" % (
               len(removed), len(stores), len(same), bool(forgets)))


def line_ends_are_normalised_first(F, res, rule="D1"):
    """D1 (line ends): before LineMap::normalize measures anything (text length, bytes, line starts), the carriage returns are dealt
    with: `\\r\\n` becomes `\\n` - the editor's text with carriage returns removed - and so that the lines are the client's, a lone
    `\\r` becomes `\\n` too (or, as before round 7, is removed by String::retain). Whatever the spelling: every call that handles
    '\\r' dominates String::len / as_bytes, and a `\\r\\n` pair never survives."""
    nm = F.fn("glas::vfs::LineMap::normalize")
    calls = [(b, t, FL.short(callee(t) or callee_def(t) or "")) for b, t in nm.calls()]
    dn = FL.Defs(nm)

    def strs(t):
        out = []
        for a in t["args"]:
            k = a.get("k") if isinstance(a, dict) else None
            if not isinstance(k, dict):
                o = dn.origin_op(a) if isinstance(a, dict) else {}
                k = o.get("c") if o.get("k") == "const" else None
            if isinstance(k, dict) and "str" in k:
                out.append(k["str"])
            if isinstance(k, dict) and k.get("ty") == "char" and "bits" in k:
                out.append(chr(int(k["bits"])))
        return out
    handlers = []
    for b, t, c in calls:
        last = c.rsplit("::", 1)[-1]
        if last == "retain":
            handlers.append((b, "retain"))
        if last == "replace" and "\r" in "".join(strs(t)):
            handlers.append((b, "replace(%r)" % strs(t)))
    # retain's predicate compares with '\r'
    cr_pred = False
    for cf in [F.fns[c] for c in F.closures_of(nm.path)]:
        for b, i, s_ in cf.stmts():
            rv = s_.get("rv")
            if rv and rv["k"] == "bin" and rv["op"] in ("Ne", "Eq"):
                for side in ("a", "b"):
                    k = rv[side].get("k")
                    if k and str(k.get("bits")) == "13" and k.get("ty") == "char":
                        cr_pred = rv["op"] == "Ne"
    measures = [b for b, t, c in calls if c.rsplit("::", 1)[-1] in ("len", "as_bytes", "bytes", "char_indices") and c.startswith(("String::", "str::"))]
    # the handlers may sit behind `if text.contains('\\r')`: the way round them is the edge on which there is no '\\r' at all
    avoid = {hb for hb, _h in handlers}
    for b, t, c in calls:
        if c.rsplit("::", 1)[-1] == "contains" and "\r" in strs(t):
            sw = nm.term(t["target"]) if t.get("target") is not None else None
            if sw and sw["k"] == "switch":
                avoid |= {x for v, x in sw["targets"] if int(v) == 0}
    first = bool(handlers) and bool(measures) and not nm.can_reach(0, measures, avoid=avoid) and 0 not in measures
    kinds = [h for _b, h in handlers]
    pair = any(h.startswith("replace") and "\\r\\n" in h for h in kinds) or ("retain" in kinds and cr_pred)
    res.ob(rule, "normalize/line-ends-first", "LineMap::normalize deals with every '\\r' before it measures the text, and no `\\r\\n` pair survives "
           "(replaced by `\\n`, or the `\\r` removed)", first and pair, where=nm.loc(),
           how="carriage-return handling: %s; all before String::len / as_bytes: %s" % (kinds, first))
