"""C10 — Every IDE query answers on every workspace, however broken (panic reachability, query cycles, unbounded recursion)."""
import re
from lib.report import lookup_reviewed as RP_lookup
from lib.inventory import guards_hold
from lib import flow as FL
from lib import panics as PN
from lib import pcache
from lib import report as R
from lib.facts import callee, callee_def
from rules import c15

META = {
    "level": "other",
    "technique": "static analysis: call-graph reachability of panic-capable constructs from the 11 Analysis queries with mechanical discharge rules and a reviewed-instances table; cycle detection in the salsa query graph; recursion guards on self-recursive type expansion",
    "rule": "Q1 every panic-capable construct reachable from a public Analysis query (through crates ide and syntax) is discharged by a "
            "stated rule (decided by C01/C02 for the parser, guarded by a dominating check, tracing metadata), matches a reviewed entry, or is "
            "reported; Q2 the side tables of InferenceResult are read with get(), never indexed; Q3 every cycle of the salsa query graph "
            "consists of queries that have cycle recovery; Q5 recursion that follows user-written references (type aliases) carries a "
            "visited-set guard. One obligation per site / query / recursive function. Verifier-style. Q7/Q8 = C11 H6/H7 (equality of query values). Q12 = C02 P2 (no parser loop stands still: the progress guard is reachable through deep nesting only). Q11 = C09 Y6 (complete inference groups: part of the cut of the infer cycle). Q10 every cycle of the query graph has a cut that keeps it from happening (recovery does not survive memo validation). Q9 no path through a recursive function descends twice into the same child of its input (linear, not 2^depth, work: the 11 queries answer on deeply nested annotations). Q14 an expression is inferred once: the per-expression worker of the inferencer runs only behind a failed look-up in the table of assigned types, the entry is made before the descent, and nothing else fills that table (40 levels of `1 |> g(1 |> g(..))` never answered). Q15 a type variable is not unified with a variable of its own class (`let b = #(a, a)` x 40 never answered). Q16 the recursive walk that writes a type out asks a budget (depth and size) before every descent.",
    "explanation": "Engine G lists every unwrap/expect/index/asserting-API call, MIR arithmetic or bounds assert and explicit panic that "
                   "the 11 queries can reach and demands a justification for each; the salsa query graph is rebuilt from the generated "
                   "QueryFunction::execute bodies and checked for cycles without recovery (a cycle panics in every query touching it). "
                   "The check rejects what it cannot justify; the reviewed table keeps today's tree exact. Q19 = C14 U12 (engine U). Q6 also: every entry of every per-name list of declarations() reaches the inference groups.",
    "not_decided": "panics inside rowan/salsa beyond the asserting-API table; stack depth on deeply nested input (inherits C02/P5); re-execution of a memoised query with a stale interned id during salsa's dependency validation.",
    "trusted_base": ["the asserting-API table in lib/panics.py", "rustc MIR + callee resolution", "salsa 0.17 cycle recovery semantics",
                     "the reasons in rules/reviewed.json"],
    "assumptions": ["query positions lie inside the file (offset <= len): the LSP layer's unchecked positions are caught by with_catch_unwind (C15/M4)"],
}

AN = "ide::ide::Analysis"


def entries(F):
    return sorted(p for p, f in F.fns.items() if f.d.get("impl_self") == AN and f.d.get("vis") == "Public" and f.kind == "AssocFn")


def in_parser(p):
    return p.startswith("syntax::parser::") or p.startswith("syntax::token_set::") or p.startswith("syntax::kind::")


def query_graph(F):
    """(queries, graph, recover set, sccs) of the derived salsa queries: edges from the generated QueryFunction::execute bodies"""
    ex = {p: p[1:p.index(" as ")] for p in F.fns if p.endswith("salsa::plumbing::QueryFunction>::execute")}
    cg = F.callgraph()
    graph = {}
    for e, q in ex.items():
        st, seen_q, outs = [e], {e}, set()
        while st:
            x = st.pop()
            for y in cg.get(x, ()):
                if y in ex and y != e:
                    outs.add(ex[y])
                    continue
                if y in ex and y == e and x != e:
                    outs.add(q)
                    continue
                if y not in seen_q:
                    seen_q.add(y)
                    st.append(y)
        graph[q] = outs
    recover = {p[1:p.index(" as ")] for p in F.fns if p.endswith("salsa::plumbing::QueryFunction>::recover")}
    # SCCs
    sccs = []
    index, low, on, stack, cnt = {}, {}, set(), [], [0]

    def sc(v):
        index[v] = low[v] = cnt[0]
        cnt[0] += 1
        stack.append(v)
        on.add(v)
        for w in graph.get(v, ()):
            if w not in index:
                sc(w)
                low[v] = min(low[v], low[w])
            elif w in on:
                low[v] = min(low[v], index[w])
        if low[v] == index[v]:
            comp = []
            while True:
                w = stack.pop()
                on.discard(w)
                comp.append(w)
                if w == v:
                    break
            if len(comp) > 1 or v in graph.get(v, ()):
                sccs.append(sorted(comp))
    for v in sorted(graph):
        if v not in index:
            sc(v)
    return ex, graph, recover, sccs


def run(F, res, tier):
    from rules import c14 as _c14u
    _c14u.text_positions_are_counted_in_bytes(F, res, rule="Q19", crates=('syntax', 'ide'))   # engine U: no query slices a text at a character or UTF-16 count
    reviewed = R.load_reviewed().get("C10", {})
    ents = entries(F)
    res.floor("public Analysis queries", len(ents), 11)
    # every query parses; the generated lexer calls back into hand-written code the call graph cannot reach through logos
    from rules import parser_model as _PM
    seen = F.reachable_from(ents + _PM.lexer_callbacks(F))
    res.analysed.update({"entry_points": len(ents), "reachable_functions": len(seen)})
    res.floor("functions reachable from the queries", len(seen), 800)
    from lib.inventory import Inventory
    INV = Inventory(F, reviewed, "Q1/", discharged=lambda f_, b_, k_, dt_, df_: c15.discharge(F, f_, b_, k_, dt_, df_) or (in_parser(f_.path) and __import__("rules.c02", fromlist=["x"]).budget_discharge(F, f_, b_, k_, dt_, df_)))
    PR = pcache.results(F)
    parser_ok = not PR["panic_sites"] and not PR["unknown_calls"]
    # the progress guard in Parser::nth is a known finding for deep nesting only (C02/P5b): a loop that can go round without
    # consuming makes it fire on short inputs, in every query on the file
    lv = PR.get("loop_viol") or {}
    res.ob("Q12", "parser-loops-progress", "every loop of the parser consumes a token per iteration (C02/P2): the progress guard `parser is stuck` is not "
           "reachable through a loop that stands still", not lv, where="crates/syntax/src/parser.rs",
           how="loops that can go round without consumption: %s" % sorted(lv)[:6] if lv else "all %d loops progress" % sum(len(v) for v in PR["loops"].values()))
    n = 0
    for p in sorted(seen):
        f = F.fns[p]
        if not f.blocks:
            continue
        defs = None
        for b, kind, detail, ln, key, exp in PN.sites_in(f):
            if defs is None:
                defs = FL.Defs(f)
            n += 1
            full = "%s/%s" % (p, key)
            desc = "the %s (%s) at this site cannot fire in any query on any workspace" % (kind, detail)
            why = c15.discharge(F, f, b, kind, detail, defs)
            if why is None and in_parser(p):
                from rules import c02 as _c02b
                why = _c02b.budget_discharge(F, f, b, kind, detail, defs)
            if why is None and in_parser(p) and p in PR["functions"] + ["syntax::parser::Parser::bump", "syntax::parser::Parser::nth"] and parser_ok \
                    and kind == "explicit" and detail == "assert!":
                why = "parser precondition: decided unreachable for every token sequence by engine P (C02/P1)"
            if why is None and p == "syntax::parser::Parser::nth" and kind == "explicit" and detail == "panic!" and parser_ok and not lv:
                # the progress guard: unreachable when every loop consumes (P2), no recursion stands still (P3) and the look-aheads
                # made while returning through at most MAX_NESTING levels stay below the fuel (P4, P5a, P5b)
                from rules import c02 as _c02
                NS = _c02.nesting_status(F, PR)
                if NS["ok"] and not PR["noprog_cycles"]:
                    why = "the fuel cannot run out: loops and recursion consume (C02 P2, P3), nesting is cut at %s levels and %s x %s + %s + %s = %s look-aheads < fuel %s (C02 P5)" % (
                        NS["limit"], NS["limit"], NS["heaviest_level"], NS["non_recursive_tails"], NS["head"], NS["bound"], NS["fuel"])
            if why:
                res.ob("Q1", full, desc, True, where=f.loc(ln), how="discharged: " + why)
                continue
            rv = RP_lookup(reviewed, "Q1/" + full, FL.guard_signature(F, f, b, defs))
            if rv:
                guards = FL.guard_signature(F, f, b, defs)
                if guards_hold(rv.get("guards", []), guards, {v.get("name") for v in (f.d.get("debug") or [])}):
                    res.ob("Q1", full, desc, True, where=f.loc(ln), how="reviewed: %s [guards: %s]" % (rv["reason"], guards), reviewed=True)
                elif INV.renumbered(f, key.rsplit("/", 1)[0], guards):
                    res.ob("Q1", full, desc, True, where=f.loc(ln), reviewed=True,
                           how="reviewed under another ordinal of the same function (a site was added or removed before it); its recorded conditions hold here")
                else:
                    res.ob("Q1", full, desc, False, where=f.loc(ln),
                           how="the conditions guarding this reviewed site changed since it was reviewed: now %s, reviewed with %s (reason then: %s)"
                           % (guards, rv.get("guards", []), rv["reason"]))
                continue
            path = " <- ".join(x.rsplit("::", 1)[-1] for x in reversed(F.path_to(seen, p)[-4:]))
            rn = INV.renumbered(f, key.rsplit("/", 1)[0], FL.guard_signature(F, f, b, defs))
            if rn:
                res.ob("Q1", full, desc, True, where=f.loc(ln), reviewed=True,
                       how="reviewed under another ordinal of the same function; its recorded conditions hold here: " + rn["reason"])
                continue
            mv, mv_from = INV.moved(f, b, key.rsplit("/", 1)[0], FL.guard_signature(F, f, b, defs))
            if mv:
                res.ob("Q1", full, desc, True, where=f.loc(ln), reviewed=True,
                       how="reviewed in %s before the code was moved here (every recorded condition still holds here or at each call of this function): %s" % (mv_from.rsplit("::", 1)[-1], mv["reason"]))
                continue
            res.ob("Q1", full, desc, False, where=f.loc(ln),
                   how="panic-capable construct reachable from an IDE query (%s) and neither discharged nor reviewed" % path)
    res.floor("panic-capable sites reachable from the queries", n, 150)
    # ---- Q2
    for name in ("ty_for_pattern", "ty_for_expr"):
        f = F.fn("ide::ty::infer::InferenceResult::" + name)
        idx = [d for b, k, d, ln, key, exp in PN.sites_in(f) if d.startswith("Index::index")]
        gets = [1 for b, t in f.calls() if FL.short(callee(t) or callee_def(t)) == "ArenaMap::get"]
        res.ob("Q2", name, "InferenceResult::%s tolerates ids the inferencer never visited (reads the side table with get())" % name,
               not idx and bool(gets), where=f.loc(), how="index sites %d, get() sites %d" % (len(idx), len(gets)))
    # ---- Q3
    ex, graph, recover, sccs = query_graph(F)
    res.floor("derived salsa queries", len(ex), 13)
    res.analysed["query_graph"] = {q.rsplit("::", 1)[-1]: sorted(x.rsplit("::", 1)[-1] for x in o) for q, o in sorted(graph.items())}
    res.floor("query cycles found (positive control: module_scope <-> module_scope_with_map)", len(sccs), 1)
    for comp in sccs:
        missing = [q for q in comp if q not in recover]
        res.ob("Q3", "cycle/" + "+".join(q.rsplit("::", 1)[-1] for q in comp),
               "every query on this cycle of the salsa query graph has cycle recovery (else a cyclic workspace panics 'cycle detected' in every query)",
               not missing, where="crates/ide/src/def/mod.rs, crates/ide/src/ty/mod.rs",
               how="all %d queries recover" % len(comp) if not missing else "no #[salsa::cycle] on %s" % [q.rsplit("::", 1)[-1] for q in missing])
    cycles_are_cut(F, res, sccs)
    for q in sorted(graph):
        if not any(q in c for c in sccs):
            res.ob("Q3", "acyclic/" + q.rsplit("::", 1)[-1], "this query cannot reach itself through other queries", True,
                   where="crates/ide/src", how="not on a cycle of the query graph (%d queries)" % len(graph), nontrivial=False)
    # ---- Q5: every recursive cycle of the call graph in crates ide is either structural on a finite tree
    # (reviewed) or carries a checkable cycle cut
    recursion(F, res, seen)
    declared_everywhere(F, res)
    # what salsa may back-date is decided by the equality of the query values (C11 H6/H7): a scope that compares equal although a
    # visibility, an id or an order changed leaves the dependents with the old answer
    from rules import c11 as _c11
    _c11.value_equality_rules(F, res, rule="Q7", rule2="Q8")
    no_double_descent(F, res)
    every_file_has_a_tree_of_its_own(F, res)
    inference_is_memoised(F, res)
    same_class_is_a_no_op(F, res)
    display_is_budgeted(F, res)
    recursion_follows_nesting_not_length(F, res)
    instantiation_shares_what_the_type_shares(F, res)
    from rules import c09 as _c09
    _c09.groups_scan_every_body(F, res, rule="Q11")


def _map_field(d, op):
    o = d.origin_op(op)
    if o.get("k") == "field":
        names = [e.get("n") for e in o.get("proj", []) if isinstance(e, dict) and "f" in e]
        return names[-1] if names else None
    return None


def inference_is_memoised(F, res, rule="Q14"):
    """Q14: an expression is inferred once. Arms of the inferencer look at children before they infer a parent that contains them
    (the pipe arm infers the callee and the arguments of the call on its right, then the call), so the number of visits of a node
    doubles with every level of `1 |> g(1 |> g(..))` unless the descent is memoised: 40 levels never answer. Three clauses:
    every call of the per-node worker (infer_expr_inner) sits behind a failed look-up of the expression in the table of the types
    already assigned; the entry is made before the descent (between the look-up and the worker); and nothing else fills that table
    for an expression that has not been inferred - else the look-up answers a placeholder nobody ever unifies with anything
    (the second clause is what makes the first one safe)."""
    INF = "ide::ty::infer::InferCtx::"
    worker = INF + "infer_expr_inner"
    if worker not in F.fns:
        res.anchor_missing(rule, worker)
        return
    sites, bad = 0, []
    memo_field, allocs = None, set()
    for p, f in sorted(F.fns.items()):
        if not p.startswith(("ide::", "<ide::")) or not f.blocks:
            continue
        calls = [(b, t) for b, t in f.calls() if (callee(t) or "") == worker]
        if not calls:
            continue
        d = FL.Defs(f)
        for b, t in calls:
            sites += 1
            key = FL.origin_key(d.origin_op(t["args"][1]))
            ok = False
            for g in FL.gates(F, f, [b], d):
                ct = g.get("call_t")
                if not ct or FL.short(g.get("callee") or "") != "ArenaMap::get" or g.get("allowed") != ["None"]:
                    continue
                if FL.origin_key(d.origin_op(ct["args"][1])) != key:
                    continue
                fld = _map_field(d, ct["args"][0])
                if fld is None:
                    continue
                # the entry is made on every path from the failed look-up to the descent
                fills = []
                for b2, t2 in f.calls():
                    c2 = callee(t2) or ""
                    h = F.fns.get(c2)
                    direct = FL.short(c2) == "ArenaMap::insert" and _map_field(d, t2["args"][0]) == fld
                    via = False
                    if h is not None and h.blocks and c2.startswith(INF):
                        dh = FL.Defs(h)
                        via = any(FL.short(callee(t3) or "") == "ArenaMap::insert" and _map_field(dh, t3["args"][0]) == fld and
                                  dh.origin_op(t3["args"][1]).get("k") == "arg" for _b3, t3 in h.calls())
                        if via:
                            allocs.add(c2)
                    if (direct or via) and len(t2["args"]) > 1 and FL.origin_key(d.origin_op(t2["args"][1])) == key:
                        fills.append(b2)
                if fills and not f.can_reach(g["bb"], [b], avoid=fills):
                    ok, memo_field = True, fld
            if not ok:
                bad.append("%s (line %s)" % (FL.short(p), t["ln"]))
    res.ob(rule, "infer/once", "the per-expression worker of the inferencer runs only behind a failed look-up of that expression in the table of types already "
           "assigned, and the entry is made before the descent (an expression is inferred once however many arms look at it)",
           sites > 0 and not bad, where="crates/ide/src/ty/infer.rs", how="%d call site(s) of infer_expr_inner, memo table %s" % (sites, memo_field) if not bad else
           "not memoised: %s" % bad)
    if memo_field is None:
        return
    # who else fills the memo table
    stray = []
    nins = 0
    for p, f in sorted(F.fns.items()):
        if not p.startswith(("ide::", "<ide::")) or not f.blocks:
            continue
        d = None
        for b, t in f.calls():
            c = callee(t) or ""
            if c in allocs and p != worker:
                # the allocator of placeholders: only where a worker call follows under the same key (checked above) - i.e. in the
                # functions that call the worker
                if not any((callee(t2) or "") == worker for _b2, t2 in f.calls()):
                    stray.append("%s hands out a placeholder in %s, which does not infer the expression" % (FL.short(c), FL.short(p)))
                continue
            if FL.short(c) != "ArenaMap::insert":
                continue
            d = d or FL.Defs(f)
            if _map_field(d, t["args"][0]) != memo_field:
                continue
            nins += 1
            if p in allocs:
                continue
            ko = d.origin_op(t["args"][1])
            if p == worker and ko.get("k") == "arg" and ko.get("n") == 2:
                continue                    # the worker records the type of the expression it is inferring
            stray.append("%s inserts into %s under a key that is not the expression being inferred (line %s)" % (FL.short(p), memo_field, t["ln"]))
    res.ob(rule, "infer/memo-filled-by-inference-only", "the table the look-up reads is filled only for the expression under inference: by the placeholder "
           "made between the look-up and the descent, or by the worker for its own expression (an entry made elsewhere would end the inference of that "
           "expression before it began)", not stray, where="crates/ide/src/ty/infer.rs",
           how="%d insert site(s) into %s, allocator(s) %s" % (nins, memo_field, sorted(FL.short(a) for a in allocs)) if not stray else "; ".join(stray))


def same_class_is_a_no_op(F, res, rule="Q15"):
    """Q15: unifying a type variable with a variable of its own class does nothing. `let b = #(a, a)` ends in unify_var(v, v);
    unify walks the type the two share as a tree and calls itself on every pair of children, each of which is again one variable with
    itself: a chain of n such lets costs 2^n steps (40 never answer). In every function that takes the content of one variable's
    class (UnionFind::get / get_mut) to unify it with another variable, that step sits behind a comparison of the two
    representatives (UnionFind::find) that came out unequal."""
    INF = "ide::ty::infer::InferCtx::"
    nsites, bad = 0, []
    for p, f in sorted(F.fns.items()):
        if not p.startswith(INF) or not f.blocks or "{closure" in p:
            continue
        params = [i for i in range(2, f.d["arg_count"] + 1) if (f.local_ty(i) or "").endswith("TyVar")]
        if len(params) < 2:
            continue
        d = FL.Defs(f)
        for b, t in f.calls():
            if FL.short(callee(t) or "") not in ("UnionFind::get_mut", "UnionFind::get"):
                continue
            nsites += 1
            ok = False
            for g in FL.gates(F, f, [b], d):
                o = g.get("origin") or {}
                if o.get("k") != "rv" or o["rv"].get("k") != "bin" or o["rv"]["op"] not in ("Eq", "Ne"):
                    continue
                sides = [d.origin_op(x) for x in (o["rv"]["a"], o["rv"]["b"]) if isinstance(x, dict) and "k" not in x]
                finds = [x for x in sides if x.get("k") == "call" and FL.short(callee(x["t"]) or "") == "UnionFind::find"]
                if len(finds) != 2:
                    continue
                roots = set()
                for x in finds:
                    ao = d.origin_op(x["t"]["args"][1])
                    while ao.get("k") == "field":
                        ao = ao["base"]
                    if ao.get("k") == "arg":
                        roots.add(ao["n"])
                unequal = (o["rv"]["op"] == "Eq" and g.get("allowed") == [False]) or (o["rv"]["op"] == "Ne" and g.get("allowed") == [True])
                if len(roots) == 2 and unequal:
                    ok = True
            if not ok:
                bad.append("%s (line %s)" % (FL.short(p), t["ln"]))
    res.ob(rule, "unify/same-class", "the content of one variable's class is unified with another variable only after their representatives were compared and "
           "found different", nsites > 0 and not bad, where="crates/ide/src/ty/infer.rs",
           how="%d site(s), each behind find(a) != find(b)" % nsites if nsites and not bad else ("no site found" if not nsites else "not guarded: %s" % bad))


def display_is_budgeted(F, res, rule="Q16"):
    """Q16: a type is written out within a budget. The frozen types of a body share their parts (`let b = #(a, a)` holds `a` once)
    and nest as deep as the body is long (`let b = [a]` repeated): written out as a tree the first has 2^n leaves - hover and
    plain completion, which renders every local in scope, never answer at n = 40 - and the second overflows the worker's stack at
    n = 3000, which takes the process down. The recursive walk of the type for display therefore asks a budget before every
    descent: a method of the formatter that compares a depth counter and a size counter with constants; the depth is counted up
    around the descent and down after it, the size grows with every piece written."""
    TF = "ide::ty::display::TyFormatter"
    root = "<ide::ty::Ty as ide::ty::display::TyDisplay>::ty_fmt"
    if root not in F.fns:
        res.anchor_missing(rule, root)
        return
    from lib import effects as EF
    # the budget: a bool method of the formatter that compares fields of it with constants
    budget = None
    for p_, f in sorted(F.fns.items()):
        if not p_.startswith(TF + "::") or not f.blocks or f.d.get("output") != "bool":
            continue
        fields = set()
        for b, i, s_ in f.stmts():
            rv = s_.get("rv") or {}
            if rv.get("k") == "bin" and rv["op"] in ("Ge", "Gt", "Lt", "Le"):
                sides = [rv["a"], rv["b"]]
                if any(isinstance(x.get("k"), dict) and "bits" in x["k"] for x in sides if isinstance(x, dict)):
                    for x in sides:
                        pl = x.get("cp") or x.get("mv") if isinstance(x, dict) else None
                        if pl:
                            o = FL.Defs(f).origin_place(pl)
                            names = [e.get("n") for e in (o.get("proj") or []) if isinstance(e, dict) and "f" in e] if o.get("k") == "field" else \
                                    [e.get("n") for e in pl["p"] if isinstance(e, dict) and "f" in e]
                            fields |= set(n_ for n_ in names if n_)
        if len(fields) >= 1:
            budget = (p_, fields)
    if budget is None:
        res.ob(rule, "display/budget", "the formatter of types has a budget test (depth and size against constants)", False, where="crates/ide/src/ty/display.rs",
               how="no bool method of TyFormatter compares a field with a constant: a type is written out whole, however large")
        return
    bp, bfields = budget
    # the recursive cycle of the display
    cg = F.callgraph()
    scc = {root}
    frontier = [root]
    reach = {}

    def reaches(a):
        if a in reach:
            return reach[a]
        seen, st = set(), [a]
        while st:
            x = st.pop()
            for y in cg.get(x, ()):
                if y not in seen and y.startswith(("ide::ty::", "<ide::ty::")):
                    seen.add(y)
                    st.append(y)
        reach[a] = seen
        return seen
    members = {m for m in reaches(root) if root in reaches(m)} | {root}
    # every cycle passes a gated call: remove the gated call edges and look for a remaining cycle
    edges = {}
    gated_sites = 0
    gated_callees = set()
    from lib.flow import op_local_
    # closures are attached to their parents in the call graph: that edge is examined at the place where the closure is built
    closure_children = {m: {c for c in members if c.startswith(m + "::{closure")} for m in members}
    for m in members:
        f = F.fns.get(m)
        if f is None or not f.blocks:
            continue
        d = FL.Defs(f)
        for b, t in f.calls():
            c = callee(t) or ""
            tgts = [c] if c in members else [x for x in cg.get(m, ()) if x in members and x not in closure_children.get(m, ()) and
                                              (callee_def(t) or "").rsplit("::", 1)[-1] == x.rsplit("::", 1)[-1]] if c not in F.fns else []
            if not tgts:
                continue
            gs = FL.gates(F, f, [b], d)
            ok = any((g.get("callee") or "") == bp and g.get("allowed") in ([False], [0]) for g in gs)
            if ok:
                gated_sites += 1
                gated_callees.add(c)
            else:
                for x in tgts:
                    edges.setdefault(m, set()).add(x)
        # a closure of m that is a member: the descent is where m builds it and hands it on (`f.nested(|f| self.walk(f))`)
        for b, i, s_ in f.stmts():
            rv = s_.get("rv") or {}
            if rv.get("k") == "agg" and rv.get("closure") in members:
                gs = FL.gates(F, f, [b], d)
                ok = any((g.get("callee") or "") == bp and g.get("allowed") in ([False], [0]) for g in gs)
                if ok:
                    gated_sites += 1
                    # whoever is handed the closure runs it: its writes surround the descent
                    for b2, t2 in f.calls():
                        if any(op_local_(a) == s_["place"]["l"] for a in t2["args"] if isinstance(a, dict)) and f.can_reach(b, [b2]) or b2 == b:
                            gated_callees.add(callee(t2) or "")
                else:
                    edges.setdefault(m, set()).add(rv["closure"])
            
    # cycle detection over the ungated edges
    color = {}

    def dfs(u):
        color[u] = 1
        for v in edges.get(u, ()):
            if color.get(v) == 1 or (color.get(v) is None and dfs(v)):
                return True
        color[u] = 2
        return False
    cyc = any(color.get(m) is None and dfs(m) for m in sorted(members))
    res.ob(rule, "display/descent-budgeted", "every cycle of the recursive walk that writes a type out passes a descent that sits behind the refusing answer of "
           "the formatter's budget test", gated_sites > 0 and not cyc, where=F.fns[root].loc(),
           how="%d function(s) on the cycle, %d gated descent(s), no cycle round them" % (len(members), gated_sites) if gated_sites and not cyc else
           "a cycle of %s avoids the budget test %s" % (sorted(FL.short(m) for m in members), FL.short(bp)))
    # the two counters: one moves with the descent (depth), one grows where text is written (size)
    writers = {}
    for p_, f in sorted(F.fns.items()):
        if not p_.startswith(("ide::ty::display::", "<ide::ty::")) or not f.blocks:
            continue
        for e in EF.field_effects(f, TF):
            if e["how"] == "assign" and e["field"] in bfields:
                writers.setdefault(e["field"], set()).add(p_)
    depthlike = [fl for fl, ws in writers.items() if ws & (members | gated_callees)]
    sizelike = [fl for fl, ws in writers.items() if any(any(FL.short(callee(t) or callee_def(t) or "").endswith("write_str") for _b, t in F.fns[w].calls()) for w in ws)]
    res.ob(rule, "display/budget-counts-depth-and-size", "the budget compares a counter that moves with the descent (depth: stack) and one that grows with the "
           "text written (size: time and memory)", bool(depthlike) and bool(sizelike) and set(depthlike) != set(sizelike) or (len(depthlike) >= 1 and len(sizelike) >= 1 and depthlike != sizelike),
           where=F.fns[bp].loc(), how="%s compares %s; moved around the descent: %s; grown where text is written: %s" % (FL.short(bp), sorted(bfields), depthlike, sizelike))


REST_PASS = ("Iterator::collect", "IntoIterator::into_iter", "Iterator::by_ref", "Iterator::skip", "Iterator::peekable", "Iterator::rev", "Iterator::fuse",
             "Vec::from_iter", "FromIterator::from_iter", "Iterator::cloned", "Iterator::copied", "Deref::deref", "DerefMut::deref_mut", "Clone::clone",
             "Vec::split_off", "slice::to_vec", "[T]::to_vec", "Vec::drain", "Vec::as_slice")


def recursion_follows_nesting_not_length(F, res, rule="Q17"):
    """Q17: the depth of every recursion is the nesting of the input, which the parser bounds (C02 P5), never the length of a list
    of siblings. A function on a recursive cycle that has started to consume a sequence (it called `next()` on an iterator, or split
    the head off a slice) and hands the *rest* to a call into the cycle - `self.infer_stmts(stmts.collect())` for what follows a
    `use`, `f(&xs[1..])`, `f(tail)` after `split_first` - recurses once per element: 3000 `use <- x` lines in one body overflow the
    stack of the worker thread that infers it, and a stack overflow aborts the process."""
    cg = F.callgraph()
    ide = [p for p in sorted(F.fns) if p.startswith(("ide::", "<ide::")) and F.fns[p].blocks]
    memo = {}

    def reach(a):
        if a in memo:
            return memo[a]
        seen, st = set(), [a]
        while st:
            x = st.pop()
            for y in cg.get(x, ()):
                if y not in seen and y.startswith(("ide::", "<ide::")):
                    seen.add(y)
                    st.append(y)
        memo[a] = seen
        return seen
    n, bad = 0, []
    for p_ in ide:
        if "{closure" in p_:
            continue
        r = reach(p_)
        if p_ not in r:
            continue
        f = F.fns[p_]
        d = FL.Defs(f)
        # iterators / slices this function has started to consume: the receiver of a next() call, the subject of split_first / a [1..] index
        started, split = {}, {}
        for b, t in f.calls():
            c = FL.short(callee(t) or callee_def(t) or "")
            last = c.rsplit("::", 1)[-1]
            if last in ("next", "next_back", "pop", "remove") and t["args"]:
                # consumed in place: the very same iterator / container (fields of one aggregate are different containers)
                o = d.origin_op(t["args"][0], through_calls=REST_PASS)
                started.setdefault(FL.origin_key(o), []).append(b)
            if last in ("split_first", "split_last", "split_at") and t["args"]:
                split[("call", b)] = b          # the tail is a part of this call's answer
            if last == "index" and len(t["args"]) > 1 and "RangeFrom" in (f.local_ty(FL.op_local_(t["args"][1]) or -1) or ""):
                split[("call", b)] = b
        for b, t in f.calls():
            c = callee(t) or ""
            if c not in r or p_ not in reach(c) and c != p_:
                continue
            n += 1
            for a in t["args"][1:] if len(t["args"]) > 1 else t["args"]:
                if "k" in a:
                    continue
                o = d.origin_op(a, through_calls=REST_PASS)
                key = FL.origin_key(o)
                base = o
                while base.get("k") == "field":
                    base = base["base"]
                hit = (key in started and o.get("k") in ("arg", "call", "rv", "agg", "multi", "field") and
                       any(sb == b or f.can_reach(sb, [b]) for sb in started[key]) and
                       any(x in (f.local_ty(o.get("l")) or "") for x in ("Iter", "Vec<", "IntoIter", "[", "Peekable", "Skip", "Chain", "Map<", "impl ")))
                hit = hit or (FL.origin_key(base) in split and base.get("k") == "call" and f.can_reach(split[FL.origin_key(base)], [b]) and
                              any(isinstance(e, dict) and str(e.get("f")) == "1" or isinstance(e, dict) and e.get("n") in ("1",) for e in (o.get("proj") or [])
                                  ) or FL.origin_key(base) in split and FL.short(callee(base["t"]) or "").endswith("index"))
                if hit:
                    bad.append("%s hands the rest of a sequence it has begun to consume to %s (line %s)" % (FL.short(p_), FL.short(c), t["ln"]))
    res.floor("calls into recursive cycles of crate ide", n, 20)
    res.ob(rule, "recursion/not-over-the-rest-of-a-list", "no function of a recursive cycle hands the remainder of a sequence it has begun to consume back into the cycle "
           "(recursion depth follows the nesting of the source, which is bounded, not the number of statements or items)", not bad,
           where="crates/ide/src", how="%d recursive call sites, none on a remainder" % n if not bad else "; ".join(sorted(set(bad))[:3]))


def instantiation_shares_what_the_type_shares(F, res, rule="Q18"):
    """Q18: a frozen type is a DAG (the Collector answers a part it has frozen before from its cache, the parts are Arcs), and a
    caller in another inference group instantiates it by walking it. A walk that makes a fresh table entry per node it *reaches*
    makes 2^n entries for `let a1 = #(a0, a0) .. let an = #(a(n-1), a(n-1))` in the callee: hover on the caller never answers and the
    table eats the memory. The recursive function that instantiates a frozen type (it switches on ty::Ty and pushes into the
    variable table) keeps a map from the parts it has instantiated - told apart by the addresses of their Arcs - to their variables:
    it looks a part up before it descends and answers from the map, and records the variable it made."""
    cg = F.callgraph()
    n, bad = 0, []
    for p_, f in sorted(F.fns.items()):
        if not p_.startswith("ide::ty::infer::InferCtx::") or not f.blocks or "{closure" in p_:
            continue
        if p_ not in cg.get(p_, ()):
            continue                        # directly recursive instantiators only
        d = FL.Defs(f)
        from rules import c05 as _c05
        b0, t = _c05.match_on(f, d, "ide::ty::Ty")
        pushes = [b for b, tt in f.calls() if FL.short(callee(tt) or callee_def(tt) or "") in ("UnionFind::push",)]
        if t is None or not pushes:
            continue
        n += 1
        keys = [b for b, tt in f.calls() if FL.short(callee(tt) or callee_def(tt) or "").endswith("Arc::as_ptr")]
        looks = [(b, tt) for b, tt in f.calls() if FL.short(callee(tt) or callee_def(tt) or "") in ("HashMap::get", "HashMap::contains_key", "BTreeMap::get")]
        unit = [f] + [F.fns[c] for c in F.closures_of(p_) if c in F.fns]
        looks_any = looks or [(None, tt) for u in unit[1:] for _b, tt in u.calls() if FL.short(callee(tt) or callee_def(tt) or "") in ("HashMap::get", "BTreeMap::get")]
        stores = [b for b, tt in f.calls() if FL.short(callee(tt) or callee_def(tt) or "") in ("HashMap::insert", "BTreeMap::insert") and any(f.can_reach(pb, [b]) for pb in pushes)]
        # an early answer: a return reachable from the look-up that avoids every recursive call and every push
        rec = [b for b, tt in f.calls() if (callee(tt) or "") == p_]
        early = any(f.can_reach(0, [r], avoid=rec + pushes) for r in f.return_blocks())
        if not (keys and looks_any and stores and early):
            bad.append("%s: address keys %d, look-ups %d, records after the push %d, answer without descending: %s" % (FL.short(p_), len(keys), len(looks_any), len(stores), early))
    res.ob(rule, "instantiate/shared-parts-once", "the recursive instantiation of a frozen type answers a part it has already instantiated from a map keyed by the "
           "part's address and records every variable it makes", n > 0 and not bad, where="crates/ide/src/ty/infer.rs",
           how="%d recursive instantiator(s) of frozen types, each memoised by part" % n if n and not bad else ("; ".join(bad) or "no recursive instantiator of ty::Ty found"))


TREE = {
    "ide::def::body::BodyLowerCtx::lower_expr": "descends the syntax tree of one function body (finite; depth = nesting, see C02/P5)",
    "ide::def::body::BodyLowerCtx::lower_pattern": "descends the syntax tree of one pattern",
    "ide::def::module::typeref_from_ast": "descends the syntax tree of one type expression",
    "ide::def::scope::ExprScopes::traverse_expr": "descends the Body arena along child ids; lowering allocates children before parents, so ids form a tree",
    "ide::def::scope::ExprScopes::add_bindings": "descends the pattern arena along child ids (tree)",
    "ide::def::body::Body::walk_binders": "descends the pattern arena along child ids (tree; depth = nesting of the pattern, see C02/P5)",
    "ide::ty::infer::InferCtx::infer_expr": "descends the Body arena along child ids (tree)",
    "ide::ty::infer::InferCtx::infer_pattern": "descends the pattern arena along child ids (tree)",
    "ide::ty::infer::InferCtx::make_type": "descends a frozen ide::ty::Ty value, a finite tree of Arcs built by Collector",
    "ide::ty::infer::InferCtx::make_type_shared": "descends a frozen ide::ty::Ty value, a finite DAG of Arcs built by Collector; parts already instantiated are answered from the map keyed by their addresses (Q18)",
    "<ide::ty::Ty as ide::ty::display::TyDisplay>::ty_fmt": "descends a frozen ide::ty::Ty value (finite tree)",
    "ide::ty::union_find::UnionFind::<T>::find": "follows parent links, which unify() only ever sets from one root to another root: acyclic, depth bounded by union-by-rank",
}


def recursion(F, res, seen):
    cg = F.callgraph()
    nodes = [p for p in seen if p.startswith(("ide::", "<ide::"))]
    index, low, on, stack, comps, cnt = {}, {}, set(), [], [], [0]
    import sys
    sys.setrecursionlimit(100000)

    def sc(v):
        index[v] = low[v] = cnt[0]
        cnt[0] += 1
        stack.append(v)
        on.add(v)
        for w in cg.get(v, ()):
            if not w.startswith(("ide::", "<ide::")) or w not in seen:
                continue
            if w not in index:
                sc(w)
                low[v] = min(low[v], low[w])
            elif w in on:
                low[v] = min(low[v], index[w])
        if low[v] == index[v]:
            comp = []
            while True:
                w = stack.pop()
                on.discard(w)
                comp.append(w)
                if w == v:
                    break
            if len(comp) > 1 or v in cg.get(v, ()):
                comps.append(sorted(comp))
    for v in sorted(nodes):
        if v not in index:
            sc(v)
    res.floor("recursive cycles in crate ide reachable from the queries", len(comps), 10)
    for comp in sorted(comps):
        members = [m for m in comp if "{closure" not in m]
        # derive(Clone/PartialEq/Hash) on a generic wrapper: recursion is on the type parameter, not on data
        if all(F.fns[m].d.get("impl_trait", "").startswith("core::") and F.fns[m].d["span"]["exp"] for m in members):
            continue
        key = "+".join(m.rsplit("::", 1)[-1] for m in members)
        tree = [m for m in members if m in TREE]
        if tree:
            res.ob("Q5", "recursion/" + key, "this recursive cycle terminates on every workspace", True, where=F.fns[members[0]].loc(),
                   how="reviewed: structural recursion: " + TREE[tree[0]], reviewed=True)
            continue
        ok, why = False, "recursive cycle over data that may be cyclic and no cycle cut is known for it"
        if "ide::ty::infer::InferCtx::unify_var_ty" in members:
            ok, why = cut_unify(F)
        elif "ide::ty::infer::Collector::collect" in members:
            ok, why = cut_collect(F)
        elif "ide::ty::infer::InferCtx::make_ty_from_typeref" in members and all(m.startswith("ide::ty::infer::InferCtx::") for m in members):
            # the expansion of an alias may live in a private helper of the context that calls back (`expand_alias`)
            ok, why = cut_alias(F, helpers=[m for m in members if m != "ide::ty::infer::InferCtx::make_ty_from_typeref"])
        res.ob("Q5", "recursion/" + key, "this recursive cycle terminates on every workspace (it walks a graph that can be cyclic, so it needs a cycle cut)",
               ok, where=F.fns[members[0]].loc(), how=why)


def cut_unify(F):
    f = F.fn("ide::ty::infer::InferCtx::unify_var_ty")
    d = FL.Defs(f)
    rec = [b for b, t in f.calls() if callee(t) == "ide::ty::infer::InferCtx::unify"]
    reps = []
    for b, t in f.calls():
        if FL.short(callee(t) or callee_def(t)) in ("mem::replace", "mem::take"):
            o = d.origin_op(t["args"][0])
            if o.get("k") == "call" and (callee(o["t"]) or "").endswith("UnionFind::<T>::get_mut"):
                reps.append(b)
    ok = bool(rec) and bool(reps) and all(any(f.dominates(r, c) for r in reps) for c in rec)
    return ok, ("the variable's table entry is swapped for a placeholder (mem::replace on table.get_mut(var)) before unify() descends: "
                "a cyclic type is met again as Unknown") if ok else \
        "unify_var_ty calls unify() without first replacing the variable's entry by a placeholder: unifying a cyclic type twice never returns"


def cut_collect(F):
    f = F.fn("ide::ty::infer::Collector::collect")
    d = FL.Defs(f)
    rec = [b for b, t in f.calls() if callee(t) == "ide::ty::infer::Collector::collect_uncached"]
    stores = []
    for b, i, s in f.stmts():
        if s["k"] == "assign" and s["place"]["p"] == ["*"]:
            o = d.origin(s["place"]["l"])
            if o.get("k") == "call" and FL.short(callee(o["t"]) or callee_def(o["t"])) == "IndexMut::index_mut":
                stores.append(b)
    hit = [g for b in rec for g in FL.gates(F, f, [b], d) if g["kind"] == "enum" and g["allowed"] == ["None"]]
    ok = bool(rec) and any(f.dominates(s_, rec[0]) for s_ in stores) and bool(hit)
    return ok, ("collect() returns the cached value if there is one and stores a placeholder in cache[i] before it descends" if ok else
                "collect() descends without a cache hit test / placeholder store before collect_uncached")


def cut_alias(F, helpers=()):
    mk = F.fn("ide::ty::infer::InferCtx::make_ty_from_typeref")
    if helpers:
        from lib import inline as IL
        mk = IL.inlined(F, mk, want=lambda p: p in helpers, depth=2)
    d = FL.Defs(mk)
    rec = [(b, t) for b, t in mk.calls() if callee(t) == "ide::ty::infer::InferCtx::make_ty_from_typeref"]
    alias_rec = []
    for b, t in rec:
        o = d.origin_op(t["args"][1], FL.PASS_THROUGH + ("Option::<T>::filter",))
        base = o
        while base.get("k") == "field":
            base = base["base"]
        if base.get("k") == "call" and (callee(base["t"]) or "").endswith("TypeAlias::data"):
            alias_rec.append(b)
    clos = [F.fns[c] for c in F.closures_of("ide::ty::infer::InferCtx::make_ty_from_typeref")] + [F.fns[c] for h in helpers for c in F.closures_of(h)]
    guard = any(FL.short(callee(t2) or callee_def(t2)).endswith("contains") for c in clos for _, t2 in c.calls()) or \
        any(FL.short(callee(t2) or callee_def(t2)).endswith("contains") for _, t2 in mk.calls())
    pushes = [b for b, t in mk.calls() if FL.short(callee(t) or callee_def(t)) == "Vec::push" and "TypeAliasId" in str((t.get("fn") or {}).get("targs"))]
    ok = bool(alias_rec) and guard and bool(pushes) and all(any(mk.dominates(p_, a) for p_ in pushes) for a in alias_rec)
    return ok, ("the other recursive calls descend a TypeRef tree; expanding a type alias pushes it on alias_stack first and is skipped when "
                "the alias is already on it" if ok else
                "alias expansion recurses into the alias body without a visited-stack test: a recursive alias never terminates")


def declared_everywhere(F, res, rule="Q6"):
    """Q6: every definition interned by module_scope_with_map_query is also recorded in `declarations`, on every path of
    its loop iteration. dependency_order lists a file's functions from `declarations`, and infer_function_query expects
    (`.expect(..)`) to find every interned function in one of the groups: a function that is interned but not declared —
    e.g. the second of two functions with one name, if recording became conditional — panics every query that needs it."""
    from lib import inline as IL
    fn0 = F.fn("ide::def::scope::module_scope_with_map_query")
    # with helpers of the scope module that only this query calls inlined (`self.declare(name, def, vis)`)
    fn = IL.inlined(F, fn0, want=lambda p: p.startswith("ide::def::scope::") and "resolve_import" not in p and
                    {f_.path for f_, b_, t_ in F.callers_of(lambda c, p=p: c == p)} <= set(F.with_closures(fn0.path)), depth=1)
    d = FL.Defs(fn)
    loops = [(tail, head, fn.natural_loop(tail, head)) for tail, head in fn.back_edges()]
    pushes = []
    for b, t in fn.calls():
        if FL.short(callee(t) or callee_def(t)) != "Vec::push":
            continue
        dep = FL.depends(F, fn, d, t["args"][0])
        if any(c.endswith("Entry::or_default") or "or_insert" in c for c in dep["calls"]) and any(c.endswith("IndexMap::entry") or c.endswith("HashMap::entry") for c in dep["calls"]):
            pushes.append(b)
    n = 0
    for b, t in fn.calls():
        c = FL.short(callee(t) or callee_def(t))
        if not c.startswith("InternDatabase::intern_") or c.endswith("intern_import"):
            continue
        n += 1
        inner = [l for l in loops if b in l[2]]
        inner.sort(key=lambda l: len(l[2]))
        ok, why = False, "not inside a loop"
        if inner:
            tail, head, body = inner[0]
            mine = [p_ for p_ in pushes if p_ in body]
            # can the iteration end (reach the back edge's tail and go round) without recording?
            leak = fn.can_reach(b, [tail], avoid=mine) if mine else True
            ok = bool(mine) and not leak
            why = "recording pushes in this loop: %d; the iteration can end without one: %s" % (len(mine), leak)
        res.ob(rule, "declared/%s" % c.rsplit("intern_", 1)[-1], "every %s interned here is pushed into ModuleScope.declarations on every path of the iteration"
               % c.rsplit("intern_", 1)[-1], ok, where=fn.loc(t["ln"]), how=why)
    res.floor("definition kinds interned in module_scope_with_map_query", n, 4)
    # ... and the inference groups are formed over `declarations` (every declaration), not over `values` (one definition
    # per name: the earlier of two functions with one name, or a function shadowed by a constant, would be in no group)
    dq = [F.fns[p_] for p_ in F.with_helpers("ide::def::scope::dependency_order_query", depth=1) if p_.startswith("ide::def::scope::")]
    cs = {FL.short(callee(t) or callee_def(t)) for g in dq for b, t in g.calls()}
    res.ob(rule, "groups-over-declarations", "dependency_order_query lists the file's functions from ModuleScope::declarations() (every "
           "declaration), not from the name-indexed value table", "ModuleScope::declarations" in cs and "ModuleScope::values" not in cs,
           where=dq[0].loc(), how="enumerates through %s" % sorted(c for c in cs if c.startswith("ModuleScope::")))

    every_declaration_reaches_the_groups(F, res, rule)


CHAIN_OK = ("flatten", "flat_map", "filter_map", "map", "filter", "copied", "cloned", "into_iter", "iter", "collect", "for_each", "enumerate", "by_ref",
            "peekable", "inspect", "extend", "from_iter", "deref", "as_ref", "as_slice", "values", "clone")
SELECTORS = ("first", "last", "get", "nth", "next", "next_back", "take", "skip", "find", "find_map", "position", "rposition", "max", "max_by", "max_by_key",
             "min", "min_by", "min_by_key", "split_first", "split_last", "pop", "take_while", "skip_while", "step_by", "nth_back", "get_index", "swap_remove")


def every_declaration_reaches_the_groups(F, res, rule="Q6"):
    """Q6 (third part): `ModuleScope::declarations()` answers one LIST per name - two functions with one name are two entries of one
    list. dependency_order_query must hand every entry of every list to the grouping: between the call of declarations() and the
    collection of the file's functions the iterator passes only adaptors that keep every element (flatten, map, filter_map on the
    kind of the definition, ..) - none that selects (first / last / next outside a loop / nth / take / skip / take_while / max ..),
    and the closures handed to those adaptors do not select an element of their item either. `filter_map(|decls| decls.first())`
    drops the later duplicates: they belong to no group and infer_function_query's `expect` panics in every query that needs one."""
    f = F.fns.get("ide::def::scope::dependency_order_query")
    if f is None or not f.blocks:
        res.anchor_missing(rule, "ide::def::scope::dependency_order_query")
        return
    d = FL.Defs(f)
    calls = list(f.calls())
    start = [b for b, t in calls if FL.short(callee(t) or callee_def(t) or "") == "ModuleScope::declarations"]
    chain = set(start)
    # the chain ends where the functions are collected: what is done with the collection afterwards (`own.iter().position(..)` to find a
    # callee among them) is not a selection among the declarations
    TERMINAL = ("collect", "from_iter", "extend", "for_each", "count", "fold", "sum", "unzip", "partition")
    open_ = set(start)
    changed = True
    while changed:
        changed = False
        for b, t in calls:
            if b in chain or not t["args"]:
                continue
            o = d.origin_op(t["args"][0], ("Deref>::deref", "IntoIterator>::into_iter", "::by_ref"))
            srcs = [o] if o.get("k") != "multi" else [{"k": "call", "bb": dd[0]} for dd in o.get("defs", []) if dd[2] == "call"]
            if any(x.get("k") == "call" and x.get("bb") in open_ for x in srcs):
                chain.add(b)
                if FL.short(callee(t) or callee_def(t) or "").rsplit("::", 1)[-1] not in TERMINAL:
                    open_.add(b)
                changed = True
    loops = [f.natural_loop(tl, hd) for tl, hd in f.back_edges()]
    bad, names = [], []
    for b, t in calls:
        if b not in chain or b in start:
            continue
        nm = FL.short(callee(t) or callee_def(t) or "").rsplit("::", 1)[-1]
        names.append(nm)
        if nm == "next" and any(b in lp for lp in loops):
            continue
        if nm not in CHAIN_OK:
            bad.append("%s (line %s)" % (nm, t["ln"]))
        # the closure handed to the adaptor
        for a in t["args"][1:]:
            oa = d.origin_op(a) if isinstance(a, dict) and "k" not in a else {}
            if oa.get("k") == "agg" and oa["rv"].get("closure") in F.fns:
                cf = F.fns[oa["rv"]["closure"]]
                for _b2, t2 in cf.calls():
                    n2 = FL.short(callee(t2) or callee_def(t2) or "").rsplit("::", 1)[-1]
                    if n2 in SELECTORS:
                        bad.append("%s inside the closure of %s (line %s)" % (n2, nm, t2["ln"]))
    res.ob(rule, "groups-over-every-declaration", "every entry of every per-name list of ModuleScope::declarations() reaches the grouping of "
           "dependency_order_query: the iterator passes no selecting adaptor and no closure that picks an element of its item", bool(start) and
           len(chain) > len(start) and not bad, where=f.loc(), how="adaptors after declarations(): %s" % names if not bad else "selecting: %s" % bad)


# ---- Q9: no child is descended into twice
THROUGH = ("Clone>::clone", "Deref>::deref", "::iter", "IntoIterator>::into_iter", "Iterator>::next", "::get", "::first", "::last",
           "unwrap_or", "::as_ref", "::as_deref", "::as_slice", "::rev", "::enumerate", "::skip", "::cloned", "::copied", "::unwrap",
           "::expect", "Try>::branch", ">::index")


def _steps(o, d=None, depth=0):
    """(root parameter, steps) of an operand's origin: the field names projected and the elements selected on the way from a
    parameter to the operand. ('elem', selector, loop block): selector = a constant index, 'all' for an iterator or a computed
    index. Wrappers (`Some`, `Ok` and their payload field, clone/deref/unwrap) are left out."""
    if o.get("k") == "field":
        r = _steps(o["base"], d, depth + 1)
        if r is None:
            return None
        root, st = r
        st = list(st)
        names = [str(e.get("n", e.get("f", e.get("dc", "?")))) if isinstance(e, dict) else str(e) for e in o["proj"]]
        skip = False
        for n in names:
            if skip and n == "0":
                skip = False
                continue
            skip = n in ("Some", "Ok", "Continue")
            if not skip:
                st.append(n)
    elif o.get("k") == "arg":
        root, st = "arg%d" % o["n"], []
    elif o.get("k") == "call" and d is not None and depth < 12 and len(o["t"]["args"]) == 1 and \
            (callee(o["t"]) or "").startswith(("syntax::ast::", "<syntax::ast::")):
        # a typed accessor of the syntax tree: a named child of the node it is called on
        r = _steps(d.origin_op(o["t"]["args"][0], THROUGH), d, depth + 1)
        if r is None:
            return None
        root, st = r[0], list(r[1]) + [FL.short(callee(o["t"])) + "()"]
    else:
        return None
    for b, t in o.get("via_t", []):
        c = FL.short(callee(t) or callee_def(t) or "")
        last = c.rsplit("::", 1)[-1]
        if c.endswith("Iterator::next"):
            st.append(("elem", "all", b))
        elif last in ("get", "index") and len(t["args"]) > 1:
            k = t["args"][1].get("k") if isinstance(t["args"][1], dict) else None
            st.append(("elem", k["bits"] if k and "bits" in k else "all", None))
        elif last == "first":
            st.append(("elem", 0, None))
        elif last == "last":
            st.append(("elem", -1, None))
    return root, st


def _container(o, d=None):
    r = _steps(o, d)
    if r is None or not r[1] or all(isinstance(x, tuple) for x in r[1]) and r[0] == "arg1" and False:
        return None
    return (r[0], tuple(r[1]))


def _same_child(s1, s2):
    """None if the two sources cannot be the same child; else the loop block they share (conflict only inside one iteration)
    or 0 (conflict on any path)."""
    if s1[0] != s2[0] or len(s1[1]) != len(s2[1]):
        return None
    shared = 0
    for a, b in zip(s1[1], s2[1]):
        if isinstance(a, tuple) != isinstance(b, tuple):
            return None
        if not isinstance(a, tuple):
            if a != b:
                return None
            continue
        if a[2] is not None and a[2] == b[2]:
            shared = a[2]
        elif a[1] != "all" and b[1] != "all" and a[1] != b[1]:
            return None
    return shared


def no_double_descent(F, res, rule="Q9"):
    """Q9: the recursive functions walk trees the user wrote (type annotations, expressions, patterns). Q5 shows that each walk
    ends; this rule shows that it is linear: on one path through a function of a recursive cycle, no two calls into the cycle
    descend into the same child - the same element of the same field of the same parameter. Two descents into one child make
    the work double with every level of nesting: `List(List(..45 deep..))` took 2^45 steps in a loop without a cancellation
    point, so the query never answered and the next edit waited for it for ever.
    Sites in one loop body take different elements per iteration and conflict only inside one iteration; a loop over a field
    conflicts with any other descent into that field; `get(0)` and `get(1)` do not conflict."""
    cg = F.callgraph()

    def parent(p):
        return p.split("::{closure")[0]
    local = ("ide::", "<ide::", "syntax::", "<syntax::", "glas::", "<glas::")
    nodes = {parent(p) for p, f in F.fns.items() if f.blocks and p.startswith(local)}
    adj = {n: set() for n in nodes}
    for p, cs in cg.items():
        if parent(p) in adj:
            adj[parent(p)] |= {parent(c) for c in cs if parent(c) in adj}
    import sys
    sys.setrecursionlimit(100000)
    index, low, on, stack, comps, cnt = {}, {}, set(), [], [], [0]

    def sc(v):
        index[v] = low[v] = cnt[0]
        cnt[0] += 1
        stack.append(v)
        on.add(v)
        for w in sorted(adj[v]):
            if w not in index:
                sc(w)
                low[v] = min(low[v], low[w])
            elif w in on:
                low[v] = min(low[v], index[w])
        if low[v] == index[v]:
            comp = []
            while True:
                w = stack.pop()
                on.discard(w)
                comp.append(w)
                if w == v:
                    break
            if len(comp) > 1 or v in adj[v]:
                comps.append(sorted(comp))
    for v in sorted(nodes):
        if v not in index:
            sc(v)
    sccof = {p: i for i, cm in enumerate(comps) for p in cm}
    res.floor("recursive cycles of the call graph (closures folded into their functions)", len(comps), 100)
    nsites = nfn = 0
    for p, f in sorted(F.fns.items()):
        if not f.blocks or parent(p) not in sccof or f.d["span"].get("exp"):
            continue
        d = FL.Defs(f)
        sites = []
        for b, t in f.calls():
            c = callee(t)
            if not c or "{closure" in c or sccof.get(parent(c)) != sccof[parent(p)]:
                continue
            srcs = {s for s in (_container(d.origin_op(a, THROUGH), d) for a in t["args"]) if s}
            if f.kind == "Closure":
                # the first parameter of a closure is its environment: a captured variable is what it is in the enclosing
                # function - a plain parameter or local there (`self`, `body`, a scope) is context handed to every call,
                # not a child of the input; a captured field of a parameter is that child
                mapped = set()
                for root, st in srcs:
                    if root != "arg1" or not st or isinstance(st[0], tuple) or not str(st[0]).isdigit():
                        mapped.add((root, st))
                        continue
                    pf, po = FL.upvar_origin(F, p, int(st[0]))
                    up = _container(po, FL.Defs(pf)) if pf is not None and po else None
                    if up is not None:
                        mapped.add(("up:" + up[0], tuple(up[1]) + tuple(st[1:])))
                    elif len(st) > 1:
                        mapped.add(("up:env%s" % st[0], tuple(st[1:])))
                srcs = mapped
                if not srcs:
                    continue
            if srcs:
                sites.append((b, t, srcs))
        if not sites:
            continue
        nfn += 1
        nsites += len(sites)
        bad = []
        for i, (b1, t1, s1) in enumerate(sites):
            for b2, t2, s2 in sites[i + 1:]:
                for x1 in s1:
                    for x2 in s2:
                        it = _same_child(x1, x2)
                        if it is None:
                            continue
                        if it:
                            # one loop: the sites take the same element only inside one iteration
                            hit = b1 != b2 and (f.can_reach(b1, [b2], avoid=[it]) or f.can_reach(b2, [b1], avoid=[it]))
                        else:
                            hit = b1 == b2 or f.can_reach(b1, [b2]) or f.can_reach(b2, [b1])
                        if hit:
                            bad.append("%s.%s is descended into at line %d and again at line %d" % (
                                x1[0], ".".join(y if isinstance(y, str) else "[%s]" % y[1] for y in x1[1]), t1["ln"], t2["ln"]))
        res.ob(rule, "single-descent/" + FL.short(p), "no path through %s descends twice into the same child of its input" % FL.short(p),
               not bad, where=f.loc(), how="; ".join(sorted(set(bad))) if bad else "%d descents from fields of the parameters, pairwise into different children" % len(sites))
    res.floor("recursive functions that descend into fields of their parameters", nfn, 18)
    res.analysed["descents_from_parameter_fields"] = nsites


# ---- Q10: a cycle of the query graph must not be able to happen
def _closure_tests(F, f, d):
    """switches on the answer of a membership test whose receiver comes from the import_closure query: [(block of the test, target
    when the importer is in the closure, target when it is not)]"""
    out = []
    for b, t in f.calls():
        if t.get("dty") != "bool" or not t["args"]:
            continue
        dep = FL.depends(F, f, d, t["args"][0])
        if not any(x.endswith("import_closure") for x in dep["calls"]):
            continue
        for sb in range(len(f.blocks)):
            st = f.term(sb)
            if f.blocks[sb]["cleanup"] or st.get("k") != "switch":
                continue
            o = d.origin_op(st["op"])
            if o.get("k") == "call" and o.get("bb") == b:
                e = dict(FL.switch_edges(st))
                out.append((b, e.get("otherwise"), e.get(0)))
    return out


def cycles_are_cut(F, res, sccs=None, rule="Q10"):
    """Q10: cycle recovery (#[salsa::cycle], Q3) only works while a query of the cycle *executes*. When salsa re-validates a
    memoised result that lies on a cycle - after any edit - the query is marked in progress without being on the query stack,
    the cycle comes back to it and salsa 0.17 panics (runtime.rs report_unexpected_cycle: rposition(..).unwrap()); every query
    touching the modules panics until one of them is edited. So each cycle of the static query graph needs a cut that keeps it
    from happening on any workspace:
      module_scope <-> module_scope_with_map: the scope of another module is asked for, and the name of another module is made
        resolvable, only after the import_closure query (which reads import lists only and is on no cycle) said that the
        imported module does not import the importer back;
      infer_function <-> infer_function_group: the type of another function is asked for only after the function was not found
        in the group being inferred (functions of other modules are reachable through resolved imports only, cut above).
    A new cycle without a registered cut is reported."""
    from lib import inline as IL
    if sccs is None:
        sccs = query_graph(F)[3]
    known = {}

    def scope_cut():
        f0 = F.fn("ide::def::scope::module_scope_with_map_query")
        f = IL.inlined(F, f0, want=lambda p: p.startswith("ide::def::scope::") and "import_closure_query" not in p, depth=2)
        d = FL.Defs(f)
        tests = _closure_tests(F, f, d)
        asks = [(b, t) for b, t in f.calls() if (callee(t) or callee_def(t) or "").endswith("DefDatabase::module_scope")]
        why = []
        if not tests:
            why.append("no membership test on the answer of import_closure")
        if not asks:
            why.append("no module_scope call found (anchor)")
        for b, t in asks:
            if not any(no is not None and yes is not None and f.dominates(no, b) and not f.dominates(yes, b) and no != yes for _tb, yes, no in tests):
                why.append("module_scope asked at line %d without the import_closure test having answered no" % t["ln"])
        # module names: an insertion into the name -> file map happens, in one iteration, only if a test said `not cyclic` or
        # the file is the importer itself
        ins = [(b, t) for b, t in f.calls() if "IndexMap::<smol_str::SmolStr, ide::base::FileId>::insert" in ((t.get("fn") or {}).get("full") or "")]
        if not ins:
            why.append("no insertion into ModuleScope.modules found (anchor)")
        nexts = [b for b, t in f.calls() if FL.short(callee(t) or callee_def(t) or "").endswith("Iterator::next")]
        for b, t in ins:
            heads = [n for n in nexts if f.can_reach(n, [b]) and f.can_reach(b, [n])]
            for _tb, yes, no in tests:
                if yes is not None and f.can_reach(yes, [b], avoid=heads):
                    why.append("the module name is inserted at line %d although import_closure contained the importer" % t["ln"])
            free = [x for _tb, yes, no in tests for x in [no] if x is not None]
            # the only other way to the insertion: the imported file is the importer (a module importing itself keeps its name)
            selfs = []
            for sb in range(len(f.blocks)):
                st = f.term(sb)
                if f.blocks[sb]["cleanup"] or st.get("k") != "switch":
                    continue
                o = d.origin_op(st["op"])
                if o.get("k") == "call" and FL.short(callee(o["t"]) or callee_def(o["t"]) or "").rsplit("::", 1)[-1] in ("ne", "eq"):
                    e = dict(FL.switch_edges(st))
                    same = e.get(0) if FL.short(callee(o["t"]) or callee_def(o["t"])).endswith("ne") else e.get("otherwise")
                    if same is not None:
                        selfs.append(same)
            for h in heads:
                if f.can_reach(h, [b], avoid=free + selfs + [x for x in heads if x != h]) and h not in free + selfs:
                    # a path from the loop head to the insertion that passes neither a `not cyclic` answer nor `same file`
                    # (ignore the trivial case where the insertion is itself the avoided block)
                    if b not in free + selfs:
                        why.append("the module name is inserted at line %d on a path without the import_closure test" % t["ln"])
        return not why, "; ".join(why) or "%d module_scope calls and %d name insertions, each behind the import_closure test (%d tests)" % (len(asks), len(ins), len(tests))

    def infer_cut():
        ASK = ("hir::Function::ty", "TyDatabase::infer_function", "TyDatabase::infer_function_group")

        def group_gated(fn_, d_, b):
            for g in FL.gates(F, fn_, [b], d_):
                gc = FL.short(g.get("callee") or "")
                if gc.rsplit("::", 1)[-1] in ("find", "position", "contains", "any") and g["allowed"] in (["None"], [False]) and g.get("call_t"):
                    dep = FL.fields_feeding(F, fn_, d_, g["call_t"]["args"][0], "InferCtx") if g["call_t"]["args"] else set()
                    if "group" in {str(x).rsplit(".", 1)[-1] for x in dep}:
                        return True
            return False
        methods = {p: f for p, f in F.fns.items() if p.startswith("ide::ty::infer::InferCtx") and f.blocks}
        why, n = [], 0

        def check_site(p, f, b, t, depth):
            """a site that asks for another function's type (directly, or through a helper of InferCtx that does) is behind a
            failed look-up in the group - or the function holding it is such a helper, and all of its call sites are"""
            d = FL.Defs(f)
            if group_gated(f, d, b):
                return True
            if depth >= 2 or "{closure" in p:
                return False
            sites = [(q, g, b2, t2) for q, g in methods.items() for b2, t2 in g.calls() if callee(t2) == p]
            return bool(sites) and all(check_site(q, g, b2, t2, depth + 1) for q, g, b2, t2 in sites)
        for p, f in sorted(methods.items()):
            for b, t in f.calls():
                c = callee(t) or callee_def(t) or ""
                if not c.endswith(ASK):
                    continue
                n += 1
                if not check_site(p, f, b, t, 0):
                    why.append("%s asks for the type of a function at line %d without having looked it up in the group being inferred" % (FL.short(p), t["ln"]))
        if n < 1:
            why.append("no type lookups of functions found in InferCtx (anchor)")
        return not why, "; ".join(why) or "%d lookups of another function's type, each (or every call of the helper holding it) after the group was searched without success" % n

    # both cuts lean on the import closure: it has to follow every import statement (a module accessor `b.g()` makes the types of
    # two modules depend on each other just as an unqualified import does)
    cq = F.fns.get("ide::def::scope::import_closure_query")
    if cq is None or not cq.blocks:
        res.ob(rule, "cut/import-closure/exists", "the queries on a cycle ask an acyclic query over the import statements alone whether they may ask each other",
               False, where="crates/ide/src/def/scope.rs", how="ide::def::scope::import_closure_query does not exist: nothing cuts the import cycle")
        looks, dq = [], None
    else:
        dq = FL.Defs(cq)
        looks = [(b, t) for b, t in cq.calls() if (callee(t) or "").endswith("file_for_module_name")]
        # the look-up may sit in a closure handed to an adaptor over the import list (`.filter_map(|(_, import)| map.file_for(..))`):
        # then the list is whatever that adaptor is applied to
        hosted = []
        for cp in F.closures_of(cq.path):
            cf = F.fns.get(cp)
            if cf is None or not cf.blocks or not any((callee(t2) or "").endswith("file_for_module_name") for _b2, t2 in cf.calls()):
                continue
            for b, t in cq.calls():
                for a in t["args"]:
                    oa = dq.origin_op(a) if isinstance(a, dict) and "k" not in a else {}
                    if oa.get("k") == "agg" and oa["rv"].get("closure") == cp:
                        hosted.append((b, t))
        res.floor("module look-ups in import_closure_query", len(looks) + len(hosted), 1)
    for k, (b, t) in enumerate(looks + [(b_, dict(t_, hosted=True)) for b_, t_ in (hosted if cq is not None and cq.blocks else [])]):
        dep = FL.depends(F, cq, dq, t["args"][0] if t.get("hosted") else t["args"][-1], use_bb=b)
        whole = any(x.endswith("module_imports") for x in dep["calls"])
        sel = sorted(x for x in dep["calls"] if x.rsplit("::", 1)[-1] in ("unqualified_imports", "filter", "filter_map", "take", "skip", "take_while",
                                                                           "skip_while", "find", "first", "last", "nth", "step_by"))
        res.ob(rule, "cut/import-closure/every-import/%d" % k, "the import closure follows every import statement of a module (the table module_imports(), "
               "nothing selected from it): two modules that import each other in any form are seen as a cycle", whole and not sel,
               where=cq.loc(t["ln"]), how="the module name looked up comes from module_imports(): %s; selecting calls: %s" % (whole, sel))
    if cq is not None and cq.blocks:
        # the closure and the scope query look an import up by the same thing. The closure is what the scope query asks before it
        # follows an import: an import it resolves and the closure does not (`import util/b` looked up as `b` there) is a cycle
        # the cut does not see
        def key_fields(fn):
            out = []
            units = [fn] + [F.fns[c] for c in F.closures_of(fn.path) if c in F.fns]
            for u in units:
                du = FL.Defs(u)
                for b_, t_ in u.calls():
                    if (callee(t_) or "").endswith("file_for_module_name") and len(t_["args"]) >= 2:
                        out.append(frozenset(str(x) for x in FL.fields_feeding(F, u, du, t_["args"][-1], "ModuleImport")))
            return out
        msq = F.fns.get("ide::def::scope::module_scope_with_map_query")
        a_, b_ = key_fields(cq), key_fields(msq) if msq is not None else []
        res.ob(rule, "cut/import-closure/same-key", "import_closure_query looks an imported module up by the same field(s) of the import as "
               "module_scope_with_map_query does (what one resolves the other follows)", bool(a_) and bool(b_) and set(a_) == set(b_), where=cq.loc(),
               how="closure looks up by %s, the scope query by %s" % (sorted(map(sorted, a_)), sorted(map(sorted, b_))))
        # the walk ends when the work list is empty, not before: the only way out of the loop is the empty answer of the list
        exits = []
        loops_by_head = {}
        for tl, hd in cq.back_edges():
            loops_by_head.setdefault(hd, set()).update(cq.natural_loop(tl, hd))
        for hd, lp in sorted(loops_by_head.items()):
            for x in sorted(lp):
                for y in cq.succ(x):
                    if y not in lp and not cq.blocks[y].get("cleanup"):
                        exits.append((x, y))
        pops = {t_.get("target") for b_, t_ in cq.calls() if FL.short(callee(t_) or callee_def(t_) or "").rsplit("::", 1)[-1] in ("pop", "pop_front", "pop_back", "next")}
        dq2 = FL.Defs(cq)
        bad_exit = []
        for x, y in exits:
            tt = cq.term(x)
            ok = False
            if tt["k"] == "switch":
                o_ = dq2.origin_op(tt["op"])
                if o_.get("k") == "rv" and o_["rv"].get("k") == "discr":
                    po = dq2.origin_place(o_["rv"]["place"])
                    ok = po.get("k") == "call" and FL.short(callee(po["t"]) or callee_def(po["t"]) or "").rsplit("::", 1)[-1] in ("pop", "pop_front", "pop_back", "next")
            if not ok and tt["k"] not in ("drop",):
                bad_exit.append(cq.loc(tt.get("ln")) if tt.get("ln") else str(x))
        # and it follows every import it can resolve: the only decisions of the walk are "seen before", "the work list is empty" and
        # "the import names a module" (a walk that stays inside the importer's package does not see a cycle through another one)
        from rules import c06 as _c06
        unit_ = [cq] + [F.fns[c] for c in F.closures_of(cq.path) if c in F.fns]
        found_ = set()
        for u_ in unit_:
            found_ |= _c06.decision_names(F, u_)
        WALK = ("BTreeSet::insert", "HashSet::insert", "IndexSet::insert", "Vec::pop", "VecDeque::pop_front", "VecDeque::pop_back", "ModuleMap::file_for_module_name",
                "adaptor:Iterator::filter_map", "adaptor:Iterator::flat_map", "adaptor:Iterator::flatten", "BTreeSet::contains", "HashSet::contains", "Not")
        odd_ = sorted(n_ for n_ in found_ if not (n_.startswith(_c06.SEARCH_PLUMBING) or n_ in _c06.SEARCH_PLUMBING or n_ in WALK or
                                                  all(x in WALK or x in _c06.SEARCH_PLUMBING or x.startswith(_c06.SEARCH_PLUMBING) for x in re.split(r"[(), ]+", n_) if x and x not in ("Eq", "Ne", "Not"))))
        res.ob(rule, "cut/import-closure/follows-what-it-resolves", "the walk over the imports decides nothing but: seen before, work list empty, the import names a module",
               not odd_, where=cq.loc(), how="decisions: %s" % sorted(found_) if not odd_ else "other decisions (an import that resolves may not be followed): %s" % odd_)
        res.ob(rule, "cut/import-closure/walks-to-the-end", "the walk over the imports leaves its loop only when the work list is empty (a module met twice is "
               "skipped, not the end of the walk)", bool(exits) and not bad_exit, where=cq.loc(), how="%d exit edge(s), all on the empty answer of the work list" % len(exits)
               if not bad_exit else "other exits: %s" % bad_exit)
    known["ModuleScopeQuery+ModuleScopeWithMapQuery"] = scope_cut
    known["InferFunctionGroupQuery+InferFunctionQuery"] = infer_cut
    for comp in sccs:
        key = "+".join(q.rsplit("::", 1)[-1] for q in comp)
        if key in known:
            ok, why = known[key]()
        else:
            ok, why = False, "no cut is known for this cycle of the query graph: recovery alone does not survive memo validation"
        res.ob(rule, "cut/" + key, "this cycle of the query graph cannot happen on any workspace (salsa panics when it re-validates a memo "
               "on a cycle, recovery or not)", ok, where="crates/ide/src/def/scope.rs, crates/ide/src/ty/infer.rs", how=why)


def every_file_has_a_tree_of_its_own(F, res, rule="Q13"):
    """Q13: Semantics identifies the file a node belongs to by the identity of the tree's root (reviewed assert in
    Semantics::cache: "two files never share one parse result"). That holds because the parse query is keyed by the file:
    every call of syntax::parse_module in crate ide sits in a function whose key parameter is a FileId and whose text comes
    from file_content of that very key. A parse memoised by the text itself hands two files with identical text one tree,
    and references / highlight / rename on them die in that assert."""
    n, bad = 0, []
    for p_, f in sorted(F.fns.items()):
        if not p_.startswith(("ide::", "<ide::")) or not f.blocks or "::tests::" in p_ or p_.startswith("ide::tests"):
            continue
        d = None
        for b, t in f.calls():
            if (callee(t) or "") != "syntax::parser::parse_module":
                continue
            d = d or FL.Defs(f)
            n += 1
            keyed = [i for i in range(1, f.d["arg_count"] + 1) if "FileId" in str(f.local_ty(i) or "")]
            dep = FL.depends(F, f, d, t["args"][0], use_bb=b)
            from_key = any(c.endswith("file_content") for c in dep["calls"]) and bool(set(keyed) & set(dep["args"]))
            if not keyed or not from_key:
                bad.append("%s: key parameters %s, text depends on %s" % (FL.short(p_), [str(f.local_ty(i)) for i in range(1, f.d["arg_count"] + 1)][1:],
                                                                      sorted(FL.short(c) for c in dep["calls"])[:4]))
    res.ob(rule, "parse/keyed-by-file", "a syntax tree is built per file: parse_module is called on file_content(file) in a function keyed by that FileId",
           n >= 1 and not bad, where="crates/ide/src/def/mod.rs", how="parse_module calls in crate ide: %d; %s" % (n, "; ".join(bad) if bad else "each keyed by its file"))
