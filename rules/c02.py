"""C02 — Parsing terminates without panic or abort on every input."""
from lib import pcache
from lib import flow as FL
from lib.facts import op_local, callee, op_place
from rules import parser_model as PM

META = {
    "level": "other",
    "technique": "static analysis: abstract interpretation of the parser's MIR over token-kind sets (engine P) + model/shape checks of the parser primitives",
    "rule": "P1 every assert!/bump precondition holds in every reachable context; P2 every loop consumes a "
            "token per iteration; P3 no recursion cycle without consumption; P4 fuel exceeds the largest "
            "number of look-aheads between two consumptions; P5 nesting depth / return-path look-ahead is "
            "bounded; P6 every other panic-capable construct reachable from parse_module in crate syntax is "
            "discharged by a rule or reviewed with its guard signature, and the lexer callback advances logos by "
            "a byte length; P7 every opened mark is finished exactly once; M the seven leaf primitives have the "
            "modelled shape. One obligation per site; non-trivial = decided by the abstract interpreter. P6's roots include the hand-written callbacks of the logos-generated lexer.",
    "explanation": "Engine P interprets the MIR of every function of syntax::parser on a nondeterministic token "
                   "oracle (the current token is one of the 66 kinds the lexer can deliver or EOF; it is refined "
                   "by every test the parser makes and forgotten at every consumption; look-ahead beyond the "
                   "current token is unknown). Per-context summaries reach a least fixpoint, so every token "
                   "sequence is covered. Obligations P1-P4, P7 and M together imply that parse_module returns "
                   "for every input whose nesting depth is bounded; P5: a nesting guard found by role cuts every recursive "
                   "cycle, the look-aheads made on the way back out stay below the fuel, and the wraps of postfix / binary operators are charged to a "
                   "budget that never falls within an activation (tree depth <= limit x nodes per level). P8 = C14 U12 (engine U). P5a also: the wrap budget is asked (and charged) only behind a decision on the current token.",
    "not_decided": "panics inside logos/rowan.",
    "trusted_base": ["rustc MIR construction, callee resolution, const evaluation",
                     "logos emits only kinds that carry #[token]/#[regex]/#[error]",
                     "look-ahead beyond the current token is treated as arbitrary (over-approximation)"],
    "assumptions": ["panics in dependencies are out of scope"],
}

ROOT = "syntax::parser::parse_module"


def fuel_constants(F):
    """(value of the Cell that becomes Parser.fuel in parse_module, value in bump's fuel.set)"""
    pm = F.fn(ROOT)
    d = FL.Defs(pm)
    init = None
    for b, i, s_ in pm.stmts():
        rv = s_.get("rv") or {}
        if rv.get("k") == "agg" and (rv.get("adt") or "") == PM.PA and "fuel" in (rv.get("fields") or []):
            o = d.origin_op(rv["ops"][rv["fields"].index("fuel")])
            if o.get("k") == "call" and (callee(o["t"]) or "").endswith("Cell::<T>::new"):
                k = o["t"]["args"][0].get("k")
                if k and "bits" in k:
                    init = int(k["bits"])
    bump = F.fn(PM.P + "bump")
    refill = None
    for b, t in bump.calls():
        if (callee(t) or "").endswith("Cell::<T>::set"):
            k = t["args"][1].get("k")
            if k and "bits" in k:
                refill = int(k["bits"])
    return init, refill


DEREF = ("Deref>::deref", "Deref::deref")


def cell_field(d, op):
    """name of the field of the function's first parameter (self) whose Cell this operand refers to, through Rc / & derefs"""
    o = d.origin_op(op, through_calls=DEREF)
    if o.get("k") == "field" and o["base"].get("k") == "arg" and o["base"].get("n") == 1:
        names = [e.get("n") for e in o["proj"] if isinstance(e, dict) and "f" in e]
        if len(names) == 1:
            return names[0]
    return None


def counter_tests(f, d):
    """comparisons `Cell::get(self.<field>) <op> constant` that decide a branch: [{field, limit, deep, ok, bb}] where `deep` is the
    edge taken when the counter has reached the limit"""
    out = []
    for b, i, s_ in f.stmts():
        rv = s_.get("rv") or {}
        if rv.get("k") != "bin" or rv["op"] not in ("Ge", "Gt", "Lt", "Le"):
            continue
        ka, kb = rv["a"].get("k") if isinstance(rv["a"], dict) else None, rv["b"].get("k") if isinstance(rv["b"], dict) else None
        const = kb if isinstance(kb, dict) and "bits" in kb else (ka if isinstance(ka, dict) and "bits" in ka else None)
        if const is None:
            continue
        other = rv["a"] if const is kb else rv["b"]
        oo = d.origin_op(other) if isinstance(other, dict) and "k" not in other else {}
        if not (oo.get("k") == "call" and (callee(oo["t"]) or "").endswith("Cell::<T>::get")):
            continue
        t = f.term(b)
        if not (t["k"] == "switch" and op_local(t["op"]) == s_["place"]["l"]):
            continue
        n = int(const["bits"])
        counter_left = const is kb
        true_t, false_t = t["otherwise"], [x for v, x in t["targets"] if int(v) == 0][0]
        op = rv["op"] if counter_left else {"Ge": "Le", "Gt": "Lt", "Le": "Ge", "Lt": "Gt"}[rv["op"]]
        if op in ("Ge", "Gt"):
            deep, ok_edge, limit = true_t, false_t, (n if op == "Ge" else n + 1)
        else:
            deep, ok_edge, limit = false_t, true_t, (n if op == "Lt" else n + 1)
        out.append({"field": cell_field(d, oo["t"]["args"][0]), "limit": limit, "deep": deep, "ok": ok_edge, "bb": b})
    return out


def cell_writes(f, d):
    """[(bb, field, how, value origin)] for Cell::set / Cell::replace on a field of self; how = 'inc' (stores get(same field) + 1),
    'dec', 'max' (the larger of get(same field) and something else), 'from:<field>' (stores get(other field), possibly plus a
    constant), or 'other'. Locals that hold a value read earlier (`let level = self.depth.get(); .. set(level + 1)`) are followed."""
    out = []

    def feeds(o, depth=0):
        """(cell field read, constant added) of a value, or None"""
        if depth > 8:
            return None
        base = o
        while base.get("k") == "field":
            base = base["base"]
        if base.get("k") == "call":
            c = callee(base["t"]) or ""
            if c.endswith("Cell::<T>::get"):
                return cell_field(d, base["t"]["args"][0]), 0
            return None
        if base.get("k") == "rv" and base["rv"].get("k") == "bin" and base["rv"]["op"] in ("AddWithOverflow", "Add", "SubWithOverflow", "Sub"):
            a, b_ = base["rv"]["a"], base["rv"]["b"]
            kb = b_.get("k") if isinstance(b_, dict) else None
            if isinstance(kb, dict) and "bits" in kb and isinstance(a, dict) and "k" not in a:
                r = feeds(d.origin_op(a), depth + 1)
                if r:
                    n_ = int(kb["bits"])
                    return r[0], r[1] + (n_ if base["rv"]["op"].startswith("Add") else -n_)
            return None
        if base.get("k") == "rv" and base["rv"].get("k") in ("use", "cast"):
            op_ = base["rv"].get("op")
            if isinstance(op_, dict) and "k" not in op_:
                return feeds(d.origin_op(op_), depth + 1)
        return None
    for b, t in f.calls():
        c = callee(t) or ""
        if not c.endswith(("Cell::<T>::set", "Cell::<T>::replace")):
            continue
        fld = cell_field(d, t["args"][0])
        o = d.origin_op(t["args"][1])
        base = o
        while base.get("k") == "field":
            base = base["base"]
        how = "other"
        r = feeds(o)
        if r and r[0] is not None:
            if r[0] == fld and r[1] == 1:
                how = "inc"
            elif r[0] == fld and r[1] == -1:
                how = "dec"
            elif r[0] != fld:
                how = "from:%s" % r[0]
        elif base.get("k") == "call" and (callee(base["t"]) or "").endswith(("Ord::max", "cmp::max")) and fld is not None:
            if any((feeds(d.origin_op(a)) or (None, 0))[0] == fld for a in base["t"]["args"] if isinstance(a, dict) and "k" not in a):
                how = "max"
        out.append((b, fld, how, o))
    return out


def nesting_guard(F):
    """The Parser method that bounds the nesting, found by what it does: it hands out an Option of a token type that has a Drop impl,
    reads a counter field of the parser (Cell::get), compares it with a constant N, stores counter + 1 only on the side where the
    counter is below N, and the token's Drop stores counter - 1 into the same cell. Returns {method, field, limit, token, releases,
    increment_only_below_limit, token_fields (token field -> parser field it shares a cell with)} or None."""
    import re as _re
    for p_, f in sorted(F.fns.items()):
        if not p_.startswith(PM.P) or not f.blocks or "{closure" in p_:
            continue
        m = _re.search(r"Option<([\w:]+)>", f.d.get("output") or "")
        if not m:
            continue
        token = m.group(1)
        g = F.fns.get("<%s as core::ops::drop::Drop>::drop" % token)
        if g is None or not g.blocks:
            continue
        d = FL.Defs(f)
        writes = cell_writes(f, d)
        for ct in counter_tests(f, d):
            fld = ct["field"]
            inc = [b for b, wf, how, _o in writes if wf == fld and how == "inc"]
            if fld is None or fld == "fuel" or not inc:
                continue
            inc_on_deep = any(f.can_reach(ct["deep"], [b]) or b == ct["deep"] for b in inc)
            inc_on_ok = any(f.can_reach(ct["ok"], [b]) or b == ct["ok"] for b in inc)
            # which cell of the parser each field of the token shares: the token is built from clones of the parser's Rc fields
            token_fields, saved = {}, {}
            for b, i, s_ in f.stmts():
                rv = s_.get("rv") or {}
                if rv.get("k") == "agg" and rv.get("adt") == token:
                    names = rv.get("fields") or []
                    for n_, o_ in zip(names, rv["ops"]):
                        oo = d.origin_op(o_, through_calls=("Clone>::clone", "Clone::clone"))
                        if oo.get("k") == "field" and oo["base"].get("k") == "arg":
                            pf = [e.get("n") for e in oo["proj"] if isinstance(e, dict) and "f" in e]
                            if len(pf) == 1:
                                token_fields[n_] = pf[0]
                        elif oo.get("k") == "call" and (callee(oo["t"]) or "").endswith(("Cell::<T>::replace", "Cell::<T>::get")):
                            saved[n_] = cell_field(d, oo["t"]["args"][0])
            dg = FL.Defs(g)
            gw = cell_writes(g, dg)
            releases = any(token_fields.get(wf) == fld and how == "dec" for _b, wf, how, _o in gw)
            return {"method": p_, "field": fld, "limit": ct["limit"], "token": token, "releases": releases,
                    "increment_only_below_limit": inc_on_ok and not inc_on_deep, "line": f.line,
                    "token_fields": token_fields, "saved": saved, "writes": [(wf, how) for _b, wf, how, _o in writes],
                    "drop_writes": [(token_fields.get(wf, wf), how) for _b, wf, how, _o in gw]}
    return None


def wrap_budget(F, guard):
    """The Parser method that says whether one more wrap is allowed, found by what it does: it answers bool and compares a counter
    of the parser with the guard's limit. {method, field, counts (every accepting path stores counter + 1; no refusing path does),
    monotone (within one activation the counter never falls: the guard may re-base it on the level counter when a level is entered,
    but the token's Drop then stores the larger of what the level reached and what was saved), other_writers}"""
    from lib import effects as EF
    for p_, f in sorted(F.fns.items()):
        if not p_.startswith(PM.P) or not f.blocks or "{closure" in p_ or p_ == guard["method"] or f.d.get("output") != "bool":
            continue
        d = FL.Defs(f)
        for ct in counter_tests(f, d):
            if ct["limit"] != guard["limit"] or ct["field"] in (None, "fuel"):
                continue
            fld = ct["field"]
            writes = cell_writes(f, d)
            inc = [b for b, wf, how, _o in writes if wf == fld and how == "inc"]
            stray = [how for b, wf, how, _o in writes if wf == fld and how != "inc"]
            rets_true = [b for b, i, s_ in f.stmts() if s_["k"] == "assign" and s_["place"]["l"] == 0 and not s_["place"]["p"] and
                         isinstance((s_["rv"].get("op") or {}).get("k"), dict) and str(s_["rv"]["op"]["k"].get("bits")) == "1"]
            counts = bool(inc) and not stray and not any(f.can_reach(ct["deep"], [b]) or b == ct["deep"] for b in inc) and \
                bool(rets_true) and all(FL.must_pass(f, inc, [b]) for b in rets_true) and \
                not any(f.can_reach(ct["deep"], [b]) or b == ct["deep"] for b in rets_true)
            # the counter is the level counter itself (old form `depth + wraps`): not a budget that is charged
            if fld == guard["field"]:
                counts = False
            # who else writes this cell
            problems = []
            gw = [(wf, how) for wf, how in guard["writes"] if wf == fld]
            for wf, how in gw:
                if how != "from:%s" % guard["field"]:
                    problems.append("%s stores %s into %s" % (FL.short(guard["method"]), how, fld))
            rebased = bool(gw)
            dw = [(wf, how) for wf, how in guard["drop_writes"] if wf == fld]
            for wf, how in dw:
                if how != "max":
                    problems.append("the Drop of %s stores %s into %s" % (guard["token"].rsplit("::", 1)[-1], how, fld))
            if rebased and not dw:
                problems.append("%s re-bases %s when a level is entered and nothing brings the enclosing construct's count back when it is left" % (FL.short(guard["method"]), fld))
            if rebased and not any(v == fld for v in guard["saved"].values()):
                problems.append("the value of %s that %s overwrites is not kept in the token" % (fld, FL.short(guard["method"])))
            others = []
            for q_, h in sorted(F.fns.items()):
                if not (q_.startswith("syntax::") or q_.startswith("<syntax::")) or not h.blocks or q_ in (p_, guard["method"]) or \
                        q_ == "<%s as core::ops::drop::Drop>::drop" % guard["token"]:
                    continue
                if not any((callee(t) or "").endswith(("Cell::<T>::set", "Cell::<T>::replace", "Cell::<T>::take", "Cell::<T>::swap")) for _b, t in h.calls()):
                    continue
                dh = FL.Defs(h)
                for b, t in h.calls():
                    if (callee(t) or "").endswith(("Cell::<T>::set", "Cell::<T>::replace", "Cell::<T>::take", "Cell::<T>::swap")):
                        o = dh.origin_op(t["args"][0], through_calls=DEREF)
                        names = [e.get("n") for e in (o.get("proj") or []) if isinstance(e, dict) and "f" in e] if o.get("k") == "field" else []
                        if fld in names:
                            others.append(FL.short(q_))
            if others:
                problems.append("also written in %s" % sorted(set(others)))
            return {"method": p_, "field": fld, "counts": counts, "monotone": not problems, "problems": problems, "line": f.line}
    return None


def guarded_functions(F, guard, members):
    """functions of a recursive cycle whose calls into the cycle all sit behind the accepting answer of the nesting guard, and
    that keep the token alive until they return (it is a local that is only dropped)"""
    out = {}
    for p_ in members:
        f = F.fn(p_)
        d = FL.Defs(f)
        gc = [(b, t) for b, t in f.calls() if (callee(t) or "") == guard["method"]]
        if len(gc) != 1:
            continue
        gb, gt = gc[0]
        rec = [(b, t) for b, t in f.calls() if (callee(t) or "") in members]
        ok = True
        for b, t in rec:
            gs = FL.gates(F, f, [b], d)
            if not any((g.get("callee") or "") == guard["method"] and g.get("allowed") == ["Some"] for g in gs):
                ok = False
        # the token: the payload of the Some answer; never an argument of a call (forget, a move into a callee)
        tok_locals = {s_["place"]["l"] for b, i, s_ in f.stmts() if s_["k"] == "assign" and not s_["place"]["p"] and
                      guard["token"] and (f.local_ty(s_["place"]["l"]) or "") == guard["token"]}
        moved = [FL.short(callee(t) or callee_def(t) or "") for b, t in f.calls() for a in t["args"] if op_local(a) in tok_locals]
        out[p_] = ok and not moved and bool(tok_locals)
    return out


def budget_discharge(F, f, b, kind, detail, defs):
    """`wraps += 1` (a u32 counted up by one) on a path where the wrap budget accepted that very counter: Parser::can_wrap(wraps)
    answered true, i.e. level + wraps < MAX_NESTING. Holds wherever a refactoring puts the loop (a helper, another loop form)."""
    if kind != "assert" or not str(detail).startswith("Overflow"):
        return None
    t = f.term(b)
    co = defs.origin_op(t["cond"]) if "cond" in t else {}
    base = co
    while base.get("k") == "field":
        base = base["base"]
    if not (base.get("k") == "rv" and base["rv"]["k"] == "bin" and base["rv"]["op"] == "AddWithOverflow"):
        return None
    kb = base["rv"]["b"].get("k") if isinstance(base["rv"]["b"], dict) else None
    if not (isinstance(kb, dict) and str(kb.get("bits")) == "1"):
        return None
    guard = nesting_guard(F)
    if not guard:
        return None
    ka = FL.origin_key(defs.origin_op(base["rv"]["a"]))
    for g in FL.gates(F, f, [b], defs):
        ct = g.get("call_t")
        if not ct or g.get("allowed") != [True]:
            continue
        c = callee(ct) or ""
        h = F.fns.get(c)
        if h is None or not c.startswith(PM.P) or h.d.get("output") != "bool" or c == guard["method"]:
            continue
        if not any((callee(t2) or "").endswith("Cell::<T>::get") for _b2, t2 in h.calls()):
            continue
        # the counter handed to the budget test is the one counted up here
        if len(ct["args"]) >= 2 and FL.origin_key(defs.origin_op(ct["args"][1])) == ka and ka is not None:
            return "the wrap budget accepted this counter on the way here (%s answered true: level + wraps < %s)" % (FL.short(c), guard["limit"])
    return None


def nesting_status(F, R):
    """everything P5 needs: the guard, per recursive cycle whether it is cut and how heavy one level is, the wrap sites, the bound"""
    import functools
    sccs = R["recursive_sccs"]
    guard = nesting_guard(F)
    init, refill = fuel_constants(F)
    tails_all = {f: v["la"] for f, v in R["tails"].items()}
    cycles, cut_all, W_max = [], bool(guard), 0
    for scc in sccs:
        members = set(scc)
        g = guarded_functions(F, guard, members) if guard else {}
        guarded = {f for f, ok in g.items() if ok}
        edges = {f: sorted({callee(t) for b, t in F.fn(f).calls() if (callee(t) or "") in members}) for f in members}

        @functools.lru_cache(maxsize=None)
        def heaviest(f, seen=()):
            if f in seen:
                return None               # a cycle that avoids every guarded function
            w = tails_all.get(f, 0)
            best = 0
            for c in edges[f]:
                if c in guarded:
                    continue
                r = heaviest(c, seen + (f,))
                if r is None:
                    return None
                best = max(best, r)
            return w + best
        ws = [heaviest(f) for f in sorted(members)]
        cut = bool(guarded) and all(w is not None for w in ws)
        hv = max([heaviest(f) for f in sorted(guarded)], default=None) if cut else None
        cycles.append({"key": scc[0].rsplit("::", 1)[-1], "name": "/".join(x.rsplit("::", 1)[-1] for x in scc[:4]) + ("…" if len(scc) > 4 else ""),
                       "guarded": sorted(x.rsplit("::", 1)[-1] for x in guarded), "cut": cut, "heaviest": hv})
        cut_all = cut_all and cut
        if cut:
            W_max = max(W_max, hv)
    rec = {f for s_ in sccs for f in s_}
    once = sum(v for f, v in tails_all.items() if f not in rec)
    bound = (guard["limit"] * W_max + once + R["la_abs"]) if guard and cut_all else None
    # wraps: start_node_before inside a loop must sit behind the budget test
    bud = wrap_budget(F, guard) if guard else None
    budget = bud["method"] if bud else None
    wraps = []
    for p_ in R["functions"]:
        f = F.fn(p_)
        d = None
        loops = [f.natural_loop(tl, hd) for tl, hd in f.back_edges()]
        k = 0
        for b, t in f.calls():
            if (callee(t) or "") == PM.P + "start_node_before":
                if any(b in lp for lp in loops):
                    d = d or FL.Defs(f)
                    gs = FL.gates(F, f, [b], d)
                    gated = bool(budget) and any((g.get("callee") or "") == budget and g.get("allowed") == [True] for g in gs)
                    wraps.append({"fn": p_, "ordinal": k, "line": t["ln"], "gated": gated})
                k += 1
    fuel_ok = bound is not None and refill is not None and init is not None and bound < min(init, refill) and all(w["gated"] for w in wraps)
    budget_ok = not wraps or (bool(bud) and bud["counts"] and bud["monotone"])
    return {"guard": guard, "budget": bud, "cycles": cycles, "wraps": wraps, "limit": (guard or {}).get("limit"), "heaviest_level": W_max, "non_recursive_tails": once,
            "head": R["la_abs"], "bound": bound, "fuel": refill, "fuel_ok": fuel_ok,
            "ok": bool(guard) and guard["increment_only_below_limit"] and guard["releases"] and cut_all and fuel_ok and budget_ok}


def budget_is_charged_behind_a_token_decision(F, res, rule="P5a"):
    """The wrap budget counts what it grants (`can_wrap` stores counter + 1 on every accepting answer), and a budget unit that is
    granted and not used is lost for the rest of the activation and for everything the activation returns into. So the question is
    asked only when an operator is there to wrap: every call of the budget test is reached behind a decision on the current token
    made in the same loop iteration (`matches!(p.nth(0), "(" | ".") && p.can_wrap()`, `infix_bp()` answered Some). Asked first -
    `!p.can_wrap() || !matches!(..)` - every operand of every expression charges a wrap that never happens; the surplus adds up on
    the way back out of nested expressions and a well-formed expression 64 levels deep is refused as too deeply nested."""
    guard = nesting_guard(F)
    bud = wrap_budget(F, guard) if guard else None
    if not bud:
        res.anchor_missing(rule, "the wrap budget test of the parser (a bool method that compares and charges a counter)")
        return
    budget = bud["method"]
    TOKENISH = ("Parser::nth", "Parser::at", "Parser::at_any", "SyntaxKind::infix_bp", "SyntaxKind::postfix_bp", "SyntaxKind::prefix_bp", "TokenSet::contains")
    # a named predicate over the current token (`at_postfix_start(p)`): a function of the parser that looks (nth / at / at_any), answers
    # bool and consumes nothing
    from rules import parser_model as _PMb
    consuming = set(_PMb.movers(F)) | {_PMb.P + x for x in ("bump", "eat", "expect", "bump_with_error", "start_node", "start_node_before", "finish_node", "error")}
    predicates = set()
    for q, g in F.fns.items():
        if not q.startswith("syntax::parser::") or not g.blocks or "{closure" in q or str(g.local_ty(0)) != "bool" or q == budget:
            continue
        cs = {callee(tt) or "" for _b, tt in g.calls()}
        if any(FL.short(c).endswith(x) for c in cs for x in TOKENISH) and not (cs & consuming) and not any(c.startswith("syntax::parser::") and c not in (_PMb.P + "nth", _PMb.P + "at", _PMb.P + "at_any") and "TokenSet" not in c for c in cs):
            predicates.add(q)
    n, bad = 0, []
    for p_, f in sorted(F.fns.items()):
        if not p_.startswith("syntax::parser::") or not f.blocks or p_ == budget:
            continue
        sites = [(b, t) for b, t in f.calls() if (callee(t) or "") == budget]
        if not sites:
            continue
        d = FL.Defs(f)
        loops = [f.natural_loop(tl, hd) for tl, hd in f.back_edges()]
        for b, t in sites:
            n += 1
            inner = sorted([lp for lp in loops if b in lp], key=len)
            body = inner[0] if inner else None
            gs = FL.gates(F, f, [b], d)
            # calls that look at the current token, in this iteration, before the question
            looks = [cb for cb, ct in f.calls() if (any(FL.short(callee(ct) or callee_def(ct) or "").endswith(x) for x in TOKENISH) or
                                                      (callee(ct) or "") in predicates) and
                     (body is None or cb in body) and f.dominates(cb, b)]
            # .. and a decision between the look and the question (the `matches!` on what nth answered, infix_bp's Some)
            ok = any((body is None or g.get("bb") in body) and any(f.dominates(cb, g["bb"]) for cb in looks) for g in gs)
            if not ok:
                bad.append("%s line %s: the budget is asked before the token is looked at (decisions on the way: %s)" % (FL.short(p_), t["ln"], [FL.gate_summary(g) for g in gs][:4]))
    res.floor("calls of the wrap budget test in the grammar", n, 2)
    res.ob(rule, "wrap-budget/asked-behind-a-token-decision", "the wrap budget is asked (and charged) only where a decision on the current token has said that an "
           "operator follows", not bad, where="crates/syntax/src/parser.rs", how="%d calls of %s, each behind a token test of its loop iteration" % (n, FL.short(budget)) if not bad
           else "; ".join(bad))


def run(F, res, tier):
    from rules import c14 as _c14u
    _c14u.text_positions_are_counted_in_bytes(F, res, rule="P8", crates=('syntax',))   # engine U: slicing or bumping by a character / UTF-16 count lands inside a character and panics
    R = pcache.results(F)
    res.analysed.update({"functions": len(R["functions"]), "contexts": R["contexts"], "context_analyses": R["analyses"],
                         "abstract_states": R["states"], "token_kinds": len(R["universe"]),
                         "engine_wall_s": R["wall_s"]})
    # the root of the analysis is what parse_module calls
    pm = F.fn(ROOT)
    calls_module = [t for b, t in pm.calls() if callee(t) == "syntax::parser::module"]
    res.ob("P0", "root", "parse_module runs syntax::parser::module on the parser it built (root of the analysis)",
           len(calls_module) == 1, where=pm.loc(), how="%d calls" % len(calls_module), nontrivial=False)
    res.ob("P0", "no-unmodelled-calls", "every call made by a parser function is interpreted (parser function, "
           "modelled primitive, or pure helper evaluated from its own MIR)", not R["unknown_calls"],
           where="crates/syntax/src/parser.rs", how="unmodelled: %s" % R["unknown_calls"])

    # ---- M
    PM.check_model(F, res, "M")

    # ---- P1
    failing = R["panic_sites"]
    for a in R["asserts"]:
        key = "%s|%s|%d" % (a["fn"], a["callee"], a["ordinal"])
        bad = failing.get(key)
        res.ob("P1", "assert/%s/%d" % (a["fn"].rsplit("::", 1)[-1], a["ordinal"]),
               "the failure branch of this %s is unreachable in every calling context" % (a["mac"][-1] if a["mac"] else "panic"),
               bad is None, where="crates/syntax/src/parser.rs:%d" % a["line"],
               how="unreachable in all %d contexts" % R["contexts"] if bad is None else
               "%s when the current token is one of %s; call chain %s" % (bad["why"], bad["kinds"][:8], bad["ctx"]))
    for bsite in R["bumps"]:
        key = "%s|%s|%d" % (bsite["fn"], PM.P + "bump", bsite["ordinal"])
        bad = failing.get(key)
        res.ob("P1", "bump/%s/%d" % (bsite["fn"].rsplit("::", 1)[-1], bsite["ordinal"]),
               "bump() is never reached at end of input here (its assert!(!self.eof()) holds)",
               bad is None, where="crates/syntax/src/parser.rs:%d" % bsite["line"],
               how="EOF excluded in every context" if bad is None else "%s; call chain %s" % (bad["why"], bad["ctx"]))
    known = {"%s|%s|%d" % (a["fn"], a["callee"], a["ordinal"]) for a in R["asserts"]} | \
            {"%s|%s|%d" % (b["fn"], PM.P + "bump", b["ordinal"]) for b in R["bumps"]}
    for key, bad in failing.items():
        if key not in known:
            res.ob("P1", "panic/" + key, "no other panic is reachable in a parser function", False,
                   where="crates/syntax/src/parser.rs:%d" % bad["line"], how="%s; kinds %s; chain %s" % (bad["why"], bad["kinds"][:8], bad["ctx"]))
    res.floor("assert!/panic! sites in parser functions", len(R["asserts"]), 29)
    res.floor("direct bump() call sites", len(R["bumps"]), 25)

    # ---- P2
    nloops = 0
    for fnp, ls in sorted(R["loops"].items()):
        for l in ls:
            nloops += 1
            bad = R["loop_viol"].get("%s|%d" % (fnp, l["ordinal"]))
            res.ob("P2", "loop/%s/%d" % (fnp.rsplit("::", 1)[-1], l["ordinal"]),
                   "every path from this loop's head back to it consumes a token",
                   bad is None, where="crates/syntax/src/parser.rs:%d" % l["line"],
                   how="progress on every back edge" if bad is None else
                   "an iteration without consumption exists when the current token is one of %s; chain %s" % (bad["kinds"][:8], bad["ctx"]))
    res.floor("loops in parser functions", nloops, 26)

    # ---- P3
    res.ob("P3", "recursion-consumes", "no cycle of calls among parser functions without a consumption in between "
           "(so recursion depth is bounded by the number of tokens)", not R["noprog_cycles"],
           where="crates/syntax/src/parser.rs", how="acyclic over %d contexts" % R["contexts"] if not R["noprog_cycles"]
           else "cycle: %s" % R["noprog_cycles"][0])

    # ---- P4
    init, refill = fuel_constants(F)
    res.ob("P4", "fuel/agree", "the initial fuel and the refill value in bump() are the same constant",
           init is not None and init == refill, where=pm.loc(), how="init=%s refill=%s" % (init, refill))
    res.ob("P4", "fuel/exceeds-lookahead", "fuel exceeds the largest number of look-aheads a parser function and the "
           "heads of its callees perform between two consumptions (else shallow inputs panic 'parser is stuck')",
           init is not None and refill is not None and R["la_abs"] < min(init, refill),
           where="crates/syntax/src/parser.rs:%s" % (R["la_abs_at"] or {}).get("line"),
           how="max look-aheads %d (at %s) vs fuel %s" % (R["la_abs"], (R["la_abs_at"] or {}).get("ctx"), refill))

    # ---- P5
    NS = nesting_status(F, R)
    budget_is_charged_behind_a_token_decision(F, res)
    guard = NS["guard"]
    res.ob("P5a", "nesting-guard", "a Parser method bounds the nesting: it compares a counter with a constant and counts up only below it; what it "
           "hands out counts down again when dropped", bool(guard) and guard["increment_only_below_limit"] and guard["releases"],
           where="crates/syntax/src/parser.rs:%s" % (guard or {}).get("line", ""), how=str({k: v for k, v in (guard or {}).items() if k != "line"}) if guard else
           "no method of Parser compares a counter with a constant: recursion depth = nesting depth of the input")
    for c in NS["cycles"]:
        res.ob("P5a", "cycle-cut/%s" % c["key"], "every cycle among %s passes a function that asks the nesting guard before it descends "
               "(and keeps the level until it returns)" % c["name"], c["cut"], where="crates/syntax/src/parser.rs",
               how="guarded: %s; heaviest return path between two guarded activations: %s look-aheads" % (c["guarded"], c["heaviest"]) if c["guarded"] else
               "no function of the cycle asks the guard: recursion depth = nesting depth of the input")
    for w in NS["wraps"]:
        res.ob("P5a", "wrap-budget/%s/%d" % (w["fn"].rsplit("::", 1)[-1], w["ordinal"]), "an operand is wrapped into a new node inside a loop only while the "
               "nesting budget allows it (the tree, and with it every later recursive walk, stays shallow however long a chain of operators is)",
               w["gated"], where="crates/syntax/src/parser.rs:%s" % w["line"], how="gated by the budget test: %s" % w["gated"])
    bud = NS["budget"]
    if NS["wraps"] or bud:
        res.ob("P5a", "wrap-budget/charged", "the budget test counts what it grants: every accepting answer stores counter + 1, no refusing one does, and the "
               "counter is not the level counter (a budget that is compared but never charged, or charged to the operand's own level only, lets "
               "each nested operand start afresh: [[[x] + 1 + 1 ..] + 1 + 1 ..] builds a tree thousands of levels deep)",
               bool(bud) and bud["counts"], where="crates/syntax/src/parser.rs:%s" % (bud or {}).get("line", ""),
               how="%s charges Parser.%s" % (FL.short(bud["method"]), bud["field"]) if bud and bud["counts"] else str(bud))
        res.ob("P5a", "wrap-budget/never-falls", "within one activation the budget counter never falls: entering a level may re-base it on the level "
               "counter only if the overwritten value is kept in the token and the token's Drop stores the larger of the two; nobody else writes it "
               "(what is nested in an operand is nested in everything wrapped around the operand later)",
               bool(bud) and bud["monotone"], where="crates/syntax/src/parser.rs:%s" % (bud or {}).get("line", ""),
               how="writers: the budget test (+1), %s (from the level counter, old value saved), Drop (max)" % FL.short(guard["method"]) if bud and bud["monotone"]
               else "; ".join((bud or {}).get("problems", ["no budget test"])))
    res.analysed["nesting"] = {k: NS[k] for k in ("limit", "heaviest_level", "non_recursive_tails", "head", "bound", "fuel")}
    res.ob("P5b", "lookahead-on-return-path-bounded",
           "look-aheads performed while returning through nested frames cannot exhaust the fuel: fuel > limit x (heaviest return path of one level) "
           "+ the look-aheads of every non-recursive function once + the largest head", NS["fuel_ok"], where="crates/syntax/src/parser.rs",
           how="%s x %s + %s + %s = %s vs fuel %s" % (NS["limit"], NS["heaviest_level"], NS["non_recursive_tails"], NS["head"], NS["bound"], NS["fuel"])
           if NS["bound"] is not None else "nesting is unbounded: each level adds look-aheads after its last consumption, fuel (%s) runs out at a depth "
           "of a few hundred" % NS["fuel"])

    p6_inventory(F, res, R)
    # ---- P7
    leaks = R["leak_sites"]
    for m in R["marks"]:
        mid = "m%d%s" % (m["ordinal"], "b" if m["callee"].endswith("before") else "")
        bad = leaks.get("%s|%s" % (m["fn"], mid))
        res.ob("P7", "mark/%s/%s" % (m["fn"].rsplit("::", 1)[-1], mid),
               "the mark opened here is finished (or handed to a callee) on every path to return",
               bad is None, where="crates/syntax/src/parser.rs:%d" % m["line"],
               how="moved into finish_node on all paths" if bad is None else "%s; chain %s" % (bad["why"], bad["ctx"]))
    for key, bad in leaks.items():
        if not any(key == "%s|m%d%s" % (m["fn"], m["ordinal"], "b" if m["callee"].endswith("before") else "") for m in R["marks"]):
            res.ob("P7", "mark/" + key, "marks are used linearly", False, where="crates/syntax/src/parser.rs:%s" % bad.get("line"),
                   how="%s; chain %s" % (bad["why"], bad["ctx"]))
    res.floor("start_node / start_node_before sites", len(R["marks"]), 88)


def p6_inventory(F, res, R):
    """P6: every other panic-capable construct reachable from parse_module inside crate syntax is justified"""
    from lib import panics as PN
    from lib import report as RP
    from rules import c15
    reviewed = RP.load_reviewed().get("C10", {})
    from lib.inventory import Inventory
    INV = Inventory(F, reviewed, "Q1/", discharged=lambda f_, b_, k_, dt_, df_: c15.discharge(F, f_, b_, k_, dt_, df_) or budget_discharge(F, f_, b_, k_, dt_, df_))
    cbs = PM.lexer_callbacks(F)
    res.floor("lexer callbacks (entered through logos, named as roots)", len(cbs), 1)
    seen = F.reachable_from([ROOT] + cbs)
    n = 0
    for p_ in sorted(seen):
        if not p_.startswith(("syntax::", "<syntax::")):
            continue
        f = F.fns[p_]
        if not f.blocks:
            continue
        defs = None
        for b, kind, detail, ln, key, exp in PN.sites_in(f):
            full = "%s/%s" % (p_, key)
            if kind == "explicit" and detail == "assert!" and p_ in R["functions"] + [PM.P + "bump"]:
                continue        # P1 obligations above
            if p_ == PM.P + "nth" and kind == "explicit":
                continue        # the fuel guard: P4 / P5b
            if defs is None:
                defs = FL.Defs(f)
            n += 1
            desc = "the %s (%s) at this site cannot fire while parsing any input" % (kind, detail)
            why = c15.discharge(F, f, b, kind, detail, defs) or budget_discharge(F, f, b, kind, detail, defs)
            if why:
                res.ob("P6", full, desc, True, where=f.loc(ln), how="discharged: " + why)
                continue
            rv = RP.lookup_reviewed(reviewed, "Q1/" + full, FL.guard_signature(F, f, b, defs))
            if rv and __import__("lib.inventory", fromlist=["x"]).guards_hold(rv.get("guards", []), FL.guard_signature(F, f, b, defs), {v.get("name") for v in (f.d.get("debug") or [])}):
                res.ob("P6", full, desc, True, where=f.loc(ln), how="reviewed: " + rv["reason"], reviewed=True)
            else:
                mv, mv_from = (None, None) if rv else INV.moved(f, b, key.rsplit("/", 1)[0], FL.guard_signature(F, f, b, defs))
                if mv:
                    res.ob("P6", full, desc, True, where=f.loc(ln), reviewed=True,
                           how="reviewed in %s before the code was moved here: %s" % (mv_from.rsplit("::", 1)[-1], mv["reason"]))
                    continue
                res.ob("P6", full, desc, False, where=f.loc(ln), how="panic-capable construct reachable from parse_module, neither discharged nor reviewed"
                       if not rv else "the conditions guarding this reviewed site changed since review")
    res.floor("other panic-capable sites reachable from parse_module in crate syntax", n, 20)
    # the one lexer callback advances logos' Lexer, whose bump() panics past the end / inside a character
    from rules import c01
    c01.lexer_bump_unit(F, res, rule="P6")


def depth_guard(F):
    """is ErrorKind::NestTooDeep produced anywhere in crate syntax?"""
    from lib import effects as EF
    return bool(EF.constructions(F, "syntax::ErrorKind", "NestTooDeep", "syntax::"))


def thorough(F, res):
    from lib import pcache as _pc
    _pc.crosscheck(F, res)
