"""C02 — Parsing terminates without panic or abort on every input."""
from lib import pcache
from lib import flow as FL
from lib.facts import callee, op_place
from rules import parser_model as PM

META = {
    "level": "other",
    "technique": "static analysis: abstract interpretation of the parser's MIR over token-kind sets (engine P) + model/shape checks of the parser primitives",
    "rule": "P1 every assert!/bump precondition holds in every reachable context; P2 every loop consumes a "
            "token per iteration; P3 no recursion cycle without consumption; P4 fuel exceeds the largest "
            "number of look-aheads between two consumptions; P5 nesting depth / return-path look-ahead is "
            "bounded; P6 every other panic-capable construct reachable from parse_module in crate syntax is "
            "discharged by a rule or reviewed with its guard signature, and the lexer callback advances logos by "
            "a byte length; P7 every opened mark is finished exactly once; M the seven leaf primitives have the "
            "modelled shape. One obligation per site; non-trivial = decided by the abstract interpreter. P6's roots include the hand-written callbacks of the logos-generated lexer.",
    "explanation": "Engine P interprets the MIR of every function of syntax::parser on a nondeterministic token "
                   "oracle (the current token is one of the 66 kinds the lexer can deliver or EOF; it is refined "
                   "by every test the parser makes and forgotten at every consumption; look-ahead beyond the "
                   "current token is unknown). Per-context summaries reach a least fixpoint, so every token "
                   "sequence is covered. Obligations P1-P4, P7 and M together imply that parse_module returns "
                   "for every input whose nesting depth is bounded; P5 (no depth bound, look-ahead accumulating "
                   "along return paths) is open on this tree and recorded as known findings.",
    "not_decided": "panics inside logos/rowan.",
    "trusted_base": ["rustc MIR construction, callee resolution, const evaluation",
                     "logos emits only kinds that carry #[token]/#[regex]/#[error]",
                     "look-ahead beyond the current token is treated as arbitrary (over-approximation)"],
    "assumptions": ["panics in dependencies are out of scope"],
}

ROOT = "syntax::parser::parse_module"


def fuel_constants(F):
    """(value in parse_module's Cell::new, value in bump's fuel.set)"""
    pm = F.fn(ROOT)
    init = None
    for b, t in pm.calls():
        if (callee(t) or "").endswith("Cell::<T>::new"):
            k = t["args"][0].get("k")
            if k and "bits" in k and k["ty"] == "u32":
                init = int(k["bits"])
    bump = F.fn(PM.P + "bump")
    refill = None
    for b, t in bump.calls():
        if (callee(t) or "").endswith("Cell::<T>::set"):
            k = t["args"][1].get("k")
            if k and "bits" in k:
                refill = int(k["bits"])
    return init, refill


def run(F, res, tier):
    R = pcache.results(F)
    res.analysed.update({"functions": len(R["functions"]), "contexts": R["contexts"], "context_analyses": R["analyses"],
                         "abstract_states": R["states"], "token_kinds": len(R["universe"]),
                         "engine_wall_s": R["wall_s"]})
    # the root of the analysis is what parse_module calls
    pm = F.fn(ROOT)
    calls_module = [t for b, t in pm.calls() if callee(t) == "syntax::parser::module"]
    res.ob("P0", "root", "parse_module runs syntax::parser::module on the parser it built (root of the analysis)",
           len(calls_module) == 1, where=pm.loc(), how="%d calls" % len(calls_module), nontrivial=False)
    res.ob("P0", "no-unmodelled-calls", "every call made by a parser function is interpreted (parser function, "
           "modelled primitive, or pure helper evaluated from its own MIR)", not R["unknown_calls"],
           where="crates/syntax/src/parser.rs", how="unmodelled: %s" % R["unknown_calls"])

    # ---- M
    PM.check_model(F, res, "M")

    # ---- P1
    failing = R["panic_sites"]
    for a in R["asserts"]:
        key = "%s|%s|%d" % (a["fn"], a["callee"], a["ordinal"])
        bad = failing.get(key)
        res.ob("P1", "assert/%s/%d" % (a["fn"].rsplit("::", 1)[-1], a["ordinal"]),
               "the failure branch of this %s is unreachable in every calling context" % (a["mac"][-1] if a["mac"] else "panic"),
               bad is None, where="crates/syntax/src/parser.rs:%d" % a["line"],
               how="unreachable in all %d contexts" % R["contexts"] if bad is None else
               "%s when the current token is one of %s; call chain %s" % (bad["why"], bad["kinds"][:8], bad["ctx"]))
    for bsite in R["bumps"]:
        key = "%s|%s|%d" % (bsite["fn"], PM.P + "bump", bsite["ordinal"])
        bad = failing.get(key)
        res.ob("P1", "bump/%s/%d" % (bsite["fn"].rsplit("::", 1)[-1], bsite["ordinal"]),
               "bump() is never reached at end of input here (its assert!(!self.eof()) holds)",
               bad is None, where="crates/syntax/src/parser.rs:%d" % bsite["line"],
               how="EOF excluded in every context" if bad is None else "%s; call chain %s" % (bad["why"], bad["ctx"]))
    known = {"%s|%s|%d" % (a["fn"], a["callee"], a["ordinal"]) for a in R["asserts"]} | \
            {"%s|%s|%d" % (b["fn"], PM.P + "bump", b["ordinal"]) for b in R["bumps"]}
    for key, bad in failing.items():
        if key not in known:
            res.ob("P1", "panic/" + key, "no other panic is reachable in a parser function", False,
                   where="crates/syntax/src/parser.rs:%d" % bad["line"], how="%s; kinds %s; chain %s" % (bad["why"], bad["kinds"][:8], bad["ctx"]))
    res.floor("assert!/panic! sites in parser functions", len(R["asserts"]), 29)
    res.floor("direct bump() call sites", len(R["bumps"]), 25)

    # ---- P2
    nloops = 0
    for fnp, ls in sorted(R["loops"].items()):
        for l in ls:
            nloops += 1
            bad = R["loop_viol"].get("%s|%d" % (fnp, l["ordinal"]))
            res.ob("P2", "loop/%s/%d" % (fnp.rsplit("::", 1)[-1], l["ordinal"]),
                   "every path from this loop's head back to it consumes a token",
                   bad is None, where="crates/syntax/src/parser.rs:%d" % l["line"],
                   how="progress on every back edge" if bad is None else
                   "an iteration without consumption exists when the current token is one of %s; chain %s" % (bad["kinds"][:8], bad["ctx"]))
    res.floor("loops in parser functions", nloops, 26)

    # ---- P3
    res.ob("P3", "recursion-consumes", "no cycle of calls among parser functions without a consumption in between "
           "(so recursion depth is bounded by the number of tokens)", not R["noprog_cycles"],
           where="crates/syntax/src/parser.rs", how="acyclic over %d contexts" % R["contexts"] if not R["noprog_cycles"]
           else "cycle: %s" % R["noprog_cycles"][0])

    # ---- P4
    init, refill = fuel_constants(F)
    res.ob("P4", "fuel/agree", "the initial fuel and the refill value in bump() are the same constant",
           init is not None and init == refill, where=pm.loc(), how="init=%s refill=%s" % (init, refill))
    res.ob("P4", "fuel/exceeds-lookahead", "fuel exceeds the largest number of look-aheads a parser function and the "
           "heads of its callees perform between two consumptions (else shallow inputs panic 'parser is stuck')",
           init is not None and refill is not None and R["la_abs"] < min(init, refill),
           where="crates/syntax/src/parser.rs:%s" % (R["la_abs_at"] or {}).get("line"),
           how="max look-aheads %d (at %s) vs fuel %s" % (R["la_abs"], (R["la_abs_at"] or {}).get("ctx"), refill))

    # ---- P5
    sccs = R["recursive_sccs"]
    guard = depth_guard(F)
    res.ob("P5a", "recursive-scc-without-depth-bound",
           "the recursive cycles of the grammar (%s) are cut by a nesting limit, so deeply nested input cannot "
           "overflow the stack" % ["/".join(x.rsplit("::", 1)[-1] for x in s[:4]) + ("…" if len(s) > 4 else "") for s in sccs],
           not sccs or guard, where="crates/syntax/src/parser.rs",
           how="a depth guard exists" if guard else "ErrorKind::NestTooDeep is never produced and no function on a "
           "cycle tests a depth counter: recursion depth = nesting depth of the input")
    rec = {f for s in sccs for f in s}
    tails = {f: v for f, v in R["tails"].items() if f in rec and v["la"] > 0}
    res.ob("P5b", "lookahead-on-return-path-unbounded",
           "look-aheads performed while returning through nested frames cannot exhaust the fuel",
           not tails or guard, where="crates/syntax/src/parser.rs",
           how="bounded" if (not tails or guard) else
           "each level of nesting adds look-aheads after its last consumption (%s) and nesting is unbounded, so "
           "fuel (%s) runs out at a nesting depth of a few hundred" % (
               {f.rsplit("::", 1)[-1]: v["la"] for f, v in sorted(tails.items())}, refill))

    p6_inventory(F, res, R)
    # ---- P7
    leaks = R["leak_sites"]
    for m in R["marks"]:
        mid = "m%d%s" % (m["ordinal"], "b" if m["callee"].endswith("before") else "")
        bad = leaks.get("%s|%s" % (m["fn"], mid))
        res.ob("P7", "mark/%s/%s" % (m["fn"].rsplit("::", 1)[-1], mid),
               "the mark opened here is finished (or handed to a callee) on every path to return",
               bad is None, where="crates/syntax/src/parser.rs:%d" % m["line"],
               how="moved into finish_node on all paths" if bad is None else "%s; chain %s" % (bad["why"], bad["ctx"]))
    for key, bad in leaks.items():
        if not any(key == "%s|m%d%s" % (m["fn"], m["ordinal"], "b" if m["callee"].endswith("before") else "") for m in R["marks"]):
            res.ob("P7", "mark/" + key, "marks are used linearly", False, where="crates/syntax/src/parser.rs:%s" % bad.get("line"),
                   how="%s; chain %s" % (bad["why"], bad["ctx"]))
    res.floor("start_node / start_node_before sites", len(R["marks"]), 88)


def p6_inventory(F, res, R):
    """P6: every other panic-capable construct reachable from parse_module inside crate syntax is justified"""
    from lib import panics as PN
    from lib import report as RP
    from rules import c15
    reviewed = RP.load_reviewed().get("C10", {})
    from lib.inventory import Inventory
    INV = Inventory(F, reviewed, "Q1/")
    cbs = PM.lexer_callbacks(F)
    res.floor("lexer callbacks (entered through logos, named as roots)", len(cbs), 1)
    seen = F.reachable_from([ROOT] + cbs)
    n = 0
    for p_ in sorted(seen):
        if not p_.startswith(("syntax::", "<syntax::")):
            continue
        f = F.fns[p_]
        if not f.blocks:
            continue
        defs = None
        for b, kind, detail, ln, key, exp in PN.sites_in(f):
            full = "%s/%s" % (p_, key)
            if kind == "explicit" and detail == "assert!" and p_ in R["functions"] + [PM.P + "bump"]:
                continue        # P1 obligations above
            if p_ == PM.P + "nth" and kind == "explicit":
                continue        # the fuel guard: P4 / P5b
            if defs is None:
                defs = FL.Defs(f)
            n += 1
            desc = "the %s (%s) at this site cannot fire while parsing any input" % (kind, detail)
            why = c15.discharge(F, f, b, kind, detail, defs)
            if why:
                res.ob("P6", full, desc, True, where=f.loc(ln), how="discharged: " + why)
                continue
            rv = RP.lookup_reviewed(reviewed, "Q1/" + full, FL.guard_signature(F, f, b, defs))
            if rv and __import__("lib.inventory", fromlist=["x"]).guards_hold(rv.get("guards", []), FL.guard_signature(F, f, b, defs)):
                res.ob("P6", full, desc, True, where=f.loc(ln), how="reviewed: " + rv["reason"], reviewed=True)
            else:
                mv, mv_from = (None, None) if rv else INV.moved(f, b, key.rsplit("/", 1)[0], FL.guard_signature(F, f, b, defs))
                if mv:
                    res.ob("P6", full, desc, True, where=f.loc(ln), reviewed=True,
                           how="reviewed in %s before the code was moved here: %s" % (mv_from.rsplit("::", 1)[-1], mv["reason"]))
                    continue
                res.ob("P6", full, desc, False, where=f.loc(ln), how="panic-capable construct reachable from parse_module, neither discharged nor reviewed"
                       if not rv else "the conditions guarding this reviewed site changed since review")
    res.floor("other panic-capable sites reachable from parse_module in crate syntax", n, 20)
    # the one lexer callback advances logos' Lexer, whose bump() panics past the end / inside a character
    from rules import c01
    c01.lexer_bump_unit(F, res, rule="P6")


def depth_guard(F):
    """is ErrorKind::NestTooDeep produced anywhere in crate syntax?"""
    from lib import effects as EF
    return bool(EF.constructions(F, "syntax::ErrorKind", "NestTooDeep", "syntax::"))


def thorough(F, res):
    from lib import pcache as _pc
    _pc.crosscheck(F, res)
